#!/venv/bin/python
"""Regenerates MANIFEST.json from the property modules' own metadata (run by hand after adding a module)."""
import json, os, sys
sys.path.insert(0, os.path.dirname(os.path.abspath(__file__)))
from vp import core
core.bootstrap_repo()
ALL = ['C%02d' % i for i in range(1, 21)]
BASE = "cd /repo && /venv/bin/python -m pytest -ra -q -p no:cacheprovider --timeout=900 --continue-on-collection-errors"
checks, na = [], []
for pid in ALL:
    try:
        mod = core.load_module(pid)
    except Exception:
        na.append({'property_id': pid, 'reason': 'check not built yet in this round (designed in DESIGN.md section 2; the technique applies)'})
        continue
    checks.append({
        'property_id': pid,
        'quick_cmd': './check %s quick' % pid,
        'thorough_cmd': './check %s thorough' % pid,
        'evidence_file': 'evidence/%s.json' % pid,
        'replay_cmd_template': './check %s --replay {path}' % pid,
        'engine': 'vp-monitor',
        'level_claimed': {'category': mod.LEVEL, 'text': mod.LEVEL_TEXT, 'design_ref': 'DESIGN.md section 2, %s' % pid},
        'level_note': mod.LEVEL_NOTE,
        'technique': mod.TECHNIQUE,
    })
man = {
    'version': 1,
    'setup_cmd': './check --setup',
    'hooks': {'guard': 'PYTHON_DEBIAN_VERIF',
              'enable': 'no source hooks: monitors attach from the harness (contract shim re-binding live classes, sys.monitoring local probes, audit hooks); the guard name is reserved and unused',
              'baseline_off_cmd': BASE, 'source_commits': [], 'add_only': True},
    'engines': [{'name': 'vp-monitor', 'path': 'vp/', 'serves_properties': [c['property_id'] for c in checks],
                 'kind_free_text': 'runtime monitoring: seeded hostile workloads drive the live tree in sharded subprocesses; contracts/invariants on live classes, boundary history-vs-model oracles and trace specifications observe every execution'}],
    'checks': checks,
    'notes': 'Exit 0 held-on-observed (KNOWN-FINDING lines possible), 1 VIOLATION with replay file, 2 INCONCLUSIVE (monitor never reached / floor not met / watchdog). VERIF_SEED selects the workload seed. VP_REPO overrides the tree under test (default /repo).',
    'not_applicable': na,
}
with open(os.path.join(core.VERIF, 'MANIFEST.json'), 'w') as f:
    json.dump(man, f, indent=1); f.write('\n')
print(len(checks), 'checks;', len(na), 'not yet claimed')
