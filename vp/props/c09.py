"""C09 - a Deb822 paragraph is an insertion-ordered, case-insensitive,
case-preserving mapping under ANY history of operations.

Deciding monitor M (boundary, history + executable model): every case is a
history (start state + list of operations).  Each operation is performed on the
live ``Deb822`` / ``Deb822Dict`` object and on vp.models.cimap.CIListMap (a
plain list of [key, value] pairs); after EVERY operation - including the ones
that are expected to fail - the complete observable state of the live object is
compared with the model:

  list(d) (exact spellings, order) . len(d) . d[k] through the stored spelling
  and through other case spellings . ``k in d`` and KeyError-on-lookup for every
  spelling of every name of the history's alphabet . keys()/values()/items() .
  dump() (re-read with a tiny tolerant line reader, so only names, order and
  values are demanded, not the formatting) .

Operations on a missing key must raise KeyError, re-ordering a key relative to
itself (in any spelling) must raise ValueError, and in both cases the state must
be unchanged (that is the same full comparison).  Objects left behind by
``copy`` / dump->parse are kept as "ghosts" and re-observed at the end of the
history (a copy must not share state with its original).

Auxiliary monitors K1 (LinkedList) and K2 (OrderedSet) from vp.kmon run on every
underlying call and localise a failure to the method that broke the
representation.

Extension (round 6), two classes the first workload did not drive:

(1) ``sort_fields(key=f)`` with key functions that return the object they are
    handed - the STORED key - itself, a tuple/list holding it, or something
    computed from it by ordering comparisons (STORED_KEY_SORT_KEYS: identity,
    ``(k.startswith('X-'), k)``, ``(len(k), k)``, ``k[::-1]``, itemgetter,
    cmp_to_key, ...), on the SORT_NAMES alphabet whose spellings sort
    differently case-sensitively and case-insensitively.  The model applies the
    SAME function to the plain str spellings with list.sort; the library's key
    type may fold case in ==/hash only, never in < > <= >=.  Likewise
    sorted(d) / sorted(d.keys()) / min(d) / max(d) must order like the plain
    spellings (observe_plain_order, part of every observation).
(2) COPIES taken after re-orderings, by every route (COPY_HOWS): d.copy(),
    type(d)(d), Deb822(d), Deb822Dict(d), constructor from items view / pair
    list / plain dict, and the plain snapshots dict(d.items()), dict(d),
    list(d.items()), list(d.keys()), list(d.values()), list(d), tuple(items).
    Objects are observed in full (and may become the object the history goes
    on with, also across the two classes); snapshots are compared with the
    model at once; the object left behind is re-observed at the end (a copy
    taken before is unaffected by later re-orderings of the other object).
    values() is now part of every observation as well.
Sources: ``sort_enum_cases`` (every key function x fixed start orders x 4 start
kinds), flavours 'sortkeys' / 'copies' of ``gen_history`` (a copy follows a
re-ordering with raised probability), and a share of the classic histories.

Extension (round 7), KEY ALPHABET: field names with NON-ASCII letters.
(3) UNI_NAMES: Latin-1 / Latin Extended ('X-\u00c9pilogue' / 'x-\u00e9pilogue' /
    'X-\u00c9PILOGUE'), Greek ('X-\u03a3\u03af\u03b3\u03bc\u03b1' / ...), Cyrillic
    ('X-\u041f\u0440\u0438\u0432\u0435\u0442' / ...) names, each in 2-4 case spellings, mixed with
    ASCII names (among them 'X-Epilogue', which differs from 'X-\u00c9pilogue' by the
    accent only and is a DIFFERENT field).  Every spelling is checked at import
    time (``simple_case_name``) to consist of characters with a one-to-one
    lower/upper pair on which str.lower() and str.casefold() agree and which do
    not depend on context: on that class "case-insensitive" has exactly one
    reading and the model folds with str.lower().  The SAME histories, model and
    full observation are used (nothing is special-cased): flavour 'unicode' of
    ``gen_history`` (all profiles, all start kinds, all sort keys, all copy
    routes, all dump->parse routes), ``uni_enum_cases`` (all histories of length
    <= 2 / <= 3 over ENUM_OPS with a/b/c replaced by \u00e9/\u03c3/\u043f names), and
    ``uni_sort_cases``.  Counters ``uni:variant:<operation>`` record that a
    PRESENT non-ASCII field was addressed through a spelling different from the
    stored one, per operation kind and role (item / reference); all have floors.
(4) TOLERATED (not judged, only counted): names on which lower() and casefold()
    legitimately differ or which change length / depend on context - German
    sharp s ('\u00df' / 'SS'), Turkish dotted capital I and dotless i, Greek final
    sigma.  ``run_tolerated`` records what the tree does (one field or two) as
    evidence; no outcome there is a violation.

Extension (round 8), BULK / INDIRECT REMOVAL FOLLOWED BY RE-USE.
(5) New operations ``clear`` (d.clear()), ``popitem`` (d.popitem(); KeyError on an empty mapping), ``reinit``
    (other = d.copy() / type(d)(d) / Deb822Dict(d) / dict(d) / list(d.items()); d.clear(); full observation of
    the emptied mapping; d.update(other)) and ``update`` from another Deb822Dict; macro removals built from them
    and from the old del / pop: clear, popitem until empty (and once more), pop(k) / pop(k, default) of every
    key through case variants, del of every key in turn, mixed, partial-then-clear, clear + update(other),
    removal on a copy / on the original of a copy.  Each removal is FOLLOWED by re-use of the former names (same
    spelling and case variants) and of fresh names through every operation kind, the full observation running
    after every step as before: an emptied mapping has no members (``k in d`` False, d[k] KeyError, get ->
    default for every spelling of every former name, list/len/items/keys/values/dump empty, re-orders of former
    names rejected with KeyError); a re-assigned former name is a NEW member - once, at the end, spelled as in
    the re-assignment (what the unchanged tree does: removal forgets the old spelling).  popitem(): WHICH member
    goes is not demanded (the unchanged tree removes the first); the returned pair must be a member in its
    stored spelling with its value, and exactly that member is gone afterwards.  Objects left behind by copies /
    reinit sources are ghosts as before: emptying one object must not change the other (both directions are
    counted); they are re-observed at the moment the other object becomes empty and again at the end.
    Sources: ``bulk_enum_cases`` (every start kind x 26 removal scripts x fixed re-use scripts) and
    flavour 'bulk' (``gen_bulk_history``).  Counters ``bulk:*`` / monitors ``M.emptied``, ``M.after-emptied``
    have floors, among them clear / popitem-to-empty followed by re-use and by re-assignment of a former name
    for EVERY start kind (the object emptied is the start object itself, not a copy of it).

Extension (round 9), TWO MORE CLASSES OF KEYS.
(6) BLANK-LIKE CHARACTERS INSIDE FIELD NAMES: characters that Python's Unicode-aware ``\\s`` / str.isspace() call
    white space but that the deb822 field-name grammar (anything but ':' ' ' \\t \\n \\r \\f \\v) accepts in a name.
    BLANK_A (U+00A0, U+1680, U+2000..U+200A, U+202F, U+205F, U+3000, U+001F) takes part in everything, every
    dump->parse route included.  BLANK_B (U+2028, U+2029, U+0085, U+001C, U+001D, U+001E) are line boundaries of
    str.splitlines(): a paragraph TEXT given as one str is cut there by definition, so names holding them are only
    driven through the routes that cut lines at \\n alone (bytes, byte / str line lists, binary file objects) -
    established on the unchanged tree, enforced by ``case_in_domain``.  Every character occurs inside ('X\\xa0Vcs',
    'Build\\x1fId'), at the start and at the end of a name, each name in 3 case spellings, next to the twin names
    without the blank / with another blank (different fields) and names of blanks only (one spelling).  Same
    histories, model and full observation as for every other name (flavours 'blank', 'blank-b';
    ``special_enum_cases``, ``special_sort_cases``, ``special_bulk_enum_cases``, 'bulk-special' histories).
(7) CASE VARIANTS OF DIFFERENT LENGTH: U+0130 (dotted capital I) lowers to TWO code points ('i' + U+0307), and
    that spelling is its case variant under str.lower() and str.casefold() alike.  The judged class is widened from
    "one-to-one pairs" (simple_case_name) to "lower() and casefold() induce the SAME equivalence on every spelling
    the workload and the observation use" (``readings_agree``, checked at import time over all alphabets together):
    K, K.lower(), K.upper(), K.swapcase(), K.lower().upper() address one field in every operation; 'X-id' (plain
    i) is a different field.  Only the pairs on which the two readings DISAGREE (sharp s vs SS, final sigma) and
    dotless i (a variant of I under upper() only) stay tolerated.  Flavour 'dotted' and the enumerations above.
    The 'lines' routes now cut the text at \\n only (identical for every text of the older workloads).

Extension (round 11), PARSED TEXT THAT REPEATS ONE FIELD IN SEVERAL CASE VARIANTS.
(8) Start paragraphs parsed (by every route: str, bytes, str / byte line lists, iter_paragraphs(str / bytes), lazy
    wrapper over a str- / bytes-parsed paragraph, Deb822 and Deb822Dict) from a text in which one field name occurs
    two, three or four times in DIFFERENT case spellings, interleaved with other fields: A a . a A . A a A (a spelling
    recurs after another variant) . A a A a . three / four different spellings . A a AA-other A (a DIFFERENT field whose
    name begins with the repeated name stands between the occurrences) . the group at the head, in the middle, at the
    end, adjacent or spread . two repeated groups interleaved.  Established on the unchanged tree for all routes: the
    parser assigns line by line in text order, so the paragraph holds ONE member for the name, spelled as on its FIRST
    line, at the position of its first line, with the value of its LAST line.  That is CIListMap(lines) - the model
    the module always used for its starts; only the generators kept such texts out.  The usual histories (all
    operation kinds through all spellings, copies, 10 dump->parse routes, bulk removals) continue from there under
    the full observation (`in`, [], get for every spelling of every name, len, list(d), items(), keys(), values(),
    dump()).  Sources: ``repeat_enum_cases`` (16 line patterns x 10 start configurations x name sets x 3 fixed
    follow-up scripts) and flavour 'repeat' of ``gen_history``.  Counters ``repeat:*`` / monitor ``M.repeat`` have
    floors.
"""
import functools
import io
import itertools
import operator
import os
import random
import re
import unicodedata

from .. import contracts, kmon
from ..core import MonitorViolation
from ..models.cimap import CIListMap

PROP = 'C09'
LEVEL = 'exploration'
RULE = ('Histories = start state (empty / dict / pair list / parsed from str, bytes, line list, iter_paragraphs / '
        'lazy _parsed) + up to 30 (quick) or 40 (thorough) operations (set, del, get, in, order_first/last/before/'
        'after, sort_fields, copy, dump->parse, pop, setdefault, update) over an alphabet in which every name has '
        '2-4 case spellings; the generator tracks the state so that keys are deliberately addressed through a '
        'spelling different from the stored one (as moved key and as reference key), deliberately missing, or '
        'self-relative; plus ALL histories of length <= 3 (quick) / <= 4 (thorough) over a fixed 18-operation '
        'alphabet from 5 start states.  A history is non-trivial when at least one operation addressed a key that '
        'was present through a spelling different from the stored one AND at least one re-order, sort or delete '
        'succeeded.  Added classes: (1) sort_fields(key=f) with 17 key functions returning the key object handed '
        'over, a tuple/list containing it, or a value derived from it by ordering comparisons only (identity, '
        '(k.startswith("X-"), k), (len(k), k), k[::-1], itemgetter, cmp_to_key ...) on names with mixed-case '
        'initials (b A a2 B1 X-foo x-Bar Z aa Ab and their case variants): every key function x 8 (quick) / 60 '
        '(thorough) fixed start orders x 4 start kinds, plus seeded "sortkeys" histories (<= 12 ops, 2-9 fields) '
        'and a quarter of the sorts of the classic histories; after every observation sorted(d), '
        'sorted(d.keys()), min(d), max(d) are compared with the plain-str ordering of the model keys.  '
        '(2) copies taken after re-orderings by 15 routes (d.copy(), type(d)(d), Deb822(d), Deb822Dict(d), '
        'constructor from items view / pair list / plain dict of items / dict(d); snapshots dict(d.items()), '
        'dict(d), list/tuple of items, list of keys / values / iteration): seeded "copies" histories in which a '
        'copy follows a re-ordering with raised probability, the enumerated sort cases, and 40% of the copies of '
        'the classic histories; the history continues on the copy or on the original (also across the two '
        'classes), the other object is re-observed at the end.  '
        '(3) NON-ASCII FIELD NAMES (key alphabet): 15 names with Latin-1 / Latin Extended-A, Greek, Cyrillic, Armenian, '
        'fullwidth and Deseret (non-BMP) letters, each in 2-4 case spellings (X-\u00c9pilogue / x-\u00e9pilogue / '
        'X-\u00c9PILOGUE, X-\u03a3\u03af\u03b3\u03bc\u03b1 / x-\u03c3\u03af\u03b3\u03bc\u03b1, '
        'X-\u041f\u0440\u0438\u0432\u0435\u0442 / x-\u043f\u0440\u0438\u0432\u0435\u0442, ...), mixed with ASCII names '
        '(X-Epilogue is a different field than X-\u00c9pilogue); three pairs of names share their prefix up to the first '
        'non-ASCII letter and differ in its case, so that the case-insensitive order depends on folding it.  The same '
        'histories, model and full observation as for ASCII: seeded "unicode" histories (<= 22 / 32 ops, all '
        'profiles, all start kinds incl. bytes-parsed and lazily wrapped, all sort keys, all copy routes, all '
        'dump->parse routes), all sequences of length <= 2 (quick) / <= 3 (thorough) over the 18-operation alphabet with '
        'a/b/c replaced by non-ASCII names from 7 start states, and every sort key x 3 / 24 fixed start orders x 4 '
        'start kinds (sort, copy, re-order / delete through variants, dump->parse, sort again, copies).  Counters '
        'uni:variant:<operation> (a PRESENT non-ASCII field addressed through a spelling different from the stored '
        'one, per operation kind and item/reference role), uni:copy:<route>, uni:cycle:<route>, uni:start:<kind>, '
        'uni:sort:* all have floors.  (4) counted only, never judged: 14 pairs x 2 classes of the tolerated-'
        'unspecified classes (sharp s / SS, dotless i, final sigma): one field or two, recorded in '
        'tolerated_unspecified_observed.  '
        '(5) BULK / INDIRECT REMOVAL FOLLOWED BY RE-USE: operations clear (d.clear()), popitem (d.popitem(), also on '
        'the empty mapping), reinit (other = d.copy() / type(d)(d) / Deb822Dict(d) / dict(d) / list(d.items()); '
        'd.clear(); observe; d.update(other)) and update(another Deb822Dict).  Enumerated: 11 start configurations '
        '(every start kind; Deb822 and Deb822Dict) x 26 removal scripts (clear, clear twice, popitem to empty / past '
        'empty, pop(k) / pop(k, default) of every key also through case variants, del of every key forward / in '
        'reverse through variants, re-order then clear / popitem, reinit by 5 routes, clear + update(dict / pairs / '
        'Deb822Dict), clear / popitem-to-empty of a copy and of the original of a copy (by a rotating copy route and by d.copy()), dump->parse then clear) x 1 of 2 '
        '(quick, alternating) / 12 (thorough) name sets (ASCII and non-ASCII), each followed by one of two fixed re-use scripts '
        '(membership, lookup, re-orders, pop, del, sort, copy, dump->parse on the emptied mapping; re-assignment of '
        'former names in the same and in another spelling and of fresh names; re-orders through variants; sort; '
        'copy; dump->parse; delete and re-assign again; setdefault; update; popitem; clear; re-assign).  Seeded '
        '"bulk" histories: start of any kind (filled first when empty), 0-4 prelude operations, then 1-2 rounds of '
        '[removal macro: clear / popitem-to-empty / pop-all / del-all / mixed / partial-then-clear / reinit / '
        'clear+update / copy-then-empty] + 3-9 (quick) or 3-12 (thorough) re-use operations whose keys are aimed at '
        'former names (same spelling / variant), present names (variant / exact) and fresh names.  Counters '
        'bulk:emptied-by:<op>, bulk:on-emptied:op:<kind> (operation on a mapping that is empty after a removal), '
        'bulk:after-emptied:op:<kind>, bulk:reuse-former:<kind>:<same|variant>, bulk:<clear|popitem|pop|del>:'
        'reuse-former:origin-<start kind> and :reassign-former:origin-<start kind> (the emptied object is the start '
        'object itself), bulk:reinit:<route>, bulk:clear-then-update:<how>, bulk:ghost:* (object left behind observed '
        'after the other one was emptied, both directions) and monitors M.emptied / M.after-emptied all have floors.  '
        '(6) FIELD NAMES HOLDING BLANK-LIKE CHARACTERS that Python\'s Unicode-aware \\s / str.isspace() / split() / strip() treat '
        'as white space but the field-name grammar accepts: class A = U+00A0, U+1680, U+2000..U+200A, U+202F, U+205F, '
        'U+3000, U+001F (every route), class B = U+2028, U+2029, U+0085, U+001C, U+001D, U+001E (str.splitlines() boundaries: '
        'only the routes that cut lines at \\n - bytes, byte / str line lists, iter_paragraphs(bytes), binary file '
        'object, lazy wrapper over a bytes-parsed paragraph).  Every character inside (X<c>Vcs), at the start (<c>Lead) '
        'and at the end (Trail<c>) of a name in 3 case spellings, Build<U+001F>Id, runs of two, two different blanks in a '
        'row, both ends, names of blanks only (one spelling), next to their twins (XVcs, Lead, Trail, X-Vcs, BuildId ... '
        'and the same stem with ANOTHER blank: different fields).  (7) CASE VARIANTS OF DIFFERENT LENGTH: 7 names with '
        'U+0130, each in 3-4 spellings among them K.lower() (one code point longer per U+0130) and K.lower().upper() (I + '
        'U+0307), stored in the short or in the long spelling, next to plain-i twins (X-id, I, istanbul: different '
        'fields) and names sorting just below / above.  Both classes run through the SAME histories, model and full '
        'observation as every other name: seeded "blank" / "blank-b" / "dotted" histories (<= 20 / 30 ops, all profiles '
        'with dump->parse raised, 10 start kinds incl. iter_paragraphs(bytes), bytes line list, lazy wrapper over a '
        'bytes-parsed paragraph, 10 dump->parse routes incl. binary / text file objects handed to the parser, all sort keys, all copy routes, update from dict / pairs / '
        'Deb822Dict), all sequences of length <= 2 (quick) / <= 3 (thorough) over the 18-operation alphabet with a/b/c '
        'replaced by 3 (quick) / 4 name maps (blank A, dotted, blank B; mixed) from 3 (quick) / 8 (thorough) start states, every sort '
        'key x 2 / 12 fixed start orders x 4 start kinds (quick: half of the combinations per seed parity), the bulk-removal enumeration over 2 (quick: half of the '
        'start x removal pairs per seed parity) / 6 more name sets, and seeded "bulk-special" histories.  Counters '
        '<blank|blankb|dotted>:variant:<operation> (a PRESENT field of the class addressed through a spelling different '
        'from the stored one, per operation kind and item / reference role), dotted:lenvariant:<operation> (... through a '
        'spelling of another LENGTH), dotted:fail:self-relative-lenvariant (order_before/after(K, K.lower()) rejected with '
        'ValueError), dotted:assign-through-lenvariant-adds-no-field, <class>:start:<kind>, <class>:cycle:<route>, '
        '<class>:copy:<route>, <class>:sort:*, <class>:clear / popitem / reinit, blank:parsed:U+XXXX and '
        'blank:cycled:U+XXXX (a name holding exactly this character came out of the parser / went through dump->parse; '
        'one counter per character), special:nontrivial and monitors M.blank / M.blankb / M.dotted all have floors.  '
        '(8) PARSED TEXT THAT REPEATS ONE FIELD IN SEVERAL CASE VARIANTS: start texts in which one name (ASCII, Latin-1, '
        'dotted capital I, a name holding U+00A0) stands on 2-4 lines in different case spellings (A a, a A, A a A, A a A a, '
        'A a2 a3 A, ...), interleaved with other fields and with a different field whose name begins with the repeated '
        'name (A a AA-other A; Foo foo FOO-other Foo), at the head / in the middle / at the end of the paragraph, adjacent '
        'or spread, one or two repeated groups, parsed by 8 Deb822 routes (str, bytes, str / byte line lists, '
        'iter_paragraphs(str / bytes), lazy wrapper over a str- / bytes-parsed paragraph) and 2 Deb822Dict routes (lazy '
        'wrappers).  Reference: the lines are assignments applied in text order (one member, first spelling, position of '
        'the first line, value of the last line).  Enumerated: 16 line patterns x 10 start configurations x 1 of 4 (quick, '
        'rotating) / 4 (thorough) name sets x 3 fixed follow-up scripts (look-ups, assignments, re-orders, delete + '
        're-assign through variants, sorts, copies, dump->parse, popitem, clear, reinit); seeded "repeat" histories (<= 20 / '
        '30 ops, all profiles, all sort keys, all copy routes, 10 dump->parse routes).  Counters repeat:start:<kind>, '
        'repeat:shape:<shape> (recurs-after-variant, first-spelling-differs-from-last, 2 / 3 / 4 lines, 3+ spellings, '
        'prefix-twin-between, adjacent, spread, not-at-head, two-groups), repeat:addressed:<role> (an operation addresses '
        'the member that came from repeated lines), repeat:variant:<role>, repeat:cycle:<route>, repeat:copy:<route>, '
        'repeat:removed-then-reassigned, repeat:nontrivial and monitor M.repeat all have floors.')
ASSUMPTIONS = ['vp.models.cimap.CIListMap (list of pairs, keys folded with str.lower()) is the reference semantics of the statement',
               'domain: field names that the field-name grammar of the unchanged tree accepts (non-empty, none of the '
               'characters colon, space, \\t \\n \\r \\f \\v; not starting with #) and that are ASCII or belong to the judged '
               'non-ASCII classes below; values that are valid ASCII Deb822 values without leading/trailing whitespace '
               '(value round-tripping itself is C02/C08)',
               'BLANK-LIKE CHARACTERS IN NAMES (round 9): "whitespace" in the grammar means exactly the six ASCII characters '
               'above.  U+00A0, U+1680, U+2000..U+200A, U+202F, U+205F, U+3000 and U+001F are ordinary name characters on '
               'every route (established on the unchanged tree: all of them, inside, at the start and at the end of a '
               'name, round-trip through dump + parse from str, bytes, line lists, iter_paragraphs, file objects and the '
               'lazy wrapper).  U+2028, U+2029, U+0085, U+001C, U+001D, U+001E are in addition line boundaries of '
               'str.splitlines(): a paragraph text handed over as ONE str is cut into lines there (by the tree, and by '
               'definition of the lines of a str), so a name holding one of them is judged only on the routes that cut at '
               '\\n alone - bytes, fd-bytes, iter_paragraphs(bytes), byte line lists, str line lists cut by the caller, '
               'the lazy wrapper over a bytes-parsed paragraph - which is where the unchanged tree round-trips them; '
               'case_in_domain() skips any other combination (the generators never produce one).  Whether a str text '
               'SHOULD keep such a name in one piece is not demanded either way',
               'a list of lines is the caller\'s cut: the harness cuts the dump() text at \\n only (nl_lines; identical to '
               'str.splitlines(True) for every text without the boundary characters above)',
               'blank-like characters are caseless and are never folded, dropped, trimmed or unified: names that differ in '
               'a blank (X<U+00A0>Vcs / XVcs / X-Vcs / X<U+2003>Vcs, <U+00A0>Lead / Lead, one blank / a run of two) are '
               'DIFFERENT fields under every reading of "case-insensitive"',
               'WIDENED JUDGED CLASS (round 9, readings_agree, enforced at import time over ALL spellings of ALL alphabets '
               'together with their lower() / upper() / swapcase() forms, which is everything the workload and the '
               'observation ever use): str.lower() and str.casefold() induce the SAME equivalence on them - no two '
               'spellings are one field under one reading and two under the other.  One-to-one pairs and equal length are no '
               'longer required: U+0130 and its lower() spelling i + U+0307 (casefold() gives the same two code points), and '
               'I + U+0307 (= K.lower().upper()) are case variants of one name under both readings and are judged like any '
               'other variants; the model still folds with str.lower().  An implementation that folds with str.upper() '
               '(U+0130 stays, i + U+0307 becomes I + U+0307) or that compares lengths first is NOT inside either reading',
               'plain-i twins: X-id / I / istanbul are different fields than X-<U+0130>d / <U+0130> / <U+0130>stanbul '
               '(lower(), casefold() and upper() all keep them apart; a Turkic-tailored folding is not assumed and Python '
               'has none); names are not normalised (i + U+0307 is not composed, U+2000 is not replaced by U+2002)',
               'JUDGED non-ASCII class (simple_case_name, enforced at import time for every spelling the workload or the '
               'observation uses): every character is the lower or upper member of a one-to-one case pair (single '
               'characters both ways, closed under lower()/upper()), str.casefold() equals str.lower() on it, whole-string '
               'conversion equals character-wise conversion (no context rule), the name and its conversions are NFC.  '
               'On this class lower(), upper()-then-lower() and casefold() all induce the same equivalence, so '
               '"case-insensitive" has one reading and the model folds with str.lower()',
               'TOLERATED-UNSPECIFIED (only counted, never judged, exceptions and K1/K2 reports included): names with '
               'sharp s (\u00df / SS / \u1e9e) and Greek final sigma (\u03c2 / \u03c3 / \u03a3 at a word end) - lower() and '
               'casefold() DISAGREE on some pair of the spellings an observation of such a name uses (checked at import '
               'time per class), or the conversion depends on context - and dotless i (\u0131), which lower() and casefold() '
               'keep apart from I / i but upper() maps to I (whether it is a case variant of I is what the readings '
               'disagree on).  The dotted capital I left this class in round 9 (see the widened judged class).  '
               'Established on the unchanged tree: it folds with '
               'str.lower(), i.e. Stra\u00dfe/STRASSE, \u0131/I, \u03bf\u03b4\u03bf\u03c2/'
               '\u03bf\u03b4\u03bf\u03c3 are two fields each, \u039f\u0394\u039f\u03a3/\u03bf\u03b4\u03bf\u03c2 and '
               'GRO\u1e9e/gro\u00df one field; an implementation folding with casefold() (tried: one field for all '
               'sharp-s and final-sigma pairs) is held as well',
               'letters with a title-case third form (\u01c5) or a compatibility twin (Kelvin sign, micro sign, long s) '
               'are outside the judged class and not driven; normalisation forms are not mixed (an NFD spelling is a '
               'different name under every reading)',
               'non-ASCII names: the default order of sort_fields() is that of the str.lower() forms compared by code '
               'point (what the documented default key "lower()" gives; casefold() gives the same order on the judged '
               'class); locale-aware collation is not assumed',
               'bytes input / output with non-ASCII names uses UTF-8 (the default encoding of Deb822)',
               'PARSED TEXT REPEATING ONE FIELD IN SEVERAL CASE SPELLINGS (round 11; before, parsed start texts had '
               'case-insensitively unique names): the parser is read as ASSIGNMENT line by line in text order, i.e. the '
               'paragraph holds one member for the name, spelled as on its FIRST line ("spelling of the first insertion"), at '
               'the position of its first line, with the value of its LAST line; the other lines leave no trace (no second '
               'member, not in len / iteration / views / dump).  Established on the unchanged tree for every route the '
               'module uses (str, bytes, str / byte line lists, iter_paragraphs(str / bytes), file objects, lazy wrappers, '
               'Deb822 and Deb822Dict).  A parser that rejects such a text (duplicate fields are not valid in a Debian '
               'control paragraph) would be reported as start-<kind>/unexpected-<Error>: not assumed to exist, the tree '
               'accepts them in its default (non-strict) mode, which is the only mode driven.  Lines repeating a name in '
               'the SAME spelling only occur as the recurrence inside such a group (A a A), never on their own',
               'prefix twins (FOO-other next to Foo / foo, AA-other next to a / A) are DIFFERENT fields under every reading',
               'order_before/after(k, k) with k absent may raise KeyError or ValueError',
               'sort_fields(key=f): f receives the field name and sorting is stable, as documented ("same semantics as for sorted")',
               'sort_fields(key=f) where f returns the object it was handed (or a container of it): the object may be a '
               'plain str or the library\'s own key type; only its ==/hash may fold case, its ordering comparisons '
               '(< > <= >=) are those of the str spelling, so the demanded order is sorted(plain spellings, key=f).  '
               'No key function of the workload evaluates ==/!=/hash/in of the handed-over key against another string '
               '(there a case-folding key type and a plain str legitimately differ); inside tuple/list keys == is only '
               'ever applied between two different fields of one paragraph, which are unequal under both readings',
               'sorted(d), sorted(d.keys()), min(d), max(d) order the keys as plain strings (same reading: case is '
               'folded by ==/hash only); the repository\'s own test_case_preserved asserts this for sorted(d.keys())',
               'copy routes: an items view / pair list is handed directly to Deb822Dict only - the Deb822 constructor '
               'reads a non-mapping argument as lines of text, so for a Deb822 the pairs go through dict(...) or '
               'Deb822Dict(...) first (a plain dict preserves insertion order; CPython >= 3.7)',
               'views (keys()/values()/items()) are taken AFTER the re-ordering they are compared for; whether a view '
               'object obtained before a re-ordering follows it is not demanded',
               'a copy must be of the requested class (d.copy() / type(d)(...) the class of d, Deb822(d) a Deb822, '
               'Deb822Dict(d) a Deb822Dict); copy.copy()/copy.deepcopy()/pickle are outside the statement and not driven',
               'removal by any route (del, pop, popitem, clear) ends the membership of a name: afterwards it is a missing '
               'key for every operation, and a later assignment is a FIRST insertion again - the name appears once, at '
               'the end, spelled as in that assignment ("spelling of the first insertion" is read as the insertion that '
               'created the present membership; established on the unchanged tree, where removal forgets the old spelling)',
               'popitem(): which member is removed is NOT demanded (MutableMapping leaves it open; the unchanged tree '
               'removes the first, recorded in the popitem:<position> counters).  Demanded: the result unpacks to a '
               '(key, value) pair that is a member in its stored spelling with its current value, exactly that member '
               'is gone afterwards and the others keep their order; on an empty mapping popitem() raises KeyError (the '
               'mapping protocol, dict and MutableMapping alike) and changes nothing',
               'clear(): the return value is not judged; clear() of an empty mapping is a valid no-op',
               'pop(k, default) of a missing key returns the default and changes nothing (counted as a valid operation); '
               'pop(k) of a missing key raises KeyError',
               'update(other) with another Deb822Dict as argument contributes list(other.items()) of the reference model '
               'of `other` (first spelling, last value per name), applied in order; reinit: what dict(d) / list(d.items()) '
               '/ a copy of d holds is the model of d (keys of one paragraph are case-insensitively unique), so '
               'd.clear(); d.update(that) must restore keys, spellings, order and values']
ANCHORS = ['debian.deb822:Deb822Dict.__init__',
           'debian.deb822:Deb822Dict.__setitem__',
           'debian.deb822:Deb822Dict.__getitem__',
           'debian.deb822:Deb822Dict.__delitem__',
           'debian.deb822:Deb822Dict.__contains__',
           'debian.deb822:Deb822Dict.__iter__',
           'debian.deb822:Deb822Dict.__len__',
           'debian.deb822:Deb822Dict.order_first',
           'debian.deb822:Deb822Dict.order_last',
           'debian.deb822:Deb822Dict.order_before',
           'debian.deb822:Deb822Dict.order_after',
           'debian.deb822:Deb822Dict.sort_fields',
           'debian.deb822:Deb822Dict.copy',
           'debian.deb822:Deb822._internal_parser',
           'debian.deb822:Deb822._dump_format',
           'debian._util:_CaseInsensitiveString.__hash__',
           'debian._util:_CaseInsensitiveString.__eq__',
           'debian._util:OrderedSet.add',
           'debian._util:OrderedSet.remove',
           'debian._util:OrderedSet.order_first',
           'debian._util:OrderedSet.order_last',
           'debian._util:OrderedSet.order_before',
           'debian._util:OrderedSet.order_after',
           'debian._util:OrderedSet._reorder',
           'debian._util:LinkedList.append',
           'debian._util:LinkedList.remove_node',
           'debian._util:LinkedList.insert_at_head',
           'debian._util:LinkedList.insert_node_before',
           'debian._util:LinkedList.insert_node_after',
           'debian._util:LinkedListNode.remove',
           'debian._util:LinkedListNode.link_nodes']
MUST_REACH = ['debian.deb822:Deb822Dict.__setitem__', 'debian.deb822:Deb822Dict.__getitem__',
              'debian.deb822:Deb822Dict.__delitem__', 'debian.deb822:Deb822Dict.__contains__',
              'debian.deb822:Deb822Dict.__iter__', 'debian.deb822:Deb822Dict.order_first',
              'debian.deb822:Deb822Dict.order_last', 'debian.deb822:Deb822Dict.order_before',
              'debian.deb822:Deb822Dict.order_after', 'debian.deb822:Deb822Dict.sort_fields',
              'debian.deb822:Deb822Dict.copy', 'debian._util:OrderedSet._reorder',
              'debian._util:LinkedList.remove_node', 'debian._util:_CaseInsensitiveString.__eq__']

# total numbers of RANDOM histories per tier (the enumerated part comes on top)
RANDOM_HISTORIES = {'quick': 4400, 'thorough': 285000}
MAX_OPS = {'quick': 30, 'thorough': 40}
# the two added flavours ('sortkeys', 'copies'): shorter histories, counts per tier
FLAVOUR_HISTORIES = {'sortkeys': {'quick': 1100, 'thorough': 58000}, 'copies': {'quick': 1100, 'thorough': 58000}}
FLAVOUR_MAX_OPS = 12
# flavour 'unicode' (round 7): the classic generator over the non-ASCII alphabet
UNI_HISTORIES = {'quick': 1300, 'thorough': 68000}
UNI_MAX_OPS = {'quick': 22, 'thorough': 32}
UNI_ENUM_LEN = {'quick': 2, 'thorough': 3}
UNI_SORT_ORDERS = {'quick': 3, 'thorough': 24}
# round 9: flavours 'blank' / 'blank-b' / 'dotted' (the classic generator over the new alphabets)
SPECIAL_HISTORIES = {'blank': {'quick': 400, 'thorough': 24000}, 'blank-b': {'quick': 200, 'thorough': 12000},
                     'dotted': {'quick': 320, 'thorough': 20000}}
SPECIAL_MAX_OPS = {'quick': 20, 'thorough': 30}
SPECIAL_ENUM_LEN = {'quick': 2, 'thorough': 3}
SPECIAL_SORT_ORDERS = {'quick': 2, 'thorough': 12}
SPECIAL_BULK_HISTORIES = {'quick': 160, 'thorough': 10000}
SPECIAL_BULK_ENUM_ROUNDS = {'quick': 2, 'thorough': 6}
ENUM_LEN = {'quick': 3, 'thorough': 4}

FLOORS = {
    'quick': {'nontrivial': 14000,
              'monitors': {'M': 130000, 'M.failed-op': 36000, 'M.ghost': 6500, 'K1': 220000, 'K2': 260000,
                           'M.sortkey': 2500, 'M.copy': 7000, 'M.copy.after-reorder': 3300,
                           'M.ghost.after-reorder': 3100, 'M.plain-order': 55000, 'M.uni': 10000},
              'counters': {'reorder:item-variant': 24000, 'reorder:ref-variant': 6300,
                           'fail:reorder-missing-item': 12000, 'fail:reorder-missing-ref': 4300,
                           'fail:self-relative': 3000, 'fail:self-relative-variant': 5400,
                           'fail:del-missing': 3500, 'fail:get-missing': 320, 'fail:then-more-ops': 28000,
                           'reorder:only-element': 10000, 'del:head': 2700, 'del:tail': 2100, 'del:only': 2300,
                           'ok:sort': 7400, 'ok:copy': 7000, 'ok:cycle': 1900,
                           'sortkey:case-matters': 1600, 'sortkey:moved': 1800, 'moved:sort': 3100,
                           'plain-order:case-matters': 25000, 'ghost:other-object-re-ordered-afterwards': 3100}},
    'thorough': {'nontrivial': 410000,
                 'monitors': {'M': 5900000, 'M.failed-op': 1600000, 'M.ghost': 340000, 'K1': 8100000, 'K2': 10000000,
                              'M.sortkey': 100000, 'M.copy': 340000, 'M.copy.after-reorder': 120000,
                              'M.ghost.after-reorder': 150000, 'M.plain-order': 2000000, 'M.uni': 500000},
                 'counters': {'reorder:item-variant': 1100000, 'reorder:ref-variant': 240000,
                              'fail:reorder-missing-item': 520000, 'fail:reorder-missing-ref': 160000,
                              'fail:self-relative': 200000, 'fail:self-relative-variant': 280000,
                              'fail:del-missing': 170000, 'fail:get-missing': 23000, 'fail:then-more-ops': 1500000,
                              'reorder:only-element': 580000, 'del:head': 110000, 'del:tail': 100000,
                              'del:only': 120000, 'ok:sort': 320000, 'ok:copy': 340000, 'ok:cycle': 120000,
                              'sortkey:case-matters': 55000, 'sortkey:moved': 71000, 'moved:sort': 120000,
                              'plain-order:case-matters': 900000,
                              'ghost:other-object-re-ordered-afterwards': 150000}},
}

# per key function and per copy route (filled in below, once the tables exist): a run that never drives one of
# them is INCONCLUSIVE, not held
PER_SORTKEY_FLOOR = {'quick': 160, 'thorough': 7600}
PER_COPY_FLOOR = {'quick': 300, 'thorough': 15000}
PER_COPY_AFTER_REORDER_FLOOR = {'quick': 140, 'thorough': 6100}

# round 7, non-ASCII names.  uni:variant:<role> = a PRESENT non-ASCII field addressed through a spelling that is not
# the stored one, per operation kind (and item / reference role of order_before/after): every kind has a floor, so a
# run whose non-ASCII names never meet some operation kind through a case variant is INCONCLUSIVE.
UNI_VARIANT_FLOOR = {
    'quick': {'set': 500, 'del': 410, 'get': 100, 'in': 94, 'first': 440, 'last': 500, 'before-item': 500,
              'before-ref': 480, 'after-item': 460, 'after-ref': 480, 'pop': 100, 'setdefault': 87, 'update': 160},
    'thorough': {'set': 31000, 'del': 18000, 'get': 8200, 'in': 7500, 'first': 22000, 'last': 23000,
                 'before-item': 28000, 'before-ref': 28000, 'after-item': 27000, 'after-ref': 27000, 'pop': 7900,
                 'setdefault': 6300, 'update': 12000},
}
UNI_START_FLOOR = {
    'quick': {'dict': 690, 'pairs': 60, 'parsed-str': 270, 'parsed-bytes': 250, 'parsed-lines': 34, 'iter': 35,
              'lazy': 290},
    'thorough': {'dict': 17000, 'pairs': 1700, 'parsed-str': 7400, 'parsed-bytes': 7300, 'parsed-lines': 1900,
                 'iter': 2100, 'lazy': 8000},
}
PER_UNI_COPY_FLOOR = {'quick': 52, 'thorough': 3300}        # per copy route, paragraph holding a non-ASCII name
PER_UNI_CYCLE_FLOOR = {'quick': 35, 'thorough': 2000}       # per dump->parse route, paragraph holding a non-ASCII name
UNI_OTHER_FLOOR = {
    'quick': {'uni:sort:default': 180, 'uni:sort:caller-key': 120, 'uni:sort:stored-key': 280, 'uni:sort:moved': 440,
              'uni:sort:non-ascii-folding-matters': 27, 'uni:fail:self-relative-variant': 360,
              'uni:failed-op': 1800, 'uni:nontrivial': 1200},
    'thorough': {'uni:sort:default': 9000, 'uni:sort:caller-key': 7400, 'uni:sort:stored-key': 9000,
                 'uni:sort:moved': 15000, 'uni:sort:non-ascii-folding-matters': 900,
                 'uni:fail:self-relative-variant': 23000, 'uni:failed-op': 100000, 'uni:nontrivial': 40000},
}
# round 8, bulk / indirect removal followed by re-use
BULK_HISTORIES = {'quick': 1000, 'thorough': 60000}
BULK_REUSE_OPS = {'quick': 9, 'thorough': 12}
BULK_ENUM_ROUNDS = {'quick': 2, 'thorough': 12}
# Floors (about 50% of the minimum measured on the unchanged tree; quick: VERIF_SEED 0-5, thorough: seed 0).  Per START KIND (empty, dict,
# pairs, parsed-str, parsed-bytes, parsed-lines, iter, lazy - the emptied object is the start object itself, not a copy
# of it): removal that emptied it -> (operations addressing a former name afterwards, re-assignments of a former name).
# The enumerated cases alone give every start kind >= 48 / 14 (clear) and >= 45 / 10 (popitem) in every seed.
BULK_START_KINDS = ('empty', 'dict', 'pairs', 'parsed-str', 'parsed-bytes', 'parsed-lines', 'iter', 'lazy')
BULK_ORIGIN_FLOOR = {
    'quick': {'clear': (82, 37), 'popitem': (37, 10), 'pop': (44, 12), 'del': (120, 26)},
    'thorough': {'clear': (4200, 2200), 'popitem': (2200, 1000), 'pop': (3500, 1100), 'del': (11000, 2700)},
}
# per operation kind: run on an object that has been emptied by a removal (after-emptied) / while it is empty (on-emptied)
BULK_OP_FLOOR = {
    'quick': {'after-emptied': {'after': 1400, 'before': 1600, 'clear': 83, 'copy': 880, 'cycle': 530, 'del': 1400,
                                'first': 1200, 'get': 430, 'in': 370, 'last': 1200, 'pop': 460, 'popitem': 140,
                                'reinit': 52, 'set': 2900, 'setdefault': 240, 'sort': 690, 'update': 330},
              'on-emptied': {'after': 770, 'before': 890, 'clear': 38, 'copy': 420, 'cycle': 270, 'del': 860,
                             'first': 720, 'get': 240, 'in': 210, 'last': 610, 'pop': 270, 'popitem': 91,
                             'reinit': 15, 'set': 1300, 'setdefault': 110, 'sort': 330, 'update': 180}},
    'thorough': {'after-emptied': {'after': 110000, 'before': 110000, 'clear': 5400, 'copy': 51000, 'cycle': 32000,
                                   'del': 100000, 'first': 94000, 'get': 28000, 'in': 22000, 'last': 95000,
                                   'pop': 30000, 'popitem': 13000, 'reinit': 4400, 'set': 200000,
                                   'setdefault': 21000, 'sort': 40000, 'update': 24000},
                 'on-emptied': {'after': 58000, 'before': 60000, 'clear': 2300, 'copy': 23000, 'cycle': 15000,
                                'del': 58000, 'first': 48000, 'get': 12000, 'in': 9800, 'last': 48000, 'pop': 14000,
                                'popitem': 6400, 'reinit': 1300, 'set': 92000, 'setdefault': 8900, 'sort': 18000,
                                'update': 12000}},
}
# a former name addressed again: per operation role x (same spelling as before the removal | another spelling)
BULK_REUSE_ROLES = ('set', 'del', 'get', 'in', 'first', 'last', 'pop', 'setdefault', 'update', 'before-item',
                    'before-ref', 'after-item', 'after-ref')
BULK_REUSE_ROLE_FLOOR = {'quick': 65, 'thorough': 5200}
BULK_REINIT_FLOOR = {'quick': 20, 'thorough': 1800}             # per reinit route
BULK_CLEAR_UPDATE_FLOOR = {'quick': 22, 'thorough': 1400}       # per kind of update() argument right after clear()
BULK_OTHER_FLOOR = {
    'quick': {'bulk:emptied-by:clear': 450, 'bulk:emptied-by:popitem': 160, 'bulk:emptied-by:pop': 360,
              'bulk:emptied-by:del': 2000, 'bulk:emptied-by:reinit': 100,
              'bulk:reassign-former:same': 870, 'bulk:reassign-former:variant': 1100,
              'bulk:after-emptied:assign-fresh': 960,
              'bulk:ghost:copy-observed-after-other-object-emptied': 280,
              'bulk:ghost:original-observed-after-other-object-emptied': 250,
              'bulk:ghost:reinit-source-observed-after-other-object-emptied': 23,
              'bulk:ghost:reparse-source-observed-after-other-object-emptied': 350,
              'bulk:ghost:copy-observed-right-after-other-object-emptied': 370,
              'bulk:ghost:original-observed-right-after-other-object-emptied': 330,
              'bulk:ghost:reinit-source-observed-right-after-other-object-emptied': 25,
              'bulk:ghost:reparse-source-observed-right-after-other-object-emptied': 450,
              'ok:clear': 500, 'ok:popitem': 600, 'ok:reinit': 130, 'fail:popitem-empty': 99},
    'thorough': {'bulk:emptied-by:clear': 19000, 'bulk:emptied-by:popitem': 11000, 'bulk:emptied-by:pop': 25000,
                 'bulk:emptied-by:del': 110000, 'bulk:emptied-by:reinit': 7700,
                 'bulk:reassign-former:same': 57000, 'bulk:reassign-former:variant': 80000,
                 'bulk:after-emptied:assign-fresh': 63000,
                 'bulk:ghost:copy-observed-after-other-object-emptied': 17000,
                 'bulk:ghost:original-observed-after-other-object-emptied': 17000,
                 'bulk:ghost:reinit-source-observed-after-other-object-emptied': 1300,
                 'bulk:ghost:reparse-source-observed-after-other-object-emptied': 25000,
                 'bulk:ghost:copy-observed-right-after-other-object-emptied': 24000,
                 'bulk:ghost:original-observed-right-after-other-object-emptied': 27000,
                 'bulk:ghost:reinit-source-observed-right-after-other-object-emptied': 1400,
                 'bulk:ghost:reparse-source-observed-right-after-other-object-emptied': 38000,
                 'ok:clear': 21000, 'ok:popitem': 30000, 'ok:reinit': 9300, 'fail:popitem-empty': 6600},
}
BULK_MONITOR_FLOOR = {
    'quick': {'M.emptied': 8600, 'M.after-emptied': 16000, 'M.ghost.after-emptied': 2200},
    'thorough': {'M.emptied': 530000, 'M.after-emptied': 1000000, 'M.ghost.after-emptied': 150000},
}
# round 9, names with blank-like characters / case variants of different length.  GENERATED from measurements on the
# unchanged tree (quick: minimum over VERIF_SEED 0-5, thorough: seed 0 / 10): about 50% of the minimum, small counts at
# least 4 sigma below it and never below 1 - those say "was exercised at all"; the enumerated cases alone (which do not
# depend on the seed) reach every one of them.  Counters measured below 8 in some quick run have no floor.
SPECIAL_FLOORS = {
    'quick': {
        'monitors': {'M.blank': 6900, 'M.blankb': 1800, 'M.dotted': 3800},
        'counters': {'blank:clear': 71, 'blank:copy:Deb822': 35, 'blank:copy:Deb822Dict': 39, 'blank:copy:copy': 40,
                     'blank:copy:ctor': 53, 'blank:copy:ctor-dict': 34, 'blank:copy:ctor-dict-items': 33,
                     'blank:copy:ctor-item-list': 32, 'blank:copy:ctor-items': 35, 'blank:copy:dict': 21,
                     'blank:copy:dict-items': 16, 'blank:copy:list': 22, 'blank:copy:list-items': 23,
                     'blank:copy:list-keys': 19, 'blank:copy:list-values': 28, 'blank:copy:tuple-items': 22,
                     'blank:cycle:bytes': 14, 'blank:cycle:fd-bytes': 26, 'blank:cycle:fd-text': 3,
                     'blank:cycle:file-bytes': 16, 'blank:cycle:file-text': 4, 'blank:cycle:iter': 3,
                     'blank:cycle:iter-bytes': 13, 'blank:cycle:lines': 33, 'blank:cycle:lines-bytes': 13,
                     'blank:cycle:str': 13, 'blank:cycled:U+001C': 2, 'blank:cycled:U+001D': 2, 'blank:cycled:U+001E':
                     1, 'blank:cycled:U+001F': 34, 'blank:cycled:U+0085': 1, 'blank:cycled:U+00A0': 76,
                     'blank:cycled:U+1680': 1, 'blank:cycled:U+2000': 1, 'blank:cycled:U+2001': 1,
                     'blank:cycled:U+2002': 2, 'blank:cycled:U+2003': 51, 'blank:cycled:U+2004': 1,
                     'blank:cycled:U+2005': 1, 'blank:cycled:U+2006': 4, 'blank:cycled:U+2007': 36,
                     'blank:cycled:U+2008': 1, 'blank:cycled:U+2009': 5, 'blank:cycled:U+200A': 4,
                     'blank:cycled:U+2028': 1, 'blank:cycled:U+2029': 1, 'blank:cycled:U+202F': 1,
                     'blank:cycled:U+205F': 2, 'blank:cycled:U+3000': 26, 'blank:fail:self-relative-variant': 170,
                     'blank:failed-op': 850, 'blank:parsed:U+001C': 180, 'blank:parsed:U+001D': 1,
                     'blank:parsed:U+001E': 1, 'blank:parsed:U+001F': 220, 'blank:parsed:U+0085': 180,
                     'blank:parsed:U+00A0': 240, 'blank:parsed:U+1680': 6, 'blank:parsed:U+2000': 5,
                     'blank:parsed:U+2001': 7, 'blank:parsed:U+2002': 6, 'blank:parsed:U+2003': 45,
                     'blank:parsed:U+2004': 3, 'blank:parsed:U+2005': 5, 'blank:parsed:U+2006': 5,
                     'blank:parsed:U+2007': 30, 'blank:parsed:U+2008': 2, 'blank:parsed:U+2009': 11,
                     'blank:parsed:U+200A': 11, 'blank:parsed:U+2028': 180, 'blank:parsed:U+2029': 1,
                     'blank:parsed:U+202F': 5, 'blank:parsed:U+205F': 6, 'blank:parsed:U+3000': 14, 'blank:popitem':
                     89, 'blank:reinit': 5, 'blank:sort:caller-key': 62, 'blank:sort:default': 180,
                     'blank:sort:moved': 250, 'blank:sort:stored-key': 94, 'blank:start:dict': 400,
                     'blank:start:iter': 14, 'blank:start:iter-bytes': 12, 'blank:start:lazy': 42,
                     'blank:start:lazy-bytes': 190, 'blank:start:pairs': 18, 'blank:start:parsed-bytes': 56,
                     'blank:start:parsed-lines': 23, 'blank:start:parsed-lines-bytes': 7, 'blank:start:parsed-str':
                     210, 'blank:variant:after-item': 240, 'blank:variant:after-ref': 240,
                     'blank:variant:before-item': 280, 'blank:variant:before-ref': 270, 'blank:variant:del': 240,
                     'blank:variant:first': 170, 'blank:variant:get': 43, 'blank:variant:in': 36,
                     'blank:variant:last': 210, 'blank:variant:pop': 51, 'blank:variant:set': 300,
                     'blank:variant:setdefault': 24, 'blank:variant:update': 93, 'blankb:copy:Deb822': 1,
                     'blankb:copy:Deb822Dict': 1, 'blankb:copy:ctor': 1, 'blankb:copy:ctor-dict-items': 1,
                     'blankb:copy:ctor-item-list': 1, 'blankb:copy:ctor-items': 1, 'blankb:copy:dict': 1,
                     'blankb:copy:list-items': 1, 'blankb:copy:list-values': 1, 'blankb:cycle:bytes': 1,
                     'blankb:cycle:fd-bytes': 1, 'blankb:cycle:file-bytes': 1, 'blankb:cycle:iter-bytes': 1,
                     'blankb:cycle:lines': 1, 'blankb:cycle:lines-bytes': 1, 'blankb:fail:self-relative-variant': 54,
                     'blankb:failed-op': 190, 'blankb:sort:caller-key': 1, 'blankb:sort:default': 45,
                     'blankb:sort:moved': 49, 'blankb:sort:stored-key': 4, 'blankb:start:dict': 180,
                     'blankb:start:iter-bytes': 1, 'blankb:start:lazy-bytes': 180, 'blankb:start:parsed-bytes': 12,
                     'blankb:start:parsed-lines': 1, 'blankb:start:parsed-lines-bytes': 1,
                     'blankb:variant:after-item': 95, 'blankb:variant:after-ref': 96, 'blankb:variant:before-item':
                     98, 'blankb:variant:before-ref': 99, 'blankb:variant:del': 82, 'blankb:variant:first': 55,
                     'blankb:variant:get': 1, 'blankb:variant:in': 1, 'blankb:variant:last': 54, 'blankb:variant:pop':
                     1, 'blankb:variant:set': 94, 'blankb:variant:setdefault': 1, 'blankb:variant:update': 1,
                     'dotted:assign-through-lenvariant-adds-no-field': 130, 'dotted:clear': 66, 'dotted:copy:Deb822':
                     8, 'dotted:copy:Deb822Dict': 12, 'dotted:copy:copy': 16, 'dotted:copy:ctor': 39,
                     'dotted:copy:ctor-dict': 16, 'dotted:copy:ctor-dict-items': 8, 'dotted:copy:ctor-item-list': 6,
                     'dotted:copy:ctor-items': 14, 'dotted:copy:dict': 4, 'dotted:copy:dict-items': 5,
                     'dotted:copy:list': 8, 'dotted:copy:list-items': 5, 'dotted:copy:list-keys': 7,
                     'dotted:copy:list-values': 6, 'dotted:copy:tuple-items': 5, 'dotted:cycle:bytes': 1,
                     'dotted:cycle:fd-bytes': 7, 'dotted:cycle:fd-text': 1, 'dotted:cycle:file-bytes': 1,
                     'dotted:cycle:file-text': 1, 'dotted:cycle:iter': 1, 'dotted:cycle:iter-bytes': 1,
                     'dotted:cycle:lines': 5, 'dotted:cycle:lines-bytes': 1, 'dotted:cycle:str': 3,
                     'dotted:fail:self-relative-lenvariant': 73, 'dotted:fail:self-relative-variant': 90,
                     'dotted:failed-op': 420, 'dotted:lenvariant:after-item': 85, 'dotted:lenvariant:after-ref': 87,
                     'dotted:lenvariant:before-item': 110, 'dotted:lenvariant:before-ref': 110,
                     'dotted:lenvariant:del': 94, 'dotted:lenvariant:first': 58, 'dotted:lenvariant:get': 10,
                     'dotted:lenvariant:in': 2, 'dotted:lenvariant:last': 93, 'dotted:lenvariant:pop': 11,
                     'dotted:lenvariant:set': 120, 'dotted:lenvariant:setdefault': 1, 'dotted:lenvariant:update': 43,
                     'dotted:popitem': 78, 'dotted:reinit': 1, 'dotted:sort:caller-key': 29, 'dotted:sort:default':
                     110, 'dotted:sort:moved': 160, 'dotted:sort:stored-key': 51, 'dotted:start:dict': 200,
                     'dotted:start:iter': 3, 'dotted:start:iter-bytes': 1, 'dotted:start:lazy': 30,
                     'dotted:start:lazy-bytes': 1, 'dotted:start:pairs': 5, 'dotted:start:parsed-bytes': 190,
                     'dotted:start:parsed-lines': 11, 'dotted:start:parsed-lines-bytes': 1, 'dotted:start:parsed-str':
                     22, 'dotted:variant:after-item': 100, 'dotted:variant:after-ref': 110,
                     'dotted:variant:before-item': 140, 'dotted:variant:before-ref': 130, 'dotted:variant:del': 110,
                     'dotted:variant:first': 83, 'dotted:variant:get': 26, 'dotted:variant:in': 8,
                     'dotted:variant:last': 110, 'dotted:variant:pop': 22, 'dotted:variant:set': 160,
                     'dotted:variant:setdefault': 2, 'dotted:variant:update': 63, 'special:nontrivial': 1100}},
    'thorough': {
        'monitors': {'M.blank': 590000, 'M.blankb': 160000, 'M.dotted': 310000},
        'counters': {'blank:clear': 2600, 'blank:copy:Deb822': 2700, 'blank:copy:Deb822Dict': 2800, 'blank:copy:copy':
                     3000, 'blank:copy:ctor': 3300, 'blank:copy:ctor-dict': 2900, 'blank:copy:ctor-dict-items': 2800,
                     'blank:copy:ctor-item-list': 2800, 'blank:copy:ctor-items': 2800, 'blank:copy:dict': 2000,
                     'blank:copy:dict-items': 1900, 'blank:copy:list': 2000, 'blank:copy:list-items': 2000,
                     'blank:copy:list-keys': 2000, 'blank:copy:list-values': 2100, 'blank:copy:tuple-items': 2000,
                     'blank:cycle:bytes': 2200, 'blank:cycle:fd-bytes': 2100, 'blank:cycle:fd-text': 1200,
                     'blank:cycle:file-bytes': 2000, 'blank:cycle:file-text': 1100, 'blank:cycle:iter': 1300,
                     'blank:cycle:iter-bytes': 2000, 'blank:cycle:lines': 2200, 'blank:cycle:lines-bytes': 1900,
                     'blank:cycle:str': 1300, 'blank:cycled:U+001C': 1300, 'blank:cycled:U+001D': 1100,
                     'blank:cycled:U+001E': 1100, 'blank:cycled:U+001F': 1900, 'blank:cycled:U+0085': 1100,
                     'blank:cycled:U+00A0': 4100, 'blank:cycled:U+1680': 1200, 'blank:cycled:U+2000': 1400,
                     'blank:cycled:U+2001': 1100, 'blank:cycled:U+2002': 1200, 'blank:cycled:U+2003': 1700,
                     'blank:cycled:U+2004': 1200, 'blank:cycled:U+2005': 1200, 'blank:cycled:U+2006': 1100,
                     'blank:cycled:U+2007': 1600, 'blank:cycled:U+2008': 1200, 'blank:cycled:U+2009': 1700,
                     'blank:cycled:U+200A': 1600, 'blank:cycled:U+2028': 1400, 'blank:cycled:U+2029': 1000,
                     'blank:cycled:U+202F': 1400, 'blank:cycled:U+205F': 1200, 'blank:cycled:U+3000': 1300,
                     'blank:fail:self-relative-variant': 19000, 'blank:failed-op': 100000, 'blank:parsed:U+001C':
                     10000, 'blank:parsed:U+001D': 740, 'blank:parsed:U+001E': 700, 'blank:parsed:U+001F': 10000,
                     'blank:parsed:U+0085': 6900, 'blank:parsed:U+00A0': 16000, 'blank:parsed:U+1680': 7200,
                     'blank:parsed:U+2000': 1100, 'blank:parsed:U+2001': 1000, 'blank:parsed:U+2002': 970,
                     'blank:parsed:U+2003': 7500, 'blank:parsed:U+2004': 1100, 'blank:parsed:U+2005': 1000,
                     'blank:parsed:U+2006': 920, 'blank:parsed:U+2007': 1300, 'blank:parsed:U+2008': 1000,
                     'blank:parsed:U+2009': 1300, 'blank:parsed:U+200A': 1200, 'blank:parsed:U+2028': 13000,
                     'blank:parsed:U+2029': 700, 'blank:parsed:U+202F': 1000, 'blank:parsed:U+205F': 1000,
                     'blank:parsed:U+3000': 13000, 'blank:popitem': 3700, 'blank:reinit': 1100,
                     'blank:sort:caller-key': 5300, 'blank:sort:default': 14000, 'blank:sort:moved': 16000,
                     'blank:sort:stored-key': 6500, 'blank:start:dict': 31000, 'blank:start:iter': 1300,
                     'blank:start:iter-bytes': 1200, 'blank:start:lazy': 8500, 'blank:start:lazy-bytes': 4800,
                     'blank:start:pairs': 1200, 'blank:start:parsed-bytes': 15000, 'blank:start:parsed-lines': 11000,
                     'blank:start:parsed-lines-bytes': 1000, 'blank:start:parsed-str': 8300,
                     'blank:variant:after-item': 23000, 'blank:variant:after-ref': 25000, 'blank:variant:before-item':
                     26000, 'blank:variant:before-ref': 28000, 'blank:variant:del': 16000, 'blank:variant:first':
                     15000, 'blank:variant:get': 4100, 'blank:variant:in': 3500, 'blank:variant:last': 19000,
                     'blank:variant:pop': 4900, 'blank:variant:set': 26000, 'blank:variant:setdefault': 2900,
                     'blank:variant:update': 6300, 'blankb:copy:Deb822': 620, 'blankb:copy:Deb822Dict': 610,
                     'blankb:copy:copy': 660, 'blankb:copy:ctor': 650, 'blankb:copy:ctor-dict': 630,
                     'blankb:copy:ctor-dict-items': 660, 'blankb:copy:ctor-item-list': 620, 'blankb:copy:ctor-items':
                     660, 'blankb:copy:dict': 460, 'blankb:copy:dict-items': 460, 'blankb:copy:list': 460,
                     'blankb:copy:list-items': 510, 'blankb:copy:list-keys': 500, 'blankb:copy:list-values': 520,
                     'blankb:copy:tuple-items': 470, 'blankb:cycle:bytes': 740, 'blankb:cycle:fd-bytes': 710,
                     'blankb:cycle:file-bytes': 780, 'blankb:cycle:iter-bytes': 730, 'blankb:cycle:lines': 750,
                     'blankb:cycle:lines-bytes': 710, 'blankb:fail:self-relative-variant': 5400, 'blankb:failed-op':
                     31000, 'blankb:sort:caller-key': 1200, 'blankb:sort:default': 4200, 'blankb:sort:moved': 4500,
                     'blankb:sort:stored-key': 1400, 'blankb:start:dict': 10000, 'blankb:start:iter-bytes': 500,
                     'blankb:start:lazy-bytes': 3700, 'blankb:start:pairs': 220, 'blankb:start:parsed-bytes': 7400,
                     'blankb:start:parsed-lines': 3500, 'blankb:start:parsed-lines-bytes': 400,
                     'blankb:variant:after-item': 6900, 'blankb:variant:after-ref': 7700,
                     'blankb:variant:before-item': 7900, 'blankb:variant:before-ref': 8200, 'blankb:variant:del':
                     4300, 'blankb:variant:first': 3900, 'blankb:variant:get': 840, 'blankb:variant:in': 750,
                     'blankb:variant:last': 5400, 'blankb:variant:pop': 780, 'blankb:variant:set': 7100,
                     'blankb:variant:setdefault': 620, 'blankb:variant:update': 1200,
                     'dotted:assign-through-lenvariant-adds-no-field': 10000, 'dotted:clear': 1300,
                     'dotted:copy:Deb822': 1300, 'dotted:copy:Deb822Dict': 1300, 'dotted:copy:copy': 1400,
                     'dotted:copy:ctor': 1500, 'dotted:copy:ctor-dict': 1400, 'dotted:copy:ctor-dict-items': 1300,
                     'dotted:copy:ctor-item-list': 1300, 'dotted:copy:ctor-items': 1300, 'dotted:copy:dict': 960,
                     'dotted:copy:dict-items': 990, 'dotted:copy:list': 1000, 'dotted:copy:list-items': 990,
                     'dotted:copy:list-keys': 1000, 'dotted:copy:list-values': 950, 'dotted:copy:tuple-items': 970,
                     'dotted:cycle:bytes': 790, 'dotted:cycle:fd-bytes': 750, 'dotted:cycle:fd-text': 670,
                     'dotted:cycle:file-bytes': 630, 'dotted:cycle:file-text': 570, 'dotted:cycle:iter': 710,
                     'dotted:cycle:iter-bytes': 650, 'dotted:cycle:lines': 750, 'dotted:cycle:lines-bytes': 650,
                     'dotted:cycle:str': 710, 'dotted:fail:self-relative-lenvariant': 7100,
                     'dotted:fail:self-relative-variant': 8700, 'dotted:failed-op': 53000,
                     'dotted:lenvariant:after-item': 8100, 'dotted:lenvariant:after-ref': 8800,
                     'dotted:lenvariant:before-item': 9200, 'dotted:lenvariant:before-ref': 9600,
                     'dotted:lenvariant:del': 5400, 'dotted:lenvariant:first': 5000, 'dotted:lenvariant:get': 1300,
                     'dotted:lenvariant:in': 1100, 'dotted:lenvariant:last': 6500, 'dotted:lenvariant:pop': 1500,
                     'dotted:lenvariant:set': 9100, 'dotted:lenvariant:setdefault': 1000, 'dotted:lenvariant:update':
                     2100, 'dotted:popitem': 1900, 'dotted:reinit': 570, 'dotted:sort:caller-key': 2600,
                     'dotted:sort:default': 8200, 'dotted:sort:moved': 8500, 'dotted:sort:stored-key': 3000,
                     'dotted:start:dict': 17000, 'dotted:start:iter': 810, 'dotted:start:iter-bytes': 470,
                     'dotted:start:lazy': 7600, 'dotted:start:lazy-bytes': 690, 'dotted:start:pairs': 620,
                     'dotted:start:parsed-bytes': 7500, 'dotted:start:parsed-lines': 4000,
                     'dotted:start:parsed-lines-bytes': 380, 'dotted:start:parsed-str': 7500,
                     'dotted:variant:after-item': 10000, 'dotted:variant:after-ref': 12000,
                     'dotted:variant:before-item': 12000, 'dotted:variant:before-ref': 12000, 'dotted:variant:del':
                     7500, 'dotted:variant:first': 6500, 'dotted:variant:get': 1900, 'dotted:variant:in': 1600,
                     'dotted:variant:last': 9500, 'dotted:variant:pop': 2100, 'dotted:variant:set': 12000,
                     'dotted:variant:setdefault': 1400, 'dotted:variant:update': 3000, 'special:nontrivial': 87000}},
}
# round 11, parsed text repeating one field in several case variants.  quick: about 50 percent of the minimum measured
# on the unchanged tree over VERIF_SEED 0-3 (small counts at least 4 sigma below it); thorough: the same from one run with seed 0.
REPEAT_FLOORS = {
    'quick': {'monitors': {'M.repeat': 6800},
              'counters': {'repeat:addressed:after-item': 150, 'repeat:addressed:after-ref': 150,
                           'repeat:addressed:before-item': 220, 'repeat:addressed:before-ref': 310,
                           'repeat:addressed:del': 210, 'repeat:addressed:first': 310, 'repeat:addressed:get': 180,
                           'repeat:addressed:in': 100, 'repeat:addressed:last': 230, 'repeat:addressed:pop': 110,
                           'repeat:addressed:set': 580, 'repeat:addressed:setdefault': 97, 'repeat:addressed:update': 110,
                           'repeat:copy:Deb822': 56, 'repeat:copy:Deb822Dict': 30, 'repeat:copy:copy': 60,
                           'repeat:copy:ctor': 58, 'repeat:copy:ctor-dict': 33, 'repeat:copy:ctor-dict-items': 30,
                           'repeat:copy:ctor-item-list': 29, 'repeat:copy:ctor-items': 29, 'repeat:copy:dict': 7,
                           'repeat:copy:dict-items': 10, 'repeat:copy:list': 9, 'repeat:copy:list-items': 3,
                           'repeat:copy:list-keys': 9, 'repeat:copy:list-values': 5, 'repeat:copy:tuple-items': 12,
                           'repeat:cycle:bytes': 36, 'repeat:cycle:fd-bytes': 37, 'repeat:cycle:fd-text': 38,
                           'repeat:cycle:file-bytes': 36, 'repeat:cycle:file-text': 36, 'repeat:cycle:iter': 38,
                           'repeat:cycle:iter-bytes': 38, 'repeat:cycle:lines': 40, 'repeat:cycle:lines-bytes': 38,
                           'repeat:cycle:str': 39, 'repeat:nontrivial': 420, 'repeat:removed-then-reassigned': 350,
                           'repeat:shape:2-lines': 160, 'repeat:shape:3+-spellings': 81, 'repeat:shape:3-lines': 230,
                           'repeat:shape:4-lines': 100, 'repeat:shape:adjacent': 180,
                           'repeat:shape:first-spelling-differs-from-last': 270,
                           'repeat:shape:first-value-differs-from-last': 510, 'repeat:shape:not-at-head': 180,
                           'repeat:shape:not-at-tail': 130, 'repeat:shape:prefix-twin-between': 92,
                           'repeat:shape:recurs-after-variant': 260, 'repeat:shape:spread': 310,
                           'repeat:shape:two-groups': 61, 'repeat:start:iter': 42, 'repeat:start:iter-bytes': 39,
                           'repeat:start:lazy': 81, 'repeat:start:lazy-bytes': 84, 'repeat:start:parsed-bytes': 44,
                           'repeat:start:parsed-lines': 40, 'repeat:start:parsed-lines-bytes': 40,
                           'repeat:start:parsed-str': 42, 'repeat:variant:after-item': 61, 'repeat:variant:after-ref': 120,
                           'repeat:variant:before-item': 210, 'repeat:variant:before-ref': 240, 'repeat:variant:del': 170,
                           'repeat:variant:first': 200, 'repeat:variant:get': 150, 'repeat:variant:in': 95,
                           'repeat:variant:last': 190, 'repeat:variant:pop': 100, 'repeat:variant:set': 530,
                           'repeat:variant:setdefault': 90, 'repeat:variant:update': 110}},
    'thorough': {'monitors': {'M.repeat': 230000},
                 'counters': {'repeat:addressed:after-item': 7400, 'repeat:addressed:after-ref': 7500,
                              'repeat:addressed:before-item': 7900, 'repeat:addressed:before-ref': 8100,
                              'repeat:addressed:del': 5100, 'repeat:addressed:first': 6800, 'repeat:addressed:get': 3200,
                              'repeat:addressed:in': 2600, 'repeat:addressed:last': 6500, 'repeat:addressed:pop': 2900,
                              'repeat:addressed:set': 10000, 'repeat:addressed:setdefault': 2300,
                              'repeat:addressed:update': 4500, 'repeat:copy:Deb822': 1700, 'repeat:copy:Deb822Dict': 1600,
                              'repeat:copy:copy': 1800, 'repeat:copy:ctor': 1800, 'repeat:copy:ctor-dict': 1600,
                              'repeat:copy:ctor-dict-items': 1600, 'repeat:copy:ctor-item-list': 1600,
                              'repeat:copy:ctor-items': 1600, 'repeat:copy:dict': 1200, 'repeat:copy:dict-items': 1200,
                              'repeat:copy:list': 1200, 'repeat:copy:list-items': 1200, 'repeat:copy:list-keys': 1200,
                              'repeat:copy:list-values': 1200, 'repeat:copy:tuple-items': 1200, 'repeat:cycle:bytes': 870,
                              'repeat:cycle:fd-bytes': 860, 'repeat:cycle:fd-text': 890, 'repeat:cycle:file-bytes': 880,
                              'repeat:cycle:file-text': 870, 'repeat:cycle:iter': 860, 'repeat:cycle:iter-bytes': 880,
                              'repeat:cycle:lines': 870, 'repeat:cycle:lines-bytes': 890, 'repeat:cycle:str': 850,
                              'repeat:nontrivial': 13000, 'repeat:removed-then-reassigned': 4800, 'repeat:shape:2-lines': 5800,
                              'repeat:shape:3+-spellings': 3300, 'repeat:shape:3-lines': 8500, 'repeat:shape:4-lines': 2800,
                              'repeat:shape:adjacent': 6200, 'repeat:shape:first-spelling-differs-from-last': 10000,
                              'repeat:shape:first-value-differs-from-last': 17000, 'repeat:shape:not-at-head': 7100,
                              'repeat:shape:not-at-tail': 7000, 'repeat:shape:prefix-twin-between': 4300,
                              'repeat:shape:recurs-after-variant': 7100, 'repeat:shape:spread': 11000,
                              'repeat:shape:two-groups': 3300, 'repeat:start:iter': 1400, 'repeat:start:iter-bytes': 1400,
                              'repeat:start:lazy': 2500, 'repeat:start:lazy-bytes': 2500, 'repeat:start:parsed-bytes': 1400,
                              'repeat:start:parsed-lines': 1400, 'repeat:start:parsed-lines-bytes': 1400,
                              'repeat:start:parsed-str': 1400, 'repeat:variant:after-item': 5000,
                              'repeat:variant:after-ref': 5400, 'repeat:variant:before-item': 5700,
                              'repeat:variant:before-ref': 5700, 'repeat:variant:del': 3500, 'repeat:variant:first': 4700,
                              'repeat:variant:get': 2200, 'repeat:variant:in': 1800, 'repeat:variant:last': 4700,
                              'repeat:variant:pop': 2000, 'repeat:variant:set': 7800, 'repeat:variant:setdefault': 1700,
                              'repeat:variant:update': 3100}},
}
# the tolerated-unspecified probes are a fixed list run by every shard: their floors (pairs x 2 classes = one
# shard's worth, built below) only say "they ran", never anything about their outcome

# ---------------------------------------------------------------------------
# alphabets: every name comes in several case spellings

NAMES = {
    'quick': [('a', 'A'), ('b', 'B'), ('c', 'C'), ('Foo', 'FOO', 'foo', 'fOO'),
              ('X-Bar', 'x-bar', 'X-BAR'), ('Zed', 'zed', 'ZED')],
    'thorough': [('a', 'A'), ('b', 'B'), ('c', 'C'), ('Foo', 'FOO', 'foo', 'fOO'),
                 ('X-Bar', 'x-bar', 'X-BAR'), ('Zed', 'zed', 'ZED'), ('d', 'D'), ('e', 'E'),
                 ('Package', 'package', 'PACKAGE', 'pACKAGE'), ('Multi-Arch', 'multi-arch', 'MULTI-ARCH'),
                 ('ab', 'AB', 'aB', 'Ab'), ('B1', 'b1')],
}

# Names whose FIRST spellings have mixed-case initial letters: they sort differently case-sensitively
# ('A' 'Ab' 'B1' 'X-foo' 'Z' 'a2' 'aa' 'b' 'x-Bar') and case-insensitively ('A' 'a2' 'aa' 'Ab' 'b' 'B1' ...).
SORT_NAMES = [('b', 'B'), ('A', 'a'), ('a2', 'A2'), ('B1', 'b1'), ('X-foo', 'x-foo', 'X-FOO'),
              ('x-Bar', 'X-Bar', 'X-BAR'), ('Z', 'z'), ('aa', 'AA', 'aA'), ('Ab', 'ab', 'AB', 'aB')]

# ---- round 7: names with non-ASCII letters --------------------------------------------------------------------
# JUDGED class: every character has a one-to-one lower/upper pair, str.lower() and str.casefold() agree on it, and
# nothing depends on context or changes length (checked by simple_case_name at import time for every spelling below
# and for every spelling observe() derives from it).  First spellings mix upper- and lower-case initials, and the
# pairs (Épilogue, élan), (Σίγμα, σήμα), (Привет, пока) share their prefix up to the first non-ASCII letter: the
# case-insensitive order of each pair depends on folding exactly that letter.
UNI_NAMES = [('X-Épilogue', 'x-épilogue', 'X-ÉPILOGUE'), ('x-élan', 'X-Élan', 'X-ÉLAN'),
             ('X-Σίγμα', 'x-σίγμα', 'X-ΣΊΓΜΑ'), ('x-σήμα', 'X-Σήμα', 'X-ΣΉΜΑ'),
             ('X-Привет', 'x-привет', 'X-ПРИВЕТ'), ('x-пока', 'X-Пока', 'X-ПОКА'),
             ('Ünïcode', 'ünïcode', 'ÜNÏCODE', 'üNÏCODE'), ('žluťoučký', 'Žluťoučký', 'ŽLUŤOUČKÝ'),
             ('Çà', 'çà', 'ÇÀ', 'çÀ'), ('é', 'É'), ('Ω', 'ω'), ('я', 'Я'),
             ('Հայ', 'հայ', 'ՀԱՅ'),                                            # Armenian
             ('Ｆｕｌｌ', 'ｆｕｌｌ', 'ＦＵＬＬ'),                                  # fullwidth Latin (U+FF21.. / U+FF41..)
             ('X-\U00010414\U0001042f', 'x-\U0001043c\U0001042f', 'X-\U00010414\U00010407')]   # Deseret: outside the BMP
# ASCII names mixed into the same paragraphs; 'X-Epilogue' differs from 'X-Épilogue' by the accent only and is a
# DIFFERENT field under every reading (case folding is not accent folding)
UNI_ASCII_MIX = [('X-Epilogue', 'x-epilogue', 'X-EPILOGUE'), ('a', 'A'), ('Foo', 'FOO', 'foo', 'fOO'),
                 ('x-Bar', 'X-Bar', 'X-BAR'), ('e', 'E')]
UNI_ALPHABET = UNI_NAMES + UNI_ASCII_MIX

# TOLERATED-UNSPECIFIED classes: str.lower() and str.casefold() disagree, or the mapping is not one-to-one / changes
# length / depends on context.  Whether the two spellings of a pair are ONE field is not demanded either way; the
# tree's behaviour is recorded as evidence (run_tolerated), never judged.
TOLERATED = {
    'sharp-s': [('X-Straße', 'X-STRASSE'), ('X-Straße', 'x-strasse'), ('X-STRASSE', 'x-straße'), ('X-Maß', 'X-MASS'),
                ('X-GROẞ', 'x-groß')],
    'dotless-i': [('X-\u0131s\u0131', 'X-ISI'), ('x-\u0131', 'x-i'), ('X-I', 'x-\u0131'), ('X-ISI', 'x-\u0131s\u0131')],
    'final-sigma': [('X-ΟΔΟΣ', 'x-οδος'), ('X-ΟΔΟΣ', 'x-οδοσ'), ('x-οδος', 'x-οδοσ'), ('x-οδοσ', 'X-ΟΔΟΣ'),
                    ('X-Σ', 'x-ς')],
}
# (round 9: the dotted capital I left this table - 'K' and 'K.lower()' are variants under lower() and casefold() alike
# and are judged, see DOTTED_NAMES.  What stays: sharp s and final sigma, where the two readings disagree on some pair of
# the spellings an observation uses, and dotless i, which is a variant of 'I' under upper() only.)

# ---- round 9 (6): blank-like characters the field-name grammar accepts ------------------------------------------
# The unchanged tree's grammar for a field name is "one or more characters other than ':' ' ' \t \n \r \f \v".  Python's
# Unicode-aware \s / str.isspace() / str.split() / str.strip() know more blanks than that; all of them are legal inside
# a name.  BLANK_B are, in addition, line boundaries of str.splitlines(): a text handed over as ONE str is cut there
# (by the library and by any other reader of "lines of text"), so such names are driven through \n-cutting routes only.
BLANK_A = '\xa0\u1680' + ''.join(chr(_c) for _c in range(0x2000, 0x200b)) + '\u202f\u205f\u3000\x1f'
BLANK_B = '\u2028\u2029\x85\x1c\x1d\x1e'
BLANK_CHARS = BLANK_A + BLANK_B


def _case3(s):
    return (s, s.lower(), s.upper())


def _blank_groups(chars):
    """Every character inside, at the start and at the end of a name, each name in three case spellings."""
    out = []
    for c in chars:
        out += [_case3('X%sVcs' % c), _case3('%sLead' % c), _case3('Trail%s' % c)]
    return out


BLANK_A_NAMES = _blank_groups(BLANK_A) + [
    ('Build\x1fId', 'build\x1fid', 'BUILD\x1fID', 'bUILD\x1fiD'),
    ('Two\xa0\xa0Gaps', 'two\xa0\xa0gaps', 'TWO\xa0\xa0GAPS'),          # a run of two: not the same name as one
    ('Two\xa0Gaps', 'two\xa0gaps', 'TWO\xa0GAPS'),
    ('Mix\u2003\xa0Ed', 'mix\u2003\xa0ed', 'MIX\u2003\xa0ED'),         # two different blanks in a row
    ('\xa0Both\xa0', '\xa0both\xa0', '\xa0BOTH\xa0'),                   # at both ends
    ('\u2007',), ('\u2009\u200a',), ('\x1f',)]                          # blanks only: one spelling each
BLANK_B_NAMES = _blank_groups(BLANK_B) + [('Sec\x1cRet', 'sec\x1cret', 'SEC\x1cRET'), ('\u2028',)]
# twins: the same letters without the blank / with an ASCII separator.  DIFFERENT fields under every reading (case
# folding does not touch, drop, trim or unify blanks).
BLANK_TWINS = [('XVcs', 'xvcs', 'XVCS'), ('Lead', 'lead', 'LEAD'), ('Trail', 'trail', 'TRAIL'),
               ('X-Vcs', 'x-vcs', 'X-VCS'), ('BuildId', 'buildid', 'BUILDID'), ('TwoGaps', 'twogaps', 'TWOGAPS'),
               ('Both', 'both', 'BOTH')]

# ---- round 9 (7): case variants of different LENGTH ----------------------------------------------------------------
# U+0130 is the one character whose str.lower() is longer than itself ('i' + U+0307 COMBINING DOT ABOVE); casefold()
# gives the same two code points.  K.lower().upper() is 'I' + U+0307 (again another spelling, same length as the
# lower one).  All of them fold to one string under lower() and under casefold().
DOTTED_NAMES = [('X-\u0130d', 'x-i\u0307d', 'X-\u0130D', 'X-I\u0307D'),
                ('\u0130', 'i\u0307', 'I\u0307'),
                ('\u0130stanbul', 'i\u0307stanbul', '\u0130STANBUL', 'I\u0307STANBUL'),
                ('x-vcs-i\u0307', 'X-Vcs-\u0130', 'X-VCS-\u0130', 'X-VCS-I\u0307'),        # stored in the LONG spelling
                ('D\u0130\u0130', 'di\u0307i\u0307', 'd\u0130i\u0307', 'DI\u0307\u0130'),  # two of them: +2, +1
                ('X\xa0\u0130d', 'x\xa0i\u0307d', 'X\xa0\u0130D'),                         # both new classes at once
                ('X-\u0130\xe9', 'x-i\u0307\xe9', 'X-\u0130\xc9')]
# neighbours: plain-i twins (DIFFERENT fields: 'i' is not 'i' + U+0307) and names sorting just below / above
DOTTED_MIX = [('X-id', 'x-id', 'X-ID', 'x-ID'), ('I', 'i'), ('istanbul', 'Istanbul', 'ISTANBUL'),
              ('x-Hd', 'X-HD', 'x-hd'), ('X-jd', 'x-JD', 'X-JD'), ('a', 'A'), ('Foo', 'FOO', 'foo', 'fOO')]
SPECIAL_ALPHABET = BLANK_A_NAMES + BLANK_B_NAMES + BLANK_TWINS + DOTTED_NAMES + DOTTED_MIX

# ---- round 11 (8): parsed text that repeats one field in several case variants -----------------------------------
# Names that are repeated on several lines of a start text (each in 2-4 spellings) ...
REPEAT_GROUPS = [('Foo', 'foo', 'FOO', 'fOO'), ('a', 'A'), ('X-Bar', 'x-bar', 'X-BAR'),
                 ('Package', 'package', 'PACKAGE', 'pACKAGE'), ('b', 'B'), ('Ab', 'ab', 'AB', 'aB'),
                 ('X-\xc9pilogue', 'x-\xe9pilogue', 'X-\xc9PILOGUE'), ('X-\u0130d', 'x-i\u0307d', 'X-\u0130D', 'X-I\u0307D'),
                 ('X\xa0Vcs', 'x\xa0vcs', 'X\xa0VCS')]


def _prefix_twins(g):
    """DIFFERENT fields whose names begin with (a case variant of) the repeated name: 'FOO-other' for Foo, and for
    one-letter names also the doubled 'AA-other'."""
    u, lo = g[0].upper(), g[0].lower()
    out = [(u + '-other', lo + '-other', g[0] + '-Other')]
    if len(g[0]) == 1:
        out.append((u + u + '-other', lo + lo + '-other', u + lo + '-Other'))
    return out


REPEAT_TWINS = dict((g[0], _prefix_twins(g)) for g in REPEAT_GROUPS)
# ... and the fields standing between them
REPEAT_OTHERS = [('c', 'C'), ('Zed', 'zed', 'ZED'), ('d', 'D'), ('Multi-Arch', 'multi-arch', 'MULTI-ARCH'), ('e', 'E'),
                 ('Version', 'version', 'VERSION')]
REPEAT_ALPHABET = REPEAT_GROUPS + [t for g in REPEAT_GROUPS for t in REPEAT_TWINS[g[0]]] + REPEAT_OTHERS
REPEAT_HISTORIES = {'quick': 420, 'thorough': 26000}
REPEAT_MAX_OPS = {'quick': 20, 'thorough': 30}
REPEAT_ENUM_SETS = {'quick': 1, 'thorough': 4}
REPEAT_START_KINDS = (('Deb822', 'parsed-str'), ('Deb822', 'parsed-bytes'), ('Deb822', 'parsed-lines'),
                      ('Deb822', 'parsed-lines-bytes'), ('Deb822', 'iter'), ('Deb822', 'iter-bytes'), ('Deb822', 'lazy'),
                      ('Deb822', 'lazy-bytes'), ('Deb822Dict', 'lazy'), ('Deb822Dict', 'lazy-bytes'))


def readings_agree(names):
    """True when str.lower() and str.casefold() induce the SAME equivalence on `names` (the widened judged class:
    no pair of them is one field under one reading and two fields under the other)."""
    lo = [s.lower() for s in names]
    cf = [s.casefold() for s in names]
    return len(set(lo)) == len(set(cf)) == len(set(zip(lo, cf)))


_NAME_CLASSES = {}


def name_classes(k):
    """Which of the round-9 classes a spelling belongs to (evidence counters only): 'blank' (holds a BLANK_A or
    BLANK_B character), 'blankb' (holds a BLANK_B character), 'dotted' (holds U+0130 or a dotted i / I)."""
    c = _NAME_CLASSES.get(k)
    if c is None:
        c = ()
        if not (k.isascii() and k.isalnum()):   # cheap way out for many names
            if any(x in BLANK_CHARS for x in k):
                c += ('blank',)
            if any(x in BLANK_B for x in k):
                c += ('blankb',)
            if '\u0130' in k or '\u0307' in k:
                c += ('dotted',)
        _NAME_CLASSES[k] = c
    return c


def blank_chars_of(keys):
    return sorted(set(x for k in keys for x in k if x in BLANK_CHARS))


def simple_case_name(s):
    """True when `s` belongs to the judged class: each character is the lower or the upper member of a one-to-one
    pair (single characters both ways, closed under lower/upper), casefold() equals lower(), the whole-string
    conversions are the character-wise ones (no context rule such as final sigma applies) and the name and its
    conversions are NFC (no combining sequences that a conversion could compose or reorder)."""
    for c in s:
        lo, up = c.lower(), c.upper()
        if len(lo) != 1 or len(up) != 1 or c not in (lo, up):
            return False
        if lo.upper() != up or up.lower() != lo or c.casefold() != lo or up.casefold() != lo:
            return False
    if s.lower() != ''.join(c.lower() for c in s) or s.upper() != ''.join(c.upper() for c in s):
        return False
    if s.casefold() != s.lower() or s.upper().lower() != s.lower() or s.swapcase().lower() != s.lower():
        return False
    return all(unicodedata.normalize('NFC', x) == x for x in (s, s.lower(), s.upper(), s.swapcase()))


def _check_alphabets():
    """The oracle is only as good as this guard: refuse to run with a name outside the judged class."""
    seen = {}
    for table in (UNI_ALPHABET, SORT_NAMES) + tuple(NAMES.values()):
        for g in table:
            for sp in g:
                for x in (sp, sp.lower(), sp.upper(), sp.swapcase()):
                    if not simple_case_name(x):
                        raise RuntimeError('C09 alphabet: %r (from %r) is outside the judged class' % (x, sp))
                if sp.lower() != g[0].lower():
                    raise RuntimeError('C09 alphabet: %r is not a case variant of %r' % (sp, g[0]))
    for g in UNI_ALPHABET:
        if seen.setdefault(g[0].lower(), g) is not g:
            raise RuntimeError('C09 alphabet: two groups fold to %r' % g[0].lower())
    for cls, pairs in TOLERATED.items():
        for a, b in pairs:
            if simple_case_name(a) and simple_case_name(b):
                raise RuntimeError('C09 tolerated pair %r/%r is inside the judged class' % (a, b))
    # ---- round 9: blank-like characters.  Each must be what the class says it is on THIS Python: a blank for the
    # Unicode-aware predicates, outside the grammar's excluded set, caseless, a str.splitlines() boundary exactly when
    # it is listed in BLANK_B, and never a boundary of bytes.splitlines() on its UTF-8 form.
    for c in BLANK_CHARS:
        if not (c.isspace() and re.match(r'\s', c) and not ('a%sb' % c).split() == ['a%sb' % c]
                and c not in ': \t\n\r\f\v' and c.lower() == c.upper() == c.casefold() == c):
            raise RuntimeError('C09 alphabet: U+%04X is not a caseless Unicode blank outside the grammar' % ord(c))
        if (len(('a%sb' % c).splitlines()) == 2) != (c in BLANK_B):
            raise RuntimeError('C09 alphabet: U+%04X is in the wrong BLANK_A / BLANK_B class' % ord(c))
        if len(('a%sb' % c).encode('utf-8').splitlines()) != 1:
            raise RuntimeError('C09 alphabet: U+%04X cuts a UTF-8 byte line' % ord(c))
    # ---- round 9: the widened judged class.  Over ALL spellings the workload and the observation can use together
    # (every spelling of every alphabet, its lower / upper / swapcase forms) lower() and casefold() must induce the
    # same equivalence: then "case-insensitive" still has one reading and the model may fold with str.lower().
    universe = set()
    for table in (SPECIAL_ALPHABET, REPEAT_ALPHABET, UNI_ALPHABET, SORT_NAMES) + tuple(NAMES.values()):
        for g in table:
            for sp in g:
                universe.update((sp, sp.lower(), sp.upper(), sp.swapcase()))
    if not readings_agree(sorted(universe)):
        raise RuntimeError('C09 alphabet: lower() and casefold() disagree on some pair of spellings')
    seen = {}
    for g in SPECIAL_ALPHABET:
        for sp in g:
            if sp.lower() != g[0].lower() or sp.casefold() != g[0].casefold():
                raise RuntimeError('C09 alphabet: %r is not a case variant of %r' % (sp, g[0]))
            if ':' in sp or any(x in ' \t\n\r\f\v' for x in sp) or not sp:
                raise RuntimeError('C09 alphabet: %r is outside the field-name grammar' % sp)
        if seen.setdefault(g[0].lower(), g) != g:
            raise RuntimeError('C09 alphabet: two special groups fold to %r' % g[0].lower())
    # ---- round 11: the names of the repeated-field texts (same demands: variants of one name within a group, inside
    # the grammar, groups pairwise different names - the prefix twins are DIFFERENT fields than the names they extend)
    seen = {}
    for g in REPEAT_ALPHABET:
        for sp in g:
            if sp.lower() != g[0].lower() or sp.casefold() != g[0].casefold():
                raise RuntimeError('C09 alphabet: %r is not a case variant of %r' % (sp, g[0]))
            if ':' in sp or any(x in ' \t\n\r\f\v' for x in sp) or not sp or any(x in BLANK_B for x in sp):
                raise RuntimeError('C09 alphabet: %r is outside the field-name grammar / the str routes' % sp)
        if len(set(g)) < 2 or seen.setdefault(g[0].lower(), g) != g:
            raise RuntimeError('C09 alphabet: repeat group %r has one spelling or folds like another group' % (g,))
    for g in DOTTED_NAMES:
        if len(set(len(sp) for sp in g)) < 2:
            raise RuntimeError('C09 alphabet: %r has no spellings of different length' % (g,))
    # a tolerated class must be GENUINELY ambiguous: lower() and casefold() disagree on some pair of the spellings an
    # observation of its names would use (context-dependent final sigma keeps its unambiguous pairs with it); dotless
    # i is the documented exception (lower() / casefold() say "two fields", upper() says "one")
    for cls, pairs in TOLERATED.items():
        if cls != 'dotless-i' and all(readings_agree([a, b, a.lower(), b.lower(), a.upper(), b.upper(), a.swapcase(),
                                                      b.swapcase()]) for a, b in pairs):
            raise RuntimeError('C09 tolerated class %r is unambiguous: it belongs to the judged class' % cls)
        if cls == 'dotless-i' and not all(a.upper() == b.upper() and a.lower() != b.lower() for a, b in pairs):
            raise RuntimeError('C09 tolerated class dotless-i: a pair is not "one field under upper() only"')


_check_alphabets()

REORDERS = ('first', 'last', 'before', 'after')

# how a copy is taken: (a) results that are Deb822 / Deb822Dict objects again (observed in full, may become the
# object the history continues on), (b) plain snapshots (compared with the model at once).
COPY_OBJECTS = ('copy', 'ctor', 'Deb822', 'Deb822Dict', 'ctor-items', 'ctor-item-list', 'ctor-dict-items', 'ctor-dict')
COPY_SNAPSHOTS = ('dict-items', 'dict', 'list-items', 'list-keys', 'list-values', 'list', 'tuple-items')
COPY_HOWS = COPY_OBJECTS + COPY_SNAPSHOTS

PROFILES = {
    'balanced': {'set': 20, 'del': 10, 'get': 3, 'in': 2, 'first': 8, 'last': 8, 'before': 12, 'after': 12,
                 'sort': 4, 'copy': 4, 'cycle': 5, 'pop': 2, 'setdefault': 2, 'update': 2},
    'small':    {'set': 16, 'del': 24, 'get': 2, 'in': 1, 'first': 10, 'last': 10, 'before': 10, 'after': 10,
                 'sort': 3, 'copy': 3, 'cycle': 4, 'pop': 4, 'setdefault': 2, 'update': 1},
    'reorder':  {'set': 12, 'del': 6, 'get': 1, 'in': 1, 'first': 16, 'last': 16, 'before': 20, 'after': 20,
                 'sort': 3, 'copy': 2, 'cycle': 2, 'pop': 1, 'setdefault': 0, 'update': 0},
    # sort_fields(key=f) with key functions returning the key object itself, on the mixed-case alphabet
    'sortkeys': {'set': 12, 'del': 4, 'get': 1, 'in': 1, 'first': 5, 'last': 5, 'before': 5, 'after': 5,
                 'sort': 40, 'copy': 16, 'cycle': 4, 'pop': 1, 'setdefault': 1, 'update': 0},
    # copies of every kind, taken after re-orderings
    'copies':   {'set': 10, 'del': 4, 'get': 0, 'in': 0, 'first': 11, 'last': 11, 'before': 11, 'after': 11,
                 'sort': 10, 'copy': 30, 'cycle': 3, 'pop': 1, 'setdefault': 0, 'update': 1},
    'grow':     {'set': 40, 'del': 4, 'get': 2, 'in': 2, 'first': 8, 'last': 8, 'before': 10, 'after': 10,
                 'sort': 5, 'copy': 3, 'cycle': 4, 'pop': 1, 'setdefault': 2, 'update': 3},
}

SORT_KEYS = {
    'default': None,
    'lower': lambda s: s.lower(),
    'rev': lambda s: s.lower()[::-1],
    'len': len,                     # ties: stability
    'str': str,                     # caller chose a case-sensitive key
}


def _cmp_keys(a, b):
    return (a > b) - (a < b)


def _cmp_keys_desc(a, b):
    return (a < b) - (a > b)


# Key functions whose result IS the object sort_fields() hands over, or a container holding it, or is computed
# from it through ORDERING comparisons (< > <= >=) only.  None of them looks at ==/hash of the key against a
# plain string (that is where a case-folding key object and a plain str legitimately differ), so for the
# case-insensitively distinct names of one paragraph every one of them must order exactly as it does on the
# plain str spellings - whether the library hands over its own key type or a plain str.
STORED_KEY_SORT_KEYS = {
    'ident': lambda k: k,
    'x-tuple': lambda k: (k.startswith('X-'), k),
    'len-tuple': lambda k: (len(k), k),
    'slice-rev': lambda k: k[::-1],
    'first-char': operator.itemgetter(0),                 # ties: stability
    'first-two': operator.itemgetter(slice(0, 2)),        # ties: stability
    'last-char-then-key': lambda k: (k[-1], k),
    'upper-initial-first': lambda k: (not k[:1].isupper(), k),
    'list-wrap': lambda k: [k],
    'nested-tuple': lambda k: ((k,), 0),
    'key-then-lower': lambda k: (k, k.lower()),
    'lower-then-key': lambda k: (k.lower(), k),
    'ge-literal': lambda k: (k >= 'M', k),
    'swapcase': lambda k: k.swapcase(),
    'cmp': functools.cmp_to_key(_cmp_keys),
    'cmp-desc': functools.cmp_to_key(_cmp_keys_desc),
    'dash-tuple': lambda k: ('-' in k, k),
}
STORED_KEY_NAMES = sorted(STORED_KEY_SORT_KEYS)
SORT_KEYS.update(STORED_KEY_SORT_KEYS)
MODEL_SORT_KEYS = dict(SORT_KEYS)          # the SAME functions, applied by the model to plain str spellings
MODEL_SORT_KEYS['default'] = lambda s: s.lower()
CYCLES = ('str', 'bytes', 'lines', 'iter', 'fd-bytes', 'fd-text')
# round 9: more routes, and which ones hand the text over as ONE str (the str is cut by str.splitlines(), whose
# boundaries include the BLANK_B characters: names holding one of those are not driven through these)
SPECIAL_FLAVOURS = ('blank', 'blank-b', 'dotted')
SPECIAL_CYCLES = CYCLES + ('iter-bytes', 'lines-bytes', 'file-bytes', 'file-text')
STR_CYCLES = ('str', 'iter', 'fd-text', 'file-text')      # (file-text: a text file object cuts lines its own way)
STR_START_KINDS = ('parsed-str', 'iter', 'lazy')
SPECIAL_CYCLES_B = tuple(c for c in SPECIAL_CYCLES if c not in STR_CYCLES)


# round 12 (abandoned iterations): 50% of the minimum over quick seeds 0-3; the thorough workload (full enumeration,
# 26000 histories) is a superset in size of the quick one for every counter, so the same values serve as its floors
PITER_FLOORS = {'piter:early:dropped': 662,
 'piter:early:kept': 492,
 'piter:first-iteration-since:after': 42,
 'piter:first-iteration-since:before': 43,
 'piter:first-iteration-since:construction': 107,
 'piter:first-iteration-since:copy': 50,
 'piter:first-iteration-since:cycle': 39,
 'piter:first-iteration-since:del': 65,
 'piter:first-iteration-since:first': 66,
 'piter:first-iteration-since:full-observation': 945,
 'piter:first-iteration-since:last': 63,
 'piter:first-iteration-since:pop': 35,
 'piter:first-iteration-since:popitem': 30,
 'piter:first-iteration-since:set': 235,
 'piter:first-iteration-since:setdefault': 40,
 'piter:first-iteration-since:sort': 49,
 'piter:first-iteration-since:update': 37,
 'piter:late:dropped': 814,
 'piter:late:kept': 126,
 'piter:observation-left-to-the-pseudo-op': 1057,
 'piter:resumed': 77,
 'piter:steps:0': 299,
 'piter:steps:all': 256,
 'piter:steps:past-the-end': 318,
 'piter:steps:some': 1216,
 'piter:view:any': 131,
 'piter:view:copy-iter': 133,
 'piter:view:enumerate-break': 135,
 'piter:view:for-break': 142,
 'piter:view:in-iter': 86,
 'piter:view:islice': 127,
 'piter:view:items': 135,
 'piter:view:iter': 140,
 'piter:view:keys': 132,
 'piter:view:next': 132,
 'piter:view:resume': 77,
 'piter:view:two': 130,
 'piter:view:two-views': 137,
 'piter:view:unpack': 130,
 'piter:view:values': 138,
 'piter:view:zip': 138}
PITER_MONITOR_FLOORS = {'M.piter': 2110, 'M.piter.after': 2147, 'M.piter.first-iteration': 1165, 'M.piter.prefix': 1881}
for _tier in FLOORS:
    FLOORS[_tier]['counters'].update(PITER_FLOORS)
    FLOORS[_tier]['monitors'].update(PITER_MONITOR_FLOORS)

for _tier in FLOORS:
    for _k in STORED_KEY_NAMES:
        FLOORS[_tier]['counters']['sortkey:%s' % _k] = PER_SORTKEY_FLOOR[_tier]
    for _h in COPY_HOWS:
        FLOORS[_tier]['counters']['copy:%s' % _h] = PER_COPY_FLOOR[_tier]
        FLOORS[_tier]['counters']['copy-after-reorder:%s' % _h] = PER_COPY_AFTER_REORDER_FLOOR[_tier]
        FLOORS[_tier]['counters']['uni:copy:%s' % _h] = PER_UNI_COPY_FLOOR[_tier]
    for _h in CYCLES:
        FLOORS[_tier]['counters']['uni:cycle:%s' % _h] = PER_UNI_CYCLE_FLOOR[_tier]
    for _k, _v in UNI_VARIANT_FLOOR[_tier].items():
        FLOORS[_tier]['counters']['uni:variant:%s' % _k] = _v
    for _k, _v in UNI_START_FLOOR[_tier].items():
        FLOORS[_tier]['counters']['uni:start:%s' % _k] = _v
    FLOORS[_tier]['counters'].update(UNI_OTHER_FLOOR[_tier])
    for _e, (_reuse, _reassign) in BULK_ORIGIN_FLOOR[_tier].items():
        for _k in BULK_START_KINDS:
            FLOORS[_tier]['counters']['bulk:%s:reuse-former:origin-%s' % (_e, _k)] = _reuse
            FLOORS[_tier]['counters']['bulk:%s:reassign-former:origin-%s' % (_e, _k)] = _reassign
    for _w, _table in BULK_OP_FLOOR[_tier].items():
        for _k, _v in _table.items():
            FLOORS[_tier]['counters']['bulk:%s:op:%s' % (_w, _k)] = _v
    for _k in BULK_REUSE_ROLES:
        for _h in ('same', 'variant'):
            FLOORS[_tier]['counters']['bulk:reuse-former:%s:%s' % (_k, _h)] = BULK_REUSE_ROLE_FLOOR[_tier]
    for _h in ('copy', 'ctor', 'Deb822Dict', 'dict', 'items'):
        FLOORS[_tier]['counters']['bulk:reinit:%s' % _h] = BULK_REINIT_FLOOR[_tier]
    for _h in ('dict', 'pairs', 'Deb822Dict'):
        FLOORS[_tier]['counters']['bulk:clear-then-update:%s' % _h] = BULK_CLEAR_UPDATE_FLOOR[_tier]
    FLOORS[_tier]['counters'].update(BULK_OTHER_FLOOR[_tier])
    FLOORS[_tier]['monitors'].update(BULK_MONITOR_FLOOR[_tier])
    FLOORS[_tier]['counters'].update(SPECIAL_FLOORS[_tier]['counters'])
    FLOORS[_tier]['monitors'].update(SPECIAL_FLOORS[_tier]['monitors'])
    FLOORS[_tier]['counters'].update(REPEAT_FLOORS[_tier]['counters'])
    FLOORS[_tier]['monitors'].update(REPEAT_FLOORS[_tier]['monitors'])
    for _c, _pairs in TOLERATED.items():
        FLOORS[_tier]['counters']['tolerated:%s' % _c] = len(_pairs) * 2
    FLOORS[_tier]['counters']['tolerated:probes'] = sum(len(_p) for _p in TOLERATED.values()) * 2


def _weighted(r, weights):
    tot = sum(weights.values())
    x = r.random() * tot
    for k, w in weights.items():
        x -= w
        if x < 0:
            return k
    return next(iter(weights))


def _group(names, key):
    lk = key.lower()
    for g in names:
        if g[0].lower() == lk:
            return g
    return (key, key.upper(), key.lower())


def _distinct_groups(groups):
    """Drop later groups that fold to the same name as an earlier one."""
    out, seen = [], set()
    for g in groups:
        if g[0].lower() not in seen:
            seen.add(g[0].lower())
            out.append(g)
    return out


def _pick(r, m, names, want):
    """Choose a key on purpose: 'variant' = a present key in a spelling that is
    NOT the stored one, 'exact' = a present key as stored, 'absent' = a name
    that is not in the mapping, anything else = blind."""
    present = m.keys()
    if want in ('variant', 'exact') and present:
        x = r.random()
        k = present[0] if x < 0.3 else (present[-1] if x < 0.6 else r.choice(present))
        if want == 'exact':
            return k
        alts = [s for s in _group(names, k) if s != k]
        return r.choice(alts) if alts else k
    if want == 'absent':
        absent = [g for g in names if not m.has(g[0])]
        if absent:
            return r.choice(r.choice(absent))
    return r.choice(r.choice(names))


def _want(r, table):
    return _weighted(r, table)


def _value(r, n):
    x = r.random()
    if x < 0.80:
        return 'v%d' % n
    if x < 0.90:
        return 'v%d\n c%d' % (n, n)
    if x < 0.95:
        return '\n l%d\n m%d' % (n, n)
    if x < 0.98:
        return ''
    return 'v%d w%d' % (n, n)


def _apply_to_model(m, op):
    """Reference semantics of one operation on the list model.
    Returns ('ok', value) or ('KeyError'|'ValueError'|'EitherError', None)."""
    kind = op[0]
    if kind == 'set':
        m.set(op[1], op[2])
        return ('ok', None)
    if kind == 'del':
        if not m.has(op[1]):
            return ('KeyError', None)
        m.delete(op[1])
        return ('ok', None)
    if kind == 'get':
        if not m.has(op[1]):
            return ('KeyError', None)
        return ('ok', m.get(op[1]))
    if kind == 'in':
        return ('ok', m.has(op[1]))
    if kind in ('first', 'last'):
        if not m.has(op[1]):
            return ('KeyError', None)
        (m.move_first if kind == 'first' else m.move_last)(op[1])
        return ('ok', None)
    if kind in ('before', 'after'):
        k, ref = op[1], op[2]
        if k.lower() == ref.lower():
            return ('ValueError' if m.has(k) else 'EitherError', None)
        if not m.has(k) or not m.has(ref):
            return ('KeyError', None)
        m.move_relative(k, ref, after=(kind == 'after'))
        return ('ok', None)
    if kind == 'sort':
        m.sort(MODEL_SORT_KEYS[op[1]])
        return ('ok', None)
    if kind in ('copy', 'cycle'):
        return ('ok', None)
    if kind == 'pop':
        k, with_default = op[1], op[2]
        if not m.has(k):
            return ('ok', 'DEFAULT') if with_default else ('KeyError', None)
        v = m.get(k)
        m.delete(k)
        return ('ok', v)
    if kind == 'setdefault':
        if m.has(op[1]):
            return ('ok', m.get(op[1]))
        m.set(op[1], op[2])
        return ('ok', op[2])
    if kind == 'update':
        pairs = [(k, v) for k, v in op[1]]
        if op[2] == 'dict':
            pairs = list(dict(pairs).items())      # what a dict argument really contains
        elif op[2] == 'Deb822Dict':
            pairs = CIListMap(pairs).items()       # what another case-insensitive mapping built from them contains
        for k, v in pairs:
            m.set(k, v)
        return ('ok', None)
    if kind == 'clear':
        del m.pairs[:]
        return ('ok', None)
    if kind == 'popitem':
        # GENERATOR-side prediction only (the unchanged tree removes the first member); execute() does not demand
        # which member goes and follows the pair the live object returned
        if not len(m):
            return ('KeyError', None)
        k, v = m.pairs[0]
        del m.pairs[0]
        return ('ok', (k, v))
    if kind == 'reinit':
        return ('ok', None)                        # snapshot; clear(); update(snapshot): same mapping as before
    if kind == 'partial-iter':
        return ('ok', None)                        # an iteration given up part-way: reading never changes a mapping
    raise AssertionError('unknown op %r' % (op,))


# ---------------------------------------------------------------------------
# workload

def gen_start(r, names, cls, flavour='classic'):
    kinds = ({'empty': 20, 'dict': 22, 'parsed-str': 15, 'parsed-bytes': 8, 'parsed-lines': 7, 'iter': 8, 'lazy': 10}
             if cls == 'Deb822' else {'empty': 25, 'dict': 30, 'pairs': 30, 'lazy': 15})
    if flavour == 'unicode':
        flavour = 'classic'               # same start states as the classic histories, other alphabet
        if cls == 'Deb822':
            kinds = dict(kinds, **{'parsed-bytes': 15, 'lazy': 14})
    elif flavour in SPECIAL_FLAVOURS:
        # round 9: more parsed starts (a name with a blank-like character must first of all survive the parser), by
        # every route; names holding a str.splitlines() boundary only by the routes that cut at \n
        bytes_only = flavour == 'blank-b'
        flavour = 'classic'
        if cls == 'Deb822':
            kinds = {'empty': 8, 'dict': 16, 'parsed-str': 15, 'parsed-bytes': 15, 'parsed-lines': 10, 'iter': 8,
                     'lazy': 12, 'iter-bytes': 6, 'lazy-bytes': 6, 'parsed-lines-bytes': 5}
        else:
            kinds = {'empty': 15, 'dict': 25, 'pairs': 30, 'lazy': 15, 'lazy-bytes': 15}
        if bytes_only:
            kinds = dict((k, (w * 2 if 'bytes' in k else w)) for k, w in kinds.items() if k not in STR_START_KINDS)
    if flavour != 'classic':
        kinds = dict(kinds, empty=4)
    kind = _weighted(r, kinds)
    if kind == 'empty':
        return {'kind': 'empty', 'pairs': []}
    n = r.choice([1, 1, 2, 2, 3, 3, 4, 5, 6]) if flavour == 'classic' else r.choice([2, 3, 4, 5, 6, 7, 8, 9, 9])
    pairs = []
    seen = set()
    dup_ok = kind in ('dict', 'pairs') and r.random() < 0.3
    for i in range(n):
        g = r.choice(names)
        k = g[0] if (flavour != 'classic' and r.random() < 0.6) else r.choice(g)
        if k in seen:
            continue                          # a Python dict cannot hold the same spelling twice
        if k.lower() in set(s.lower() for s in seen) and not dup_ok:
            continue
        seen.add(k)
        pairs.append([k, _value(r, 900 + i)])
    st = {'kind': kind, 'pairs': pairs}
    if kind.startswith('parsed') or kind.startswith('iter') or kind.startswith('lazy'):
        st['sep'] = r.choice([': ', ': ', ':', ':\t', ':  '])
        st['lead'] = r.choice(['', '', '', '\n', '# comment\n', '\n\n'])
    return st


def _sort_choice(r, flavour):
    if flavour == 'unicode':
        if r.random() < 0.35:
            return r.choice(STORED_KEY_NAMES)
        return _weighted(r, {'default': 50, 'lower': 20, 'rev': 12, 'len': 8, 'str': 10})
    if flavour == 'sortkeys' or (flavour == 'classic' and r.random() < 0.25) or (flavour == 'copies' and r.random() < 0.5):
        return r.choice(STORED_KEY_NAMES)
    return _weighted(r, {'default': 55, 'lower': 10, 'rev': 15, 'len': 10, 'str': 10})


def _copy_choice(r, flavour, cls):
    """['copy', how, keep]: the two historical forms stay the common ones in the classic flavour."""
    if flavour == 'classic' and r.random() < 0.6:
        return ['copy', r.choice(['copy', 'copy', 'ctor']), r.choice(['new', 'new', 'old'])]
    how = r.choice(COPY_OBJECTS) if r.random() < 0.6 else r.choice(COPY_SNAPSHOTS)
    return ['copy', how, r.choice(['new', 'old', 'old'])]


def _class_after_copy(cls, op):
    """Class of the object the history continues on after a copy operation."""
    if op[2] != 'new' or op[1] not in COPY_OBJECTS:
        return cls
    return {'Deb822': 'Deb822', 'Deb822Dict': 'Deb822Dict'}.get(op[1], cls)


def gen_history(r, tier, flavour='classic'):
    if flavour == 'classic':
        allnames = NAMES[tier]
        names = r.sample(allnames, r.choice([1, 2, 2, 3, 3, 4, 5, min(7, len(allnames))]))
    elif flavour == 'sortkeys':
        names = r.sample(SORT_NAMES, r.choice([3, 4, 5, 6, 7, 8, 9, 9]))
    elif flavour == 'unicode':
        names = r.sample(UNI_NAMES, r.choice([1, 2, 2, 3, 3, 4, 5, 6]))
        if r.random() < 0.5:
            # both names of a pair whose case-insensitive order hangs on folding their first non-ASCII letter
            i = 2 * r.randrange(3)
            names = UNI_NAMES[i:i + 2] + [g for g in names if g not in UNI_NAMES[i:i + 2]][:4]
        if r.random() < 0.6:
            names += r.sample(UNI_ASCII_MIX, r.choice([1, 1, 2]))
        r.shuffle(names)
    elif flavour in ('blank', 'blank-b'):
        # names with blank-like characters, often next to their twins (same letters without the blank / with another
        # blank at the same place: different fields) and now and then next to a name of the other new class
        pool = BLANK_A_NAMES if flavour == 'blank' else BLANK_B_NAMES
        names = r.sample(pool, r.choice([1, 2, 2, 3, 3, 4, 5]))
        if flavour == 'blank-b' and r.random() < 0.5:
            names += r.sample(BLANK_A_NAMES, r.choice([1, 2]))
        if r.random() < 0.45:
            # the same stem with ANOTHER blank at the same place (collapsing / unifying blanks would merge them)
            g = r.choice(names)
            c = [x for x in g[0] if x in BLANK_CHARS]
            if c and len(g) == 3:
                other = r.choice([x for x in (BLANK_A if flavour == 'blank' else BLANK_CHARS) if x != c[0]])
                names.append(_case3(g[0].replace(c[0], other)))
        if r.random() < 0.6:
            names += r.sample(BLANK_TWINS, r.choice([1, 1, 2, 3]))
        if r.random() < 0.15:
            names.append(r.choice(DOTTED_NAMES))
        if r.random() < 0.2:
            names.append(r.choice(UNI_ALPHABET))
        names = _distinct_groups(names)
        r.shuffle(names)
    elif flavour == 'dotted':
        names = r.sample(DOTTED_NAMES, r.choice([1, 1, 2, 2, 3, 4]))
        if r.random() < 0.7:
            names += r.sample(DOTTED_MIX, r.choice([1, 2, 2, 3]))
        if r.random() < 0.2:
            names.append(r.choice(BLANK_A_NAMES))
        if r.random() < 0.2:
            names.append(r.choice(UNI_NAMES))
        names = _distinct_groups(names)
        r.shuffle(names)
    elif flavour == 'repeat':
        # round 11: one or two names that the start text repeats in several spellings, their prefix twins, other fields
        reps = r.sample(REPEAT_GROUPS, r.choice([1, 1, 1, 2]))
        names = list(reps)
        for g in reps:
            if r.random() < 0.6:
                names.append(r.choice(REPEAT_TWINS[g[0]]))
        names += r.sample(REPEAT_OTHERS, r.choice([0, 1, 2, 2, 3, 4]))
    else:
        allnames = SORT_NAMES if r.random() < 0.5 else NAMES[tier]
        names = r.sample(allnames, r.choice([2, 3, 4, 5, min(7, len(allnames))]))
    special = flavour in SPECIAL_FLAVOURS
    rich = special or flavour == 'repeat'
    aimed = flavour in ('sortkeys', 'copies')
    cls = cls_start = 'Deb822' if r.random() < 0.85 else 'Deb822Dict'
    if flavour == 'repeat':
        start = gen_repeat_start(r, reps, names, cls)
    else:
        start = gen_start(r, names, cls, flavour)
    m = CIListMap(start['pairs'])
    if flavour == 'classic':
        profile = PROFILES[r.choice(['balanced', 'balanced', 'small', 'reorder', 'reorder', 'grow'])]
    elif flavour == 'unicode' or rich:
        profile = dict(PROFILES[r.choice(['balanced', 'balanced', 'small', 'reorder', 'reorder', 'grow', 'sortkeys',
                                          'copies'])])
        for k in ('get', 'in', 'pop', 'setdefault', 'update'):
            profile[k] += 3                    # the rarer operation kinds must meet non-ASCII variants as well
        if rich:
            profile['cycle'] += 6 if flavour not in ('dotted', 'repeat') else 3     # dump -> parse is where a blank in a name can get lost
    else:
        profile = PROFILES[flavour]
    item_want = {'variant': 50, 'exact': 20, 'absent': 15, 'any': 15}
    set_want = {'absent': 40, 'variant': 35, 'exact': 15, 'any': 10}
    del_want = {'variant': 45, 'exact': 25, 'absent': 20, 'any': 10}
    if aimed:
        item_want = {'variant': 35, 'exact': 50, 'absent': 5, 'any': 10}
        set_want = {'absent': 60, 'variant': 20, 'exact': 10, 'any': 10}
    nops = (r.randint(1, MAX_OPS[tier]) if flavour == 'classic' else
            r.randint(1, UNI_MAX_OPS[tier]) if flavour == 'unicode' else
            r.randint(1, SPECIAL_MAX_OPS[tier]) if special else
            r.randint(1, REPEAT_MAX_OPS[tier]) if flavour == 'repeat' else r.randint(2, FLAVOUR_MAX_OPS))
    cycles = SPECIAL_CYCLES_B if flavour == 'blank-b' else SPECIAL_CYCLES if rich else CYCLES
    ops = []
    vid = 0
    for _ in range(nops):
        kind = _weighted(r, profile)
        if ((aimed or flavour == 'unicode' or rich) and ops and kind != 'copy' and r.random() < (0.35 if aimed else 0.12)
                and (ops[-1][0] in REORDERS or ops[-1][0] == 'sort')):
            kind = 'copy'                      # a copy taken right after a re-ordering
        if kind == 'cycle' and cls != 'Deb822':
            kind = 'copy'
        vid += 1
        if kind == 'set':
            op = ['set', _pick(r, m, names, _want(r, set_want)), _value(r, vid)]
        elif kind in ('del', 'get', 'in'):
            op = [kind, _pick(r, m, names, _want(r, del_want))]
        elif kind in ('first', 'last'):
            op = [kind, _pick(r, m, names, _want(r, item_want))]
        elif kind in ('before', 'after'):
            k = _pick(r, m, names, _want(r, item_want))
            if r.random() < 0.09:
                g = _group(names, k)
                ref = k if r.random() < 0.5 else r.choice(g)      # self-relative, same or other spelling
            else:
                ref = _pick(r, m, names, _want(r, item_want))
            op = [kind, k, ref]
        elif kind == 'sort':
            op = ['sort', _sort_choice(r, 'unicode' if rich else flavour)]
        elif kind == 'copy':
            op = _copy_choice(r, flavour, cls)
            cls = _class_after_copy(cls, op)
        elif kind == 'cycle':
            op = ['cycle', r.choice(cycles)]
        elif kind == 'pop':
            op = ['pop', _pick(r, m, names, _want(r, del_want)), r.random() < 0.4]
        elif kind == 'setdefault':
            op = ['setdefault', _pick(r, m, names, _want(r, set_want)), _value(r, vid)]
        else:
            op = ['update', [[_pick(r, m, names, _want(r, set_want)), _value(r, vid * 100 + j)]
                             for j in range(r.randint(1, 3))],
                  r.choice(['dict', 'pairs', 'Deb822Dict'] if rich else ['dict', 'pairs'])]
        ops.append(op)
        _apply_to_model(m, op)          # the generator only uses this to aim its next choice
    case = {'cls': cls_start, 'start': start, 'ops': ops}
    if flavour != 'classic':
        case['flavour'] = flavour
    return case


def _repeat_spellings(r, g, occ):
    """`occ` spellings of group g for consecutive lines of one text: at least two different ones; shapes: a spelling
    RECURS after another variant (A a A, A a A a, A a x A), all different, free."""
    shape = r.choice(['recur', 'recur', 'distinct', 'free'])
    if shape == 'distinct' and occ <= len(g):
        return r.sample(list(g), occ)
    first = r.choice(g)
    if shape == 'recur' and occ >= 3:
        mid = [r.choice([s for s in g if s != first])]
        while len(mid) < occ - 2:
            mid.append(r.choice(g))
        return [first] + mid + [first]
    out = [first] + [r.choice(g) for _ in range(occ - 1)]
    if len(set(out)) < 2:
        out[-1] = r.choice([s for s in g if s != first])
    return out


def _merge_in_order(r, base, items, adjacent=False):
    """Insert `items` (keeping their order) into the list `base` at random places; adjacent: all at one place."""
    if adjacent:
        cuts = [r.randint(0, len(base))] * len(items)
    else:
        cuts = sorted(r.randint(0, len(base)) for _ in items)
    out, j = [], 0
    for i in range(len(base) + 1):
        while j < len(items) and cuts[j] == i:
            out.append(items[j])
            j += 1
        if i < len(base):
            out.append(base[i])
    return out


def gen_repeat_start(r, reps, names, cls):
    """A start TEXT in which every group of `reps` stands on 2-4 lines in different case spellings, interleaved with the
    other names of the history (each of those once)."""
    kinds = [k for c, k in REPEAT_START_KINDS if c == cls]
    lines = [r.choice(g) for g in names if g not in reps]
    r.shuffle(lines)
    lines = lines[:r.choice([0, 1, 2, 3, 4, 5])]
    for g in reps:
        occ = r.choice([2, 2, 3, 3, 3, 4])
        sp = _repeat_spellings(r, g, occ)
        twins = [t for t in REPEAT_TWINS[g[0]] if t in names and not any(x in t for x in lines)]
        if twins and occ >= 3 and r.random() < 0.5:
            # A a AA-other A: the prefix twin right before the last occurrence
            sp = sp[:-1] + [r.choice(twins[0])] + sp[-1:]
        lines = _merge_in_order(r, lines, sp, adjacent=r.random() < 0.2)
    return {'kind': r.choice(kinds), 'pairs': [[k, _value(r, 900 + i)] for i, k in enumerate(lines)],
            'sep': r.choice([': ', ': ', ':', ':\t', ':  ']), 'lead': r.choice(['', '', '', '\n', '# comment\n', '\n\n'])}


# The 16 line patterns of the enumeration.  0 1 2 3 = spellings of the repeated name g (index modulo their number),
# P p = two spellings of its prefix twin (another field), B b = two spellings of a second repeated name h, o q r = other
# fields (each once).
REPEAT_PATTERNS = ('01', '10', '0o1', '010', '0o1q0', '1o0q1', '0o1qPr0', '0101', '0o1q2r0', '0123', 'o0q1', 'o010q',
                   'Po0q1r0', '0oBq1rb0', 'oq01', '0o1p2q1')
REPEAT_NAME_SETS = (
    (REPEAT_GROUPS[0], REPEAT_GROUPS[1], REPEAT_TWINS['Foo'][0], REPEAT_OTHERS[:3]),
    (REPEAT_GROUPS[1], REPEAT_GROUPS[2], REPEAT_TWINS['a'][1], REPEAT_OTHERS[1:4]),
    (REPEAT_GROUPS[6], REPEAT_GROUPS[3], REPEAT_TWINS[REPEAT_GROUPS[6][0]][0], REPEAT_OTHERS[2:5]),
    (REPEAT_GROUPS[7], REPEAT_GROUPS[4], REPEAT_TWINS[REPEAT_GROUPS[7][0]][0], REPEAT_OTHERS[3:6]),
)


def _repeat_script(si, g, h, tw, oth, rot, cls):
    """Three fixed follow-up scripts.  Every key is addressed through spellings other than the one the first line
    used; operations on names a pattern does not hold are (valid) rejected operations."""
    g0, g1, gl = g[0], g[1], g[-1]
    cyc = lambda i: (['cycle', SPECIAL_CYCLES[(rot + i) % len(SPECIAL_CYCLES)]] if cls == 'Deb822' else
                     ['copy', COPY_OBJECTS[(rot + i) % 3], 'new'])
    if si == 0:      # look-ups, assignment and re-orders through variants, dump -> parse, delete and re-assign
        return [['in', gl], ['get', g1], ['set', gl, 'w0'], ['last', g1], ['first', gl], ['after', g0, oth[0][-1]],
                ['before', tw[1], g1], cyc(0), ['set', g1, 'w1'], ['setdefault', gl, 'w2'], ['del', g1], ['in', g0],
                ['get', gl], ['set', gl, 'w3'], ['set', g0, 'w4'], ['sort', 'default'],
                ['copy', COPY_HOWS[rot % len(COPY_HOWS)], 'old'], ['before', g0, g1]]
    if si == 1:      # removal of the repeated field first; re-assignment in another spelling; update; bulk removal
        return [['pop', gl, False], ['in', g0], ['set', g1, 'w0'], ['set', g0, 'w1'], cyc(1), ['before', tw[0], gl],
                ['del', tw[1]], ['update', [[g0, 'w2'], [h[1], 'w3'], [tw[2], 'w4']], ('dict', 'pairs', 'Deb822Dict')[rot % 3]],
                ['sort', STORED_KEY_NAMES[rot % len(STORED_KEY_NAMES)]], ['first', g1], ['popitem'], ['get', gl],
                ['copy', COPY_OBJECTS[rot % len(COPY_OBJECTS)], 'new'], ['last', h[-1]], ['clear'], ['in', g1],
                ['set', gl, 'w5'], ['set', g0, 'w6']]
    # dump -> parse / copies straight away, then the same kind of traffic on the new object
    return [cyc(2), ['get', g1], ['copy', COPY_OBJECTS[(rot + 1) % len(COPY_OBJECTS)], 'new'], ['last', gl],
            ['set', g1, 'w0'], cyc(5), ['after', h[1], g1], ['before', gl, oth[1][-1]], ['pop', h[-1], True],
            ['set', h[0], 'w1'], ['sort', 'lower'], ['reinit', REINIT_HOWS[rot % len(REINIT_HOWS)]], ['del', gl],
            ['setdefault', g1, 'w2'], ['first', g0], cyc(7)]


def repeat_enum_cases(ctx):
    """Every line pattern x every start configuration x name sets x the three follow-up scripts."""
    idx = 0
    nsets = REPEAT_ENUM_SETS[ctx.tier]
    for pi, pat in enumerate(REPEAT_PATTERNS):
        for ki, (cls, kind) in enumerate(REPEAT_START_KINDS):
            for si in range(3):
                for n in range(nsets):
                    idx += 1
                    if not ctx.mine(idx):
                        continue
                    rot = pi * 7 + ki * 3 + si + n + (ctx.seed if ctx.quick else 0)
                    g, h, tw, oth = REPEAT_NAME_SETS[(rot if ctx.quick else n) % len(REPEAT_NAME_SETS)]
                    tok = {'P': tw[0], 'p': tw[1], 'B': h[0], 'b': h[1], 'o': oth[0][0], 'q': oth[1][0], 'r': oth[2][0]}
                    keys = [g[int(c) % len(g)] if c.isdigit() else tok[c] for c in pat]
                    st = {'kind': kind, 'pairs': [[k, 's%d' % i] for i, k in enumerate(keys)], 'sep': ': ', 'lead': ''}
                    yield {'cls': cls, 'start': st, 'ops': _repeat_script(si, g, h, tw, oth, rot, cls), 'enum': True,
                           'flavour': 'repeat-enum'}


ENUM_OPS = [['set', 'a', None], ['set', 'A', None], ['set', 'b', None], ['set', 'c', None],
            ['del', 'A'], ['del', 'b'],
            ['first', 'A'], ['first', 'c'], ['last', 'A'], ['last', 'B'],
            ['before', 'A', 'b'], ['before', 'B', 'a'], ['before', 'c', 'A'],
            ['after', 'A', 'B'], ['after', 'b', 'A'], ['after', 'a', 'C'],
            ['sort', 'default'], ['before', 'A', 'a']]
ENUM_STARTS = [{'kind': 'empty', 'pairs': []},
               {'kind': 'dict', 'pairs': [['a', 's0']]},
               {'kind': 'dict', 'pairs': [['a', 's0'], ['b', 's1']]},
               {'kind': 'dict', 'pairs': [['B', 's0'], ['a', 's1'], ['c', 's2']]},
               {'kind': 'parsed-str', 'pairs': [['A', 's0'], ['b', 's1']], 'sep': ': ', 'lead': ''}]


def enum_cases(ctx):
    idx = 0
    for length in range(1, ENUM_LEN[ctx.tier] + 1):
        for combo in itertools.product(range(len(ENUM_OPS)), repeat=length):
            for si, st in enumerate(ENUM_STARTS):
                idx += 1
                if not ctx.mine(idx):
                    continue
                ops = []
                for pos, oi in enumerate(combo):
                    op = list(ENUM_OPS[oi])
                    if op[0] == 'set':
                        op[2] = 'v%d' % pos
                    ops.append(op)
                yield {'cls': 'Deb822', 'start': st, 'ops': ops, 'enum': True}


SORT_ENUM_ORDERS = {'quick': 8, 'thorough': 60}
SORT_ENUM_STARTS = (('Deb822', 'dict'), ('Deb822', 'parsed-str'), ('Deb822Dict', 'pairs'), ('Deb822', 'lazy'))


def sort_enum_orders(tier):
    """Fixed start orders over the first spellings of SORT_NAMES (the same for every seed): the full set in the
    order given in the gap description, reversed, case-insensitively sorted, then seed-independent shuffles of
    the full set and of subsets of 3..8 names."""
    full = [g[0] for g in SORT_NAMES]
    out = [full, full[::-1], sorted(full, key=lambda s: s.lower()), sorted(full)]
    rr = random.Random('C09/sort-enum-orders')
    while len(out) < SORT_ENUM_ORDERS[tier]:
        n = len(full) if len(out) % 2 == 0 else rr.randint(3, 8)
        o = rr.sample(full, n)
        if o not in out:
            out.append(o)
    return out


def sort_enum_cases(ctx):
    """Every stored-key key function x every fixed start order x 4 start kinds: sort, copy (kind rotating),
    re-order, copy, add a field, sort again, copy and go on with the copy, re-order it."""
    idx = 0
    hows = COPY_HOWS
    for oi, order in enumerate(sort_enum_orders(ctx.tier)):
        for ki, kname in enumerate(STORED_KEY_NAMES):
            for si, (cls, skind) in enumerate(SORT_ENUM_STARTS):
                idx += 1
                if not ctx.mine(idx):
                    continue
                st = {'kind': skind, 'pairs': [[k, 's%d' % i] for i, k in enumerate(order)]}
                if skind in ('parsed-str', 'lazy'):
                    st['sep'], st['lead'] = ': ', ''
                absent = [g for g in SORT_NAMES if g[0] not in order]
                newk = absent[(oi + ki) % len(absent)][1] if absent else 'Q-new'
                rot = oi * 7 + ki * 3 + si
                ops = [['sort', kname],
                       ['copy', hows[rot % len(hows)], 'old'],
                       ['last', order[(ki + si) % len(order)].swapcase()],
                       ['copy', hows[(rot + 5) % len(hows)], 'old'],
                       ['set', newk, 'n%d' % ki],
                       ['sort', kname],
                       ['copy', COPY_OBJECTS[rot % len(COPY_OBJECTS)], 'new'],
                       ['first', order[(ki + 2 * si + 1) % len(order)]],
                       ['copy', hows[(rot + 9) % len(hows)], 'old']]
                yield {'cls': cls, 'start': st, 'ops': ops, 'enum': True, 'flavour': 'sort-enum'}


UNI_ENUM_MAP = {'a': 'x-épilogue', 'A': 'X-Épilogue', 'b': 'x-σίγμα', 'B': 'X-Σίγμα', 'c': 'x-привет', 'C': 'X-Привет'}
UNI_ENUM_STARTS = [dict(st, pairs=[[UNI_ENUM_MAP[k], v] for k, v in st['pairs']]) for st in ENUM_STARTS] + [
    {'kind': 'parsed-bytes', 'pairs': [['X-Épilogue', 's0'], ['x-σίγμα', 's1']], 'sep': ': ', 'lead': ''},
    {'kind': 'lazy', 'pairs': [['X-Σίγμα', 's0'], ['x-épilogue', 's1'], ['x-привет', 's2']], 'sep': ': ', 'lead': ''}]


def uni_enum_cases(ctx):
    """ENUM_OPS with a/b/c replaced by the é / σ / п names (same case pattern), from the same start states plus a
    bytes-parsed and a lazily wrapped one."""
    idx = 0
    for length in range(1, UNI_ENUM_LEN[ctx.tier] + 1):
        for combo in itertools.product(range(len(ENUM_OPS)), repeat=length):
            for st in UNI_ENUM_STARTS:
                idx += 1
                if not ctx.mine(idx):
                    continue
                ops = []
                for pos, oi in enumerate(combo):
                    op = [UNI_ENUM_MAP.get(x, x) if i in (1, 2) and isinstance(x, str) else x
                          for i, x in enumerate(ENUM_OPS[oi])]
                    if op[0] == 'set':
                        op[2] = 'v%d' % pos
                    ops.append(op)
                yield {'cls': 'Deb822', 'start': st, 'ops': ops, 'enum': True, 'flavour': 'uni-enum'}


# ---- round 9: the same enumerations over the blank-holding and the length-changing names ----------------------------
# a/A, b/B, c/C of ENUM_OPS replaced.  ENUM_OPS lean on a/A (assign both, delete / move through the capital, the
# self-relative order_before(A, a)), so every map puts another class there.
SPECIAL_ENUM_MAPS = [
    ('blank', {'a': 'x\xa0vcs', 'A': 'X\xa0Vcs', 'b': 'build\x1fid', 'B': 'Build\x1fId',
               'c': '\u2003lead', 'C': '\u2003Lead'}),
    ('dotted', {'a': 'x-i\u0307d', 'A': 'X-\u0130d', 'b': '\u0130', 'B': 'i\u0307',
                'c': 'x-vcs-i\u0307', 'C': 'X-Vcs-\u0130'}),
    ('blank-b', {'a': 'x\u2028vcs', 'A': 'X\u2028Vcs', 'b': '\x1clead', 'B': '\x1cLead',
                 'c': 'trail\x85', 'C': 'Trail\x85'}),
    ('mixed', {'a': 'TRAIL\u3000', 'A': 'trail\u3000', 'b': 'x-\u0130\xe9', 'B': 'X-\u0130\xc9',
               'c': '\u1680LEAD', 'C': '\u1680lead'}),
]
SPECIAL_ENUM_STARTS = ENUM_STARTS + [
    {'kind': 'parsed-bytes', 'pairs': [['A', 's0'], ['b', 's1']], 'sep': ': ', 'lead': ''},
    {'kind': 'lazy', 'pairs': [['B', 's0'], ['a', 's1'], ['c', 's2']], 'sep': ': ', 'lead': ''},
    {'kind': 'parsed-lines', 'pairs': [['c', 's0'], ['A', 's1']], 'sep': ':', 'lead': ''}]
_BYTES_TWIN = {'parsed-str': 'parsed-bytes', 'lazy': 'lazy-bytes', 'iter': 'iter-bytes'}


def special_enum_cases(ctx):
    """ENUM_OPS over the round-9 names: all sequences of length <= SPECIAL_ENUM_LEN from 3 (quick) / 8 (thorough)
    start states per map."""
    idx = 0
    for mi, (mname, mp) in enumerate(SPECIAL_ENUM_MAPS):
        if ctx.quick and mname == 'mixed':
            continue                            # thorough only
        starts = []
        for si, st in enumerate(SPECIAL_ENUM_STARTS):
            if ctx.quick and si not in (0, 3, 4 + mi):
                continue                        # quick: empty, dict of three, one parsed kind (another one per map)
            st = dict(st, pairs=[[mp[k], v] for k, v in st['pairs']])
            if mname == 'blank-b':
                st['kind'] = _BYTES_TWIN.get(st['kind'], st['kind'])
            starts.append(st)
        for length in range(1, SPECIAL_ENUM_LEN[ctx.tier] + 1):
            for combo in itertools.product(range(len(ENUM_OPS)), repeat=length):
                for st in starts:
                    idx += 1
                    if not ctx.mine(idx):
                        continue
                    ops = []
                    for pos, oi in enumerate(combo):
                        op = [mp.get(x, x) if i in (1, 2) and isinstance(x, str) else x
                              for i, x in enumerate(ENUM_OPS[oi])]
                        if op[0] == 'set':
                            op[2] = 'v%d' % pos
                        ops.append(op)
                    yield {'cls': 'Deb822', 'start': st, 'ops': ops, 'enum': True, 'flavour': 'special-enum'}


def special_sort_orders(tier):
    """Fixed start orders (the same for every seed): blank-holding names and their twins; length-changing names and
    their neighbours; then fixed shuffles over both."""
    blank = ['X\xa0Vcs', 'XVcs', '\u2003Lead', 'Lead', 'Trail\u3000', 'build\x1fid', 'X-Vcs', 'x\u2003vcs', '\u2007']
    dotted = ['X-\u0130d', 'x-Hd', 'X-jd', 'X-id', 'i\u0307stanbul', 'istanbul', 'D\u0130\u0130', 'x-vcs-i\u0307', 'a']
    out = [blank, dotted]
    pool = [g for g in BLANK_A_NAMES + BLANK_TWINS + DOTTED_NAMES + DOTTED_MIX]
    rr = random.Random('C09/special-sort-orders')
    while len(out) < SPECIAL_SORT_ORDERS[tier]:
        o = [rr.choice(g) for g in rr.sample(pool, rr.randint(3, 9))]
        if len(set(k.lower() for k in o)) == len(o) and o not in out:
            out.append(o)
    return out[:SPECIAL_SORT_ORDERS[tier]]


def special_sort_cases(ctx):
    """Every sort key x fixed start orders of the round-9 names x 4 start kinds; the script of uni_sort_cases."""
    idx = 0
    knames = sorted(SORT_KEYS)
    pool = BLANK_A_NAMES + BLANK_TWINS + DOTTED_NAMES + DOTTED_MIX
    for oi, order in enumerate(special_sort_orders(ctx.tier)):
        for ki, kname in enumerate(knames):
            for si, (cls, skind) in enumerate(SORT_ENUM_STARTS):
                if ctx.quick and (oi + ki + si) % 2 != ctx.seed % 2:
                    continue                    # quick: half of the combinations, the other half with the next seed
                idx += 1
                if not ctx.mine(idx):
                    continue
                st = {'kind': skind, 'pairs': [[k, 's%d' % i] for i, k in enumerate(order)]}
                if skind in ('parsed-str', 'lazy'):
                    st['sep'], st['lead'] = ': ', ''
                have = set(k.lower() for k in order)
                absent = [g for g in pool if g[0].lower() not in have]
                newk = absent[(oi * 5 + ki) % len(absent)][-1]
                rot = oi * 7 + ki * 3 + si

                def variant(k, n):
                    alts = [x for x in _group(pool, k) if x != k] or [k]
                    return alts[n % len(alts)]
                ops = [['sort', kname],
                       ['copy', COPY_HOWS[rot % len(COPY_HOWS)], 'old'],
                       ['last', variant(order[(ki + si) % len(order)], rot)],
                       ['cycle', SPECIAL_CYCLES[rot % len(SPECIAL_CYCLES)]] if cls == 'Deb822' else ['copy', 'ctor', 'new'],
                       ['set', newk, 'n%d' % ki],
                       ['sort', kname],
                       ['copy', COPY_OBJECTS[rot % len(COPY_OBJECTS)], 'new'],
                       ['first', variant(order[(ki + 2 * si + 1) % len(order)], rot + 1)],
                       ['del', variant(order[(ki + si + 2) % len(order)], rot + 2)],
                       ['copy', COPY_HOWS[(rot + 9) % len(COPY_HOWS)], 'old']]
                yield {'cls': cls, 'start': st, 'ops': ops, 'enum': True, 'flavour': 'special-sort'}


def uni_sort_orders(tier):
    full = [g[0] for g in UNI_NAMES] + ['X-Epilogue', 'a']
    out = [full, full[::-1], sorted(full, key=lambda s: s.lower())]
    rr = random.Random('C09/uni-sort-orders')
    while len(out) < UNI_SORT_ORDERS[tier]:
        o = rr.sample(full, rr.randint(3, 9))
        if o not in out:
            out.append(o)
    return out[:UNI_SORT_ORDERS[tier]]


def uni_sort_cases(ctx):
    """Every sort key (default, caller-chosen, stored-key) x fixed start orders of the non-ASCII names x 4 start
    kinds: sort, copy, re-order through a variant, dump->parse, add a field, sort again, copy and go on with the
    copy, re-order it through a variant, delete through a variant, copy."""
    idx = 0
    knames = sorted(SORT_KEYS)
    for oi, order in enumerate(uni_sort_orders(ctx.tier)):
        for ki, kname in enumerate(knames):
            for si, (cls, skind) in enumerate(SORT_ENUM_STARTS):
                idx += 1
                if not ctx.mine(idx):
                    continue
                st = {'kind': skind, 'pairs': [[k, 's%d' % i] for i, k in enumerate(order)]}
                if skind in ('parsed-str', 'lazy'):
                    st['sep'], st['lead'] = ': ', ''
                absent = [g for g in UNI_ALPHABET if g[0] not in order]
                newk = absent[(oi + ki) % len(absent)][1]
                rot = oi * 7 + ki * 3 + si
                ops = [['sort', kname],
                       ['copy', COPY_HOWS[rot % len(COPY_HOWS)], 'old'],
                       ['last', order[(ki + si) % len(order)].swapcase()],
                       ['cycle', CYCLES[rot % len(CYCLES)]] if cls == 'Deb822' else ['copy', 'ctor', 'new'],
                       ['set', newk, 'n%d' % ki],
                       ['sort', kname],
                       ['copy', COPY_OBJECTS[rot % len(COPY_OBJECTS)], 'new'],
                       ['first', order[(ki + 2 * si + 1) % len(order)].upper()],
                       ['del', order[(ki + si + 2) % len(order)].swapcase()],
                       ['copy', COPY_HOWS[(rot + 9) % len(COPY_HOWS)], 'old']]
                yield {'cls': cls, 'start': st, 'ops': ops, 'enum': True, 'flavour': 'uni-sort'}


# ---------------------------------------------------------------------------
# round 8: bulk / indirect removal followed by re-use

REINIT_HOWS = ('copy', 'ctor', 'Deb822Dict', 'dict', 'items')
BULK_UPDATE_HOWS = ('dict', 'pairs', 'Deb822Dict')
BULK_REMOVALS = {'clear': 18, 'popitem-to-empty': 16, 'pop-all': 10, 'del-all': 10, 'mixed-to-empty': 8,
                 'reinit-self': 8, 'reinit-other': 10, 'copy-then-empty': 12, 'partial-then-clear': 8}
BULK_PRELUDE = {'set': 20, 'del': 8, 'first': 10, 'last': 10, 'before': 12, 'after': 12, 'sort': 6, 'pop': 3,
                'setdefault': 3, 'update': 3, 'copy': 3}
BULK_REUSE = {'set': 34, 'in': 5, 'get': 5, 'first': 6, 'last': 6, 'before': 7, 'after': 7, 'sort': 5, 'copy': 6,
              'cycle': 5, 'pop': 4, 'del': 4, 'setdefault': 4, 'update': 5, 'popitem': 2, 'clear': 1, 'reinit': 2}
BULK_ITEM_WANT = {'former-same': 22, 'former-variant': 33, 'present-variant': 20, 'present-exact': 10, 'fresh': 15}
BULK_SET_WANT = {'former-same': 28, 'former-variant': 34, 'fresh': 20, 'present-variant': 12, 'present-exact': 6}


def _pick_bulk(r, m, names, former, want):
    """Key choice of the 'bulk' flavour.  `former`: lower-cased name -> spelling it was stored under when it was
    removed from the object the history is running on (and not assigned again since)."""
    if want.startswith('former'):
        cands = [sp for sp in former.values() if not m.has(sp)]
        if cands:
            k = r.choice(cands)
            if want == 'former-same':
                return k
            alts = [x for x in _group(names, k) if x != k]
            return r.choice(alts) if alts else k
        want = 'fresh'
    if want == 'fresh':
        absent = [g for g in names if not m.has(g[0]) and g[0].lower() not in former]
        if absent:
            return r.choice(r.choice(absent))
        return _pick(r, m, names, 'absent')
    return _pick(r, m, names, 'variant' if want == 'present-variant' else 'exact')


def gen_bulk_start(r, names, cls):
    kinds = ({'empty': 10, 'dict': 14, 'parsed-str': 14, 'parsed-bytes': 12, 'parsed-lines': 12, 'iter': 12, 'lazy': 14}
             if cls == 'Deb822' else {'empty': 15, 'dict': 25, 'pairs': 35, 'lazy': 25})
    kind = _weighted(r, kinds)
    if kind == 'empty':
        return {'kind': 'empty', 'pairs': []}
    groups = r.sample(names, min(len(names) - 1, r.choice([1, 2, 2, 3, 3, 4, 5])))
    st = {'kind': kind, 'pairs': [[r.choice(g), _value(r, 900 + i)] for i, g in enumerate(groups)]}
    if kind.startswith('parsed') or kind in ('iter', 'lazy'):
        st['sep'] = r.choice([': ', ': ', ':', ':\t', ':  '])
        st['lead'] = r.choice(['', '', '', '\n', '# comment\n', '\n\n'])
    return st


def gen_bulk_history(r, tier, special=False):
    x = r.random()
    pool = NAMES[tier] if x < 0.6 else SORT_NAMES if x < 0.75 else UNI_ALPHABET
    if special:
        # round 9: names with blank-like characters (BLANK_A: every route is open to them) / of changing length
        pool = _distinct_groups((BLANK_A_NAMES[:-3] + BLANK_TWINS) if x < 0.5 else (DOTTED_NAMES + DOTTED_MIX + BLANK_TWINS[:3]))
    names = r.sample(pool, r.choice([3, 4, 5, 6]))
    if special and x >= 0.5 and not any(g in DOTTED_NAMES for g in names):
        names[0] = r.choice(DOTTED_NAMES)
    cls_start = 'Deb822' if r.random() < 0.8 else 'Deb822Dict'
    start = gen_bulk_start(r, names, cls_start)
    m = CIListMap(start['pairs'])
    former = {}
    ops = []
    state = {'cls': cls_start, 'vid': 0}

    def val():
        state['vid'] += 1
        return _value(r, state['vid'])

    def emit(op):
        before = m.keys()
        ops.append(op)
        _apply_to_model(m, op)
        if op[0] == 'cycle' or (op[0] == 'copy' and op[2] == 'new' and op[1] in COPY_OBJECTS):
            state['cls'] = _class_after_copy(state['cls'], op) if op[0] == 'copy' else state['cls']
            former.clear()                      # the history goes on with another object: it has no former names
            return
        after = set(k.lower() for k in m.keys())
        for k in before:
            if k.lower() not in after:
                former[k.lower()] = k
        for lk in after:
            former.pop(lk, None)

    def pick(table):
        return _pick_bulk(r, m, names, former, _weighted(r, table))

    def variant(k, p=0.6):
        alts = [x for x in _group(names, k) if x != k]
        return r.choice(alts) if alts and r.random() < p else k

    def in_some_order(keys):
        x = r.random()
        if x < 0.35:
            return keys
        if x < 0.6:
            return keys[::-1]
        keys = list(keys)
        r.shuffle(keys)
        return keys

    def random_op(weights):
        kind = _weighted(r, weights)
        if kind == 'cycle' and state['cls'] != 'Deb822':
            kind = 'copy'
        if kind == 'set':
            return ['set', pick(BULK_SET_WANT), val()]
        if kind in ('del', 'get', 'in', 'first', 'last'):
            return [kind, pick(BULK_ITEM_WANT)]
        if kind in ('before', 'after'):
            return [kind, pick(BULK_ITEM_WANT), pick(BULK_ITEM_WANT)]
        if kind == 'sort':
            return ['sort', _weighted(r, {'default': 50, 'lower': 15, 'rev': 10, 'len': 10, 'str': 5, 'ident': 10})]
        if kind == 'copy':
            how = r.choice(COPY_OBJECTS) if r.random() < 0.7 else r.choice(COPY_SNAPSHOTS)
            return ['copy', how, r.choice(['new', 'old', 'old'])]
        if kind == 'cycle':
            return ['cycle', r.choice(CYCLES)]
        if kind == 'pop':
            return ['pop', pick(BULK_ITEM_WANT), r.random() < 0.5]
        if kind == 'setdefault':
            return ['setdefault', pick(BULK_SET_WANT), val()]
        if kind == 'update':
            return ['update', [[pick(BULK_SET_WANT), val()] for _ in range(r.randint(1, 3))], r.choice(BULK_UPDATE_HOWS)]
        if kind == 'reinit':
            return ['reinit', r.choice(REINIT_HOWS)]
        return [kind]                           # popitem, clear

    def removal():
        kind = _weighted(r, BULK_REMOVALS)
        if kind == 'copy-then-empty':
            emit(['copy', 'copy' if r.random() < 0.3 else r.choice(COPY_OBJECTS), r.choice(['new', 'old'])])
            kind = r.choice(['clear', 'clear', 'popitem-to-empty', 'del-all'])
        keys = m.keys()
        if kind == 'partial-then-clear':
            for k in in_some_order(keys)[:r.randint(0, max(0, len(keys) - 1))]:
                emit(r.choice([['del', variant(k)], ['pop', variant(k), False], ['popitem']]))
            emit(['clear'])
        elif kind == 'clear':
            emit(['clear'])
            if r.random() < 0.15:
                emit(['clear'])
        elif kind == 'popitem-to-empty':
            for _ in keys:
                emit(['popitem'])
            if r.random() < 0.6:
                emit(['popitem'])               # KeyError on the emptied mapping
        elif kind == 'pop-all':
            for k in in_some_order(keys):
                emit(['pop', variant(k), r.random() < 0.5])
                if r.random() < 0.2:
                    emit(['pop', variant(k), True])         # gone: the default comes back
        elif kind == 'del-all':
            for k in in_some_order(keys):
                emit(['del', variant(k)])
        elif kind == 'mixed-to-empty':
            for _ in range(len(keys)):
                if not len(m):
                    break
                k = r.choice(m.keys())
                emit(r.choice([['del', variant(k)], ['pop', variant(k), r.random() < 0.5], ['popitem']]))
        elif kind == 'reinit-self':
            emit(['reinit', r.choice(REINIT_HOWS)])
        else:                                   # reinit-other
            emit(['clear'])
            emit(['update', [[pick(BULK_SET_WANT), val()] for _ in range(r.randint(1, 4))], r.choice(BULK_UPDATE_HOWS)])

    target = len(m) if len(m) else r.choice([1, 2, 3, 3, 4, 5])
    for _ in range(8):
        if len(m) >= target:
            break
        emit(['set', pick({'fresh': 1}), val()])
    for _ in range(r.choice([0, 0, 1, 2, 3, 4])):
        emit(random_op(BULK_PRELUDE))
    for _ in range(r.choice([1, 1, 1, 2])):
        removal()
        for _ in range(r.randint(3, BULK_REUSE_OPS[tier])):
            emit(random_op(BULK_REUSE))
    return {'cls': cls_start, 'start': start, 'ops': ops, 'flavour': 'bulk-special' if special else 'bulk'}


BULK_ENUM_STARTS = (('Deb822', 'empty'), ('Deb822', 'dict'), ('Deb822Dict', 'pairs'), ('Deb822', 'parsed-str'),
                    ('Deb822', 'parsed-bytes'), ('Deb822', 'parsed-lines'), ('Deb822', 'iter'), ('Deb822', 'lazy'),
                    ('Deb822Dict', 'lazy'), ('Deb822Dict', 'dict'), ('Deb822Dict', 'empty'))
BULK_ENUM_REMOVALS = (('clear', 'clear-twice', 'popitem-to-empty', 'popitem-past-empty', 'pop-all',
                       'pop-all-default-variants', 'del-all', 'del-all-reverse-variants', 'reorder-then-clear',
                       'reorder-then-popitem')
                      + tuple('reinit-self:%s' % h for h in REINIT_HOWS)
                      + tuple('clear-update:%s' % h for h in BULK_UPDATE_HOWS)
                      + ('copy-new-clear', 'copy-old-clear', 'copy-new-popitem', 'copy-old-popitem', 'cycle-clear',
                         'del-all-but-one-then-popitem', 'dcopy-new-clear', 'dcopy-old-clear'))


def bulk_enum_name_sets(tier):
    """Seed-independent: 5 name groups per round (three start names, two fresh ones).  Round 0 is ASCII, round 1
    non-ASCII, the others come from a fixed shuffle of both alphabets."""
    out = [[NAMES['thorough'][i] for i in (3, 1, 4, 5, 0)],
           [UNI_NAMES[0], UNI_NAMES[2], UNI_NAMES[5], UNI_NAMES[6], UNI_ASCII_MIX[0]]]
    rr = random.Random('C09/bulk-enum-names')
    pool = [g for g in NAMES['thorough'] + SORT_NAMES + UNI_ALPHABET]
    while len(out) < BULK_ENUM_ROUNDS[tier]:
        cand, seen = [], set()
        for g in rr.sample(pool, len(pool)):
            if g[0].lower() not in seen:
                seen.add(g[0].lower())
                cand.append(g)
            if len(cand) == 5:
                break
        out.append(cand)
    return out[:BULK_ENUM_ROUNDS[tier]]


def _bulk_enum_ops(removal, script, K, V, fresh, fresh2, rot, from_empty):
    """K: the three stored spellings; V: another spelling of each; fresh / fresh2: two spellings each of two names
    that were never in the mapping."""
    k0, k1, k2 = K
    v0, v1, v2 = V
    ops = [['set', k, 's%d' % i] for i, k in enumerate(K)] if from_empty else []
    how = COPY_OBJECTS[rot % len(COPY_OBJECTS)]
    if removal == 'clear':
        ops += [['clear']]
    elif removal == 'clear-twice':
        ops += [['clear'], ['clear']]
    elif removal == 'popitem-to-empty':
        ops += [['popitem']] * 3
    elif removal == 'popitem-past-empty':
        ops += [['popitem']] * 4
    elif removal == 'pop-all':
        ops += [['pop', k, False] for k in K]
    elif removal == 'pop-all-default-variants':
        ops += [['pop', v, True] for v in V[::-1]] + [['pop', v0, True]]
    elif removal == 'del-all':
        ops += [['del', k] for k in K]
    elif removal == 'del-all-reverse-variants':
        ops += [['del', v] for v in V[::-1]]
    elif removal == 'reorder-then-clear':
        ops += [['first', v2], ['after', k0, v1], ['clear']]
    elif removal == 'reorder-then-popitem':
        ops += [['last', v0], ['sort', 'default']] + [['popitem']] * 3
    elif removal.startswith('reinit-self:'):
        ops += [['reinit', removal.split(':')[1]]]
    elif removal.startswith('clear-update:'):
        ops += [['clear'], ['update', [[v1, 'u0'], [fresh[0], 'u1'], [k0, 'u2']], removal.split(':')[1]]]
    elif removal in ('copy-new-clear', 'copy-old-clear'):
        ops += [['copy', how, removal.split('-')[1]], ['clear']]
    elif removal in ('dcopy-new-clear', 'dcopy-old-clear'):     # d.copy() itself
        ops += [['copy', 'copy', removal.split('-')[1]], ['clear']]
    elif removal in ('copy-new-popitem', 'copy-old-popitem'):
        ops += [['copy', how, removal.split('-')[1]]] + [['popitem']] * 3
    elif removal == 'cycle-clear':
        ops += [['cycle', CYCLES[rot % len(CYCLES)]], ['clear']]
    elif removal == 'del-all-but-one-then-popitem':
        ops += [['del', v0], ['pop', k2, False], ['popitem'], ['popitem']]
    else:
        raise AssertionError(removal)
    snap = COPY_HOWS[(rot + 3) % len(COPY_HOWS)]
    if script == 0:
        ops += [['in', k0], ['get', v0], ['first', v1], ['before', k1, v0], ['pop', v2, True], ['del', k2],
                ['sort', 'default'], ['copy', snap, 'old'],
                ['set', v1, 'n0'], ['set', fresh[0], 'n1'], ['set', k0, 'n2'], ['set', v0, 'n3'],
                ['last', k1], ['before', v0, fresh[1]], ['sort', 'default'],
                ['copy', COPY_HOWS[(rot + 7) % len(COPY_HOWS)], 'old'], ['cycle', CYCLES[(rot + 2) % len(CYCLES)]],
                ['del', v0], ['set', v0, 'n4'], ['setdefault', v2, 'n5'],
                ['update', [[k2, 'n6'], [fresh2[0], 'n7']], 'pairs'], ['popitem'], ['clear'],
                ['cycle', CYCLES[(rot + 1) % len(CYCLES)]],       # dump -> parse of the emptied paragraph
                ['set', k0, 'n8'], ['in', v1]]
    else:
        ops += [['set', k0, 'n0'], ['set', v2, 'n1'], ['first', k2], ['after', v0, k2], ['setdefault', v1, 'n2'],
                ['get', k1], ['copy', COPY_OBJECTS[(rot + 2) % len(COPY_OBJECTS)], 'new'], ['clear'],
                ['set', v1, 'n3'], ['last', k1], ['popitem'], ['popitem'], ['set', k1, 'n9'], ['popitem'],
                ['cycle', CYCLES[(rot + 3) % len(CYCLES)]],       # dump -> parse of the emptied paragraph
                ['update', [[v0, 'n4'], [k1, 'n5'], [fresh[1], 'n6']], 'Deb822Dict'], ['sort', 'ident'],
                ['cycle', CYCLES[(rot + 4) % len(CYCLES)]], ['pop', k0, False], ['set', k0, 'n7'],
                ['before', fresh[0], v1], ['reinit', REINIT_HOWS[rot % len(REINIT_HOWS)]], ['del', fresh[0]],
                ['set', fresh[1], 'n8']]
    return ops


def special_bulk_enum_name_sets(tier):
    """Round 9, seed-independent: round 0 blank-holding names (inside / start / end; fresh: a twin and another
    blank), round 1 length-changing names (fresh: a plain-i twin and another one); the others from a fixed shuffle."""
    def grp(first):
        return _group(BLANK_A_NAMES + BLANK_TWINS + DOTTED_NAMES + DOTTED_MIX, first)
    out = [[grp('X\xa0Vcs'), grp('\u2003Lead'), grp('Build\x1fId'), grp('XVcs'), grp('X\u2003Vcs')],
           [grp('X-\u0130d'), grp('x-vcs-i\u0307'), grp('D\u0130\u0130'), grp('X-id'), grp('\u0130stanbul')]]
    rr = random.Random('C09/special-bulk-enum-names')
    pool = [g for g in BLANK_A_NAMES + DOTTED_NAMES + BLANK_TWINS + DOTTED_MIX if len(g) >= 2]
    while len(out) < SPECIAL_BULK_ENUM_ROUNDS[tier]:
        cand = _distinct_groups(rr.sample(pool, len(pool)))[:5]
        if any(name_classes(g[0]) for g in cand[:3]):
            out.append(cand)
    return out[:SPECIAL_BULK_ENUM_ROUNDS[tier]]


def bulk_enum_cases(ctx, name_sets=None, flavour='bulk-enum'):
    """Every start configuration x every removal script x BULK_ENUM_ROUNDS name sets (quick: each pair with one of
    the two name sets, alternating), followed by one of the two fixed re-use scripts (alternating)."""
    idx = 0
    for ri, groups in enumerate(name_sets if name_sets is not None else bulk_enum_name_sets(ctx.tier)):
        for si, (cls, skind) in enumerate(BULK_ENUM_STARTS):
            for mi, removal in enumerate(BULK_ENUM_REMOVALS):
                if ctx.quick and (si + mi) % 2 != ri % 2:
                    continue                    # quick: each (start, removal) pair with ONE of the two name sets
                if ctx.quick and name_sets is not None and (si + mi // 2) % 2 != ctx.seed % 2:
                    continue                    # quick, round-9 name sets: half of the pairs, the other half with the next seed
                idx += 1
                if not ctx.mine(idx):
                    continue
                rot = ri * 5 + si * 3 + mi
                K = [g[(ri + j) % len(g)] for j, g in enumerate(groups[:3])]
                V = [[x for x in g if x != k][(rot + j) % (len(g) - 1)] for j, (k, g) in enumerate(zip(K, groups))]
                fresh, fresh2 = groups[3][:2], groups[4][:2]
                st = {'kind': skind, 'pairs': [] if skind == 'empty' else [[k, 's%d' % i] for i, k in enumerate(K)]}
                if skind.startswith('parsed') or skind in ('iter', 'lazy'):
                    st['sep'], st['lead'] = ': ', ''
                ops = _bulk_enum_ops(removal, (si + mi + ri) % 2, K, V, fresh, fresh2, rot, skind == 'empty')
                cur, out = cls, []
                for op in ops:                  # dump->parse exists on Deb822 only
                    if op[0] == 'cycle' and cur != 'Deb822':
                        op = ['copy', 'ctor', 'new']
                    if op[0] == 'copy':
                        cur = _class_after_copy(cur, op)
                    out.append(list(op))
                yield {'cls': cls, 'start': st, 'ops': out, 'enum': True, 'flavour': flavour}


# ---------------------------------------------------------------------------
# round 12: ABANDONED iterations.  Pseudo-op ['partial-iter', view, k, keep, early]: an iteration over `view` of the live
# object is started, advanced k steps and given up (keep = the iterator object stays alive while the following
# observations run; otherwise it is dropped at once).  The model is unchanged by it; what it yielded must be the model's
# prefix and the ordinary full observation that follows must still see the whole mapping.  early = the full observation
# of the PRECEDING operation (or of construction) is left out, so that the abandoned iteration is the first iteration the
# object sees after that operation (the state is judged all the same: by the observation after this pseudo-op).

PITER_VIEWS = ('iter', 'for-break', 'next', 'keys', 'items', 'values', 'zip', 'any', 'islice', 'enumerate-break',
               'unpack', 'two', 'two-views', 'copy-iter', 'in-iter', 'resume')
PITER_HISTORIES = {'quick': 320, 'thorough': 26000}
PITER_MAX_BASE_OPS = 10
PITER_ENUM_KS = {'quick': 1, 'thorough': 3}
PITER_ENUM_STARTS = (('Deb822', 'empty'), ('Deb822', 'dict'), ('Deb822Dict', 'pairs'), ('Deb822', 'parsed-str'),
                     ('Deb822', 'parsed-bytes'), ('Deb822', 'parsed-lines'), ('Deb822', 'iter'), ('Deb822', 'lazy'),
                     ('Deb822Dict', 'dict'))
PITER_ENUM_AFTER = ('construction', 'set-new', 'set-variant', 'del', 'pop', 'popitem', 'setdefault-new', 'update',
                    'first', 'last', 'before', 'after', 'sort', 'failed-del', 'copy', 'cycle', 'clear-set')
PITER_ENUM_NAMES = (('Package', 'PACKAGE'), ('version', 'Version'), ('Architecture', 'architecture'),
                    ('X-Foo', 'x-foo'), ('Description', 'DESCRIPTION'))


def piter_enum_cases(ctx):
    """every start kind x every kind of operation the abandoned iteration comes right after x every view (k rotating in
    quick, 0..2 in thorough; keep alternating), followed by a second abandoned iteration (the kept iterator advanced one
    more step where there is one) and a value overwrite"""
    idx = 0
    names = PITER_ENUM_NAMES
    for si, (cls, skind) in enumerate(PITER_ENUM_STARTS):
        for ai, after in enumerate(PITER_ENUM_AFTER):
            for vi, view in enumerate(PITER_VIEWS):
                if view == 'resume':
                    continue
                if ctx.quick and (si + ai + vi + ctx.seed) % 2:
                    continue                    # quick: half of the combinations, the other half under the next seed
                for kk in range(PITER_ENUM_KS[ctx.tier]):
                    idx += 1
                    if not ctx.mine(idx):
                        continue
                    k = (idx + kk) % 3 if ctx.quick else kk
                    keep = (idx // 3) % 2
                    pairs = [] if skind == 'empty' else [[g[idx % 2], 's%d' % i] for i, g in enumerate(names[:4])]
                    start = {'kind': skind, 'pairs': pairs}
                    if skind not in ('empty', 'dict', 'pairs'):
                        start.update({'sep': ': ', 'lead': ''})
                    first = pairs[0][0] if pairs else 'Package'
                    third = pairs[2][0] if pairs else 'Package'
                    pre = {'construction': [], 'set-new': [['set', names[4][0], 'n0']],
                           'set-variant': [['set', names[1][1 - idx % 2], 'n1']],
                           'del': [['del', names[1][1 - idx % 2]]], 'pop': [['pop', names[2][1 - idx % 2], 0]],
                           'popitem': [['popitem']], 'setdefault-new': [['setdefault', names[4][1], 'n2']],
                           'update': [['update', [[names[4][0], 'n3'], [names[0][1 - idx % 2], 'n4']], 'pairs']],
                           'first': [['first', third.swapcase()]], 'last': [['last', first.swapcase()]],
                           'before': [['before', third, first.swapcase()]], 'after': [['after', first, third.swapcase()]],
                           'sort': [['sort', 'default']], 'failed-del': [['del', 'No-Such-Field']],
                           'copy': [['copy', 'copy', 'new']], 'cycle': [['cycle', 'str']],
                           'clear-set': [['clear'], ['set', names[3][0], 'n5'], ['set', names[0][1], 'n6']]}[after]
                    if not pairs:
                        pre = [['set', 'Package', 'e0'], ['set', 'version', 'e1'], ['set', 'Architecture', 'e2']] + \
                            [op for op in pre if op[0] in ('set', 'setdefault', 'update', 'sort', 'clear', 'copy')]
                    if cls == 'Deb822Dict':
                        pre = [op for op in pre if op[0] != 'cycle']
                    ops = [list(op) for op in pre]
                    ops.append(['partial-iter', view, k, keep, 1])
                    ops.append(['partial-iter', 'resume' if keep and view in ('iter', 'keys', 'items', 'values') else
                                PITER_VIEWS[(idx + 3) % 14], 1, 0, 0])
                    ops.append(['set', 'PACKAGE', 'w0'])                     # value overwrite: no structural change
                    yield {'cls': cls, 'start': start, 'ops': ops, 'enum': True, 'flavour': 'partial-iter-enum'}


def _piter_op(r, n, early, resume_ok=False):
    view = r.choice(PITER_VIEWS[:-1] + (('resume', 'resume', 'resume') if resume_ok else ()))
    k = r.choice([0, 1, 1, 1, 2, 2, 3, max(0, n - 1), n, n + 1])
    return ['partial-iter', view, k, 1 if r.random() < 0.35 else 0, 1 if early else 0]


def gen_piter_history(r, tier):
    """An ordinary classic history (cut to PITER_MAX_BASE_OPS operations) with abandoned iterations put in: right after
    construction and after about half of the operations, three out of four as the FIRST iteration after that operation."""
    case = gen_history(r, tier, 'classic')
    base = case['ops'][:PITER_MAX_BASE_OPS]
    m = CIListMap(case['start']['pairs'])
    ops = []
    for i in range(len(base) + 1):
        if i:
            ops.append(base[i - 1])
            try:
                _apply_to_model(m, base[i - 1])
            except Exception:
                pass
        if r.random() < (0.6 if i == 0 else 0.5):
            ops.append(_piter_op(r, len(m), r.random() < 0.75))
            if r.random() < 0.3:
                ops.append(_piter_op(r, len(m), False, resume_ok=True))
    if not any(op[0] == 'partial-iter' for op in ops):
        ops.append(_piter_op(r, len(m), True))
    case['ops'] = ops
    case['flavour'] = 'partial-iter'
    return case


def partial_iterate(d, view, k, kept):
    """Start an iteration over `view` of d, take k elements, give it up.
    Returns (what was yielded, 'keys'|'items'|'values'|None = which model list it is a slice of, live iterator objects,
    offset of the slice)."""
    got, what, its, off = [], 'keys', [], 0
    if view == 'iter':
        it = iter(d)
        its.append(it)
        for _ in range(k):
            try:
                got.append(next(it))
            except StopIteration:
                break
    elif view == 'for-break':
        for x in d:
            if len(got) >= k:
                break
            got.append(x)
    elif view == 'next':
        x = next(iter(d), _MISSING)
        if x is not _MISSING:
            got.append(x)
    elif view in ('keys', 'items', 'values'):
        what = view
        it = iter(getattr(d, view)())
        its.append(it)
        for _ in range(k):
            try:
                got.append(next(it))
            except StopIteration:
                break
    elif view == 'zip':
        z = zip(range(k), d)
        its.append(z)
        got = [x for _, x in z]
    elif view == 'any':
        def seen(x):
            got.append(x)
            return len(got) >= k
        any(seen(x) for x in d)
    elif view == 'islice':
        got = list(itertools.islice(d, k))
    elif view == 'enumerate-break':
        for i, x in enumerate(d.keys()):
            if i >= k:
                break
            got.append(x)
    elif view == 'unpack':
        what = None
        try:
            if k % 2:
                (x,) = d
            else:
                x, y = d.keys()
        except ValueError:
            pass
    elif view == 'in-iter':
        what = None
        it = iter(d)
        its.append(it)
        ('no-such-field-%d' % k) in itertools.islice(it, k)
    elif view == 'two':
        a, b = iter(d), iter(d)
        its.extend([a, b])
        second = []
        for _ in range(k):
            try:
                got.append(next(a))
                second.append(next(b))
            except StopIteration:
                break
        if [plain(x) for x in second] != [plain(x) for x in got[:len(second)]] or len(second) != len(got):
            raise Mismatch('abandoned-iteration/two-iterators-advanced-alternately/iterators-disagree',
                           'two iterators over the same paragraph advanced alternately gave %r and %r' % (got, second))
    elif view == 'two-views':
        what = 'items'
        a, b = iter(d.items()), iter(d.keys())
        its.extend([a, b])
        second = []
        for _ in range(k):
            try:
                got.append(next(a))
                second.append(next(b))
            except StopIteration:
                break
        if [plain(x) for x in second] != [plain(x[0]) for x in got[:len(second)]] or len(second) != len(got):
            raise Mismatch('abandoned-iteration/two-iterators-advanced-alternately/iterators-disagree',
                           'iterators over items() and keys() of the same paragraph advanced alternately gave %r and %r'
                           % (got, second))
    elif view == 'copy-iter':
        c = d.copy()
        it = iter(c)
        its.extend([c, it])
        for _ in range(k):
            try:
                got.append(next(it))
            except StopIteration:
                break
    elif view == 'resume':
        if not kept:
            return None, None, [], 0
        what, it, off = kept[-1]
        if what is None:
            return None, None, [], 0
        for _ in range(k):
            try:
                got.append(next(it))
            except StopIteration:
                break
    else:
        raise AssertionError(view)
    return got, what, its, off


def tolerated_cases(ctx):
    for tclass in sorted(TOLERATED):
        for a, b in TOLERATED[tclass]:
            for cls in ('Deb822', 'Deb822Dict'):
                yield {'kind': 'tolerated', 'class': tclass, 'cls': cls, 'a': a, 'b': b}


def cases(ctx):
    ctx.extra['exhaustive_subspaces'] = [
        'all operation sequences of length 1..%d over the %d-operation alphabet ENUM_OPS (names a/b/c addressed '
        'through a/A, b/B, c/C) from %d start states' % (ENUM_LEN[ctx.tier], len(ENUM_OPS), len(ENUM_STARTS)),
        'every one of the %d stored-key key functions x %d fixed start orders of the mixed-case names x %d start '
        'kinds (sort, copy, re-order, copy, add, sort, copy, re-order, copy)'
        % (len(STORED_KEY_NAMES), SORT_ENUM_ORDERS[ctx.tier], len(SORT_ENUM_STARTS)),
        'non-ASCII names: all operation sequences of length 1..%d over ENUM_OPS with a/b/c replaced by the names %s '
        'from %d start states; every one of the %d sort keys x %d fixed start orders of the non-ASCII names x %d start '
        'kinds' % (UNI_ENUM_LEN[ctx.tier], '/'.join(UNI_ENUM_MAP[k] for k in 'aAbBcC'), len(UNI_ENUM_STARTS),
                   len(SORT_KEYS), UNI_SORT_ORDERS[ctx.tier], len(SORT_ENUM_STARTS)),
        'bulk removal then re-use: %d start configurations x %d removal scripts x %d name sets, each followed by one '
        'of 2 fixed re-use scripts%s' % (len(BULK_ENUM_STARTS), len(BULK_ENUM_REMOVALS), BULK_ENUM_ROUNDS[ctx.tier],
                                         ' (quick: each start x removal pair with one of the 2 name sets)' if ctx.quick else ''),
        'names with blank-like characters / case variants of different length: all operation sequences of length '
        '1..%d over ENUM_OPS with a/b/c replaced by %d name maps (%s) from %d start states each; every one of the %d '
        'sort keys x %d fixed start orders x %d start kinds; the bulk-removal enumeration over %d more name sets%s'
        % (SPECIAL_ENUM_LEN[ctx.tier], len(SPECIAL_ENUM_MAPS) - (1 if ctx.quick else 0),
           ', '.join(n for n, _ in SPECIAL_ENUM_MAPS if not (ctx.quick and n == 'mixed')),
           3 if ctx.quick else len(SPECIAL_ENUM_STARTS), len(SORT_KEYS), SPECIAL_SORT_ORDERS[ctx.tier], len(SORT_ENUM_STARTS),
           SPECIAL_BULK_ENUM_ROUNDS[ctx.tier],
           ' (quick: of the sort and bulk-removal combinations the half that belongs to the parity of VERIF_SEED)' if ctx.quick else ''),
        'parsed text repeating one field in several case variants: %d line patterns (%s; digits = spellings of the '
        'repeated name, P/p = its prefix twin, B/b = a second repeated name, o/q/r = other fields) x %d start '
        'configurations (parse routes) x %d of %d name sets x 3 fixed follow-up scripts'
        % (len(REPEAT_PATTERNS), ' '.join(REPEAT_PATTERNS), len(REPEAT_START_KINDS), REPEAT_ENUM_SETS[ctx.tier],
           len(REPEAT_NAME_SETS))]
    if ctx.shard == 0:
        yield {'kind': 'repo-tests'}        # the repository's own tests under K1/K2, as one more workload
    for case in tolerated_cases(ctx):       # every shard (= under every ambient); counted, never judged
        yield case
    # ---- round 11: parsed text that repeats one field in several case variants
    for case in repeat_enum_cases(ctx):
        yield case
    r = ctx.rng('histories', 'repeat')
    for _ in range(ctx.size(REPEAT_HISTORIES['quick'], REPEAT_HISTORIES['thorough'])):
        yield gen_history(r, ctx.tier, 'repeat')
    # ---- round 12: abandoned iterations
    for case in piter_enum_cases(ctx):
        yield case
    r = ctx.rng('histories', 'partial-iter')
    for _ in range(ctx.size(PITER_HISTORIES['quick'], PITER_HISTORIES['thorough'])):
        yield gen_piter_history(r, ctx.tier)
    # ---- round 9: names with blank-like characters / case variants of different length
    for case in special_enum_cases(ctx):
        yield case
    for case in special_sort_cases(ctx):
        yield case
    for case in bulk_enum_cases(ctx, special_bulk_enum_name_sets(ctx.tier), 'special-bulk-enum'):
        yield case
    for flavour in SPECIAL_FLAVOURS:
        r = ctx.rng('histories', flavour)
        for _ in range(ctx.size(SPECIAL_HISTORIES[flavour]['quick'], SPECIAL_HISTORIES[flavour]['thorough'])):
            yield gen_history(r, ctx.tier, flavour)
    r = ctx.rng('histories', 'bulk-special')
    for _ in range(ctx.size(SPECIAL_BULK_HISTORIES['quick'], SPECIAL_BULK_HISTORIES['thorough'])):
        yield gen_bulk_history(r, ctx.tier, special=True)
    # ----
    for case in bulk_enum_cases(ctx):
        yield case
    r = ctx.rng('histories', 'bulk')
    for _ in range(ctx.size(BULK_HISTORIES['quick'], BULK_HISTORIES['thorough'])):
        yield gen_bulk_history(r, ctx.tier)
    for case in uni_sort_cases(ctx):
        yield case
    for case in uni_enum_cases(ctx):
        yield case
    r = ctx.rng('histories', 'unicode')
    for _ in range(ctx.size(UNI_HISTORIES['quick'], UNI_HISTORIES['thorough'])):
        yield gen_history(r, ctx.tier, 'unicode')
    for case in sort_enum_cases(ctx):
        yield case
    for case in enum_cases(ctx):
        yield case
    r = ctx.rng('histories')
    for _ in range(ctx.size(RANDOM_HISTORIES['quick'], RANDOM_HISTORIES['thorough'])):
        yield gen_history(r, ctx.tier)
    for flavour in ('sortkeys', 'copies'):
        r = ctx.rng('histories', flavour)
        for _ in range(ctx.size(FLAVOUR_HISTORIES[flavour]['quick'], FLAVOUR_HISTORIES[flavour]['thorough'])):
            yield gen_history(r, ctx.tier, flavour)


# ---------------------------------------------------------------------------
# observation of the live object

_MISSING = object()


def plain(s):
    """Exact character data of a (possibly subclassed) str - comparisons below
    must be case-SENSITIVE even if the library hands out its case-insensitive
    string type."""
    if type(s) is str:
        return s
    return ''.join(str.__iter__(s)) if isinstance(s, str) else s


def read_dump(text):
    """Tolerant reader for dump() output: 'Name:<blanks>first line' + continuation
    lines starting with blank.  Returns list of (name, value) or None."""
    if not isinstance(text, str):
        return None
    if text == '':
        return []
    if not text.endswith('\n'):
        return None
    out = []
    for line in text[:-1].split('\n'):
        if line[:1] in (' ', '\t'):
            if not out:
                return None
            out[-1][1] += '\n' + line
        else:
            name, colon, rest = line.partition(':')
            if not colon or not name:
                return None
            out.append([name, rest.lstrip(' \t')])
    return [(k, v) for k, v in out]


def spellings(k):
    return [k, k.lower(), k.upper(), k.swapcase()]


def _lower(s):
    return s.lower()


_ASCII_LOWER = dict((ord(c), ord(c.lower())) for c in 'ABCDEFGHIJKLMNOPQRSTUVWXYZ')


def _ascii_lower(s):
    """Folding of A-Z only (evidence counter: does the demanded order depend on folding the other letters?)."""
    return s.translate(_ASCII_LOWER)


def observe_plain_order(d, exp_keys, rec, memo=None):
    """sorted()/min()/max() over the mapping's keys must order them as the plain str spellings order: whatever
    type the library hands out as a key, only its ==/hash may fold case.  (The keys of one paragraph are
    case-insensitively distinct, so a case-folding == never turns two of them into a tie.)
    `memo` (per history, main object only): when the key list is the one that was fully examined at the previous
    observation, only sorted(d) is repeated (cost)."""
    want = sorted(exp_keys)
    if memo is not None:
        if memo.get('plain') == exp_keys:
            got = [plain(k) for k in sorted(d)]
            if got != want:
                return ('keys-do-not-order-like-plain-strings', 'sorted(d) gives %r, the plain spellings sort as %r'
                        % (got, want))
            return None
        memo['plain'] = exp_keys
    if len(want) >= 2:
        rec.mon('M.plain-order')
        if want != sorted(exp_keys, key=_lower):
            rec.count('plain-order:case-matters')
    for what, f in (('sorted(d)', lambda: sorted(d)), ('sorted(d.keys())', lambda: sorted(d.keys())),
                    ('sorted(d, reverse=True)', lambda: sorted(d, reverse=True)[::-1])):
        got = [plain(k) for k in f()]
        if got != want:
            return ('keys-do-not-order-like-plain-strings', '%s gives %r, the plain spellings sort as %r'
                    % (what, got, want))
    if want:
        for what, f, exp in (('min(d)', lambda: min(d), want[0]), ('max(d)', lambda: max(d), want[-1]),
                             ('max(d.keys())', lambda: max(d.keys()), want[-1])):
            got = plain(f())
            if got != exp:
                return ('keys-do-not-order-like-plain-strings', '%s gives %r, the plain spellings %r give %r'
                        % (what, got, exp_keys, exp))
    return None


def observe(d, m, universe, has_dump, rec=None, memo=None):
    """Full comparison of the observable state with the model.
    Returns None or (aspect, message)."""
    rec = rec if rec is not None else _QUIET
    exp_keys = m.keys()
    got_keys = [plain(k) for k in d]
    if got_keys != exp_keys:
        gl, el = [k.lower() for k in got_keys], [k.lower() for k in exp_keys]
        if gl == el:
            aspect = 'spelling'
        elif sorted(gl) == sorted(el):
            aspect = 'key-order'
        else:
            aspect = 'key-set'
        return (aspect, 'list(d)=%r, model %r' % (got_keys, exp_keys))
    if len(d) != len(exp_keys):
        return ('len', 'len(d)=%r, model has %d keys %r' % (len(d), len(exp_keys), exp_keys))
    for u in universe:
        i = m.find(u)
        if i >= 0:
            k, v = m.pairs[i]
            try:
                got = d[u]
            except KeyError:
                return ('present-key-not-found', 'd[%r] raised KeyError; model holds %r (stored as %r)' % (u, v, k))
            if plain(got) != v:
                return ('value', 'd[%r]=%r, model %r (stored as %r)' % (u, got, v, k))
            if not (u in d):
                return ('membership', '(%r in d) is False; model has it stored as %r; keys %r' % (u, k, exp_keys))
            if not u.isascii():
                got = d.get(u, _MISSING)
                if got is _MISSING or plain(got) != v:
                    return ('present-key-not-found' if got is _MISSING else 'value',
                            'd.get(%r) gives %s, model %r (stored as %r)'
                            % (u, 'the default' if got is _MISSING else repr(got), v, k))
        else:
            if u in d:
                return ('membership', '(%r in d) is True, model keys %r' % (u, exp_keys))
            try:
                got = d[u]
            except KeyError:
                pass
            else:
                return ('absent-key-found', 'd[%r]=%r but the key is not in the model %r' % (u, got, exp_keys))
            if d.get(u, _MISSING) is not _MISSING:
                return ('absent-key-found', 'd.get(%r) found a value; model keys %r' % (u, exp_keys))
    items = [(plain(k), plain(v)) for k, v in d.items()]
    if items != m.items():
        return ('views', 'list(d.items())=%r, model %r' % (items, m.items()))
    if [plain(k) for k in d.keys()] != exp_keys:
        return ('views', 'list(d.keys())=%r, model %r' % (list(d.keys()), exp_keys))
    values = [plain(v) for v in d.values()]
    if values != m.values():
        return ('views', 'list(d.values())=%r, model %r (keys %r)' % (values, m.values(), exp_keys))
    bad = observe_plain_order(d, exp_keys, rec, memo)
    if bad:
        return bad
    if has_dump:
        text = d.dump()
        got = read_dump(text)
        if got != m.items():
            return ('dump', 'dump()=%r reads as %r, model %r' % (text, got, m.items()))
    return None


# ---------------------------------------------------------------------------
# executing a history

def start_text(st):
    out = [st.get('lead', '')]
    for k, v in st['pairs']:
        if not v or v[0] == '\n':
            out.append('%s:%s\n' % (k, v))
        else:
            out.append('%s%s%s\n' % (k, st.get('sep', ': '), v))
    return ''.join(out)


def nl_lines(text):
    """The lines of a paragraph text, cut at \\n ONLY and keeping the \\n (what str.splitlines(True) gives for every
    text of the older workloads).  A list of lines is the caller's own cut: the caller of a deb822 reader cuts at
    \\n, not at the other boundaries str.splitlines() knows (FS / GS / RS, NEL, LS, PS), which are legal inside a
    field name."""
    parts = text.split('\n')
    return [x + '\n' for x in parts[:-1]] + ([parts[-1]] if parts[-1] else [])


def build_start(cls, st):
    kind = st['kind']
    pairs = [(k, v) for k, v in st['pairs']]
    if kind == 'empty':
        return cls()
    if kind == 'dict':
        return cls(dict(pairs))
    if kind == 'pairs':
        return cls(pairs)
    from debian.deb822 import Deb822
    text = start_text(st)
    if kind == 'parsed-str':
        return cls(text)
    if kind == 'parsed-bytes':
        return cls(text.encode('utf-8'))
    if kind == 'parsed-lines':
        return cls(nl_lines(text))
    if kind == 'parsed-lines-bytes':
        return cls(text.encode('utf-8').splitlines(True))
    if kind in ('iter', 'iter-bytes'):
        paras = list(cls.iter_paragraphs(text if kind == 'iter' else text.encode('utf-8')))
        if len(paras) != 1:
            raise Mismatch('start-%s/paragraph-count' % kind, 'iter_paragraphs(%r) gave %d paragraphs' % (text, len(paras)))
        return paras[0]
    if kind == 'lazy':
        return cls(_parsed=Deb822(text))
    if kind == 'lazy-bytes':
        return cls(_parsed=Deb822(text.encode('utf-8')))
    raise AssertionError(kind)


def reparse(cls, d, how, m):
    text = d.dump()
    if how == 'str':
        return cls(text)
    if how == 'bytes':
        return cls(text.encode('utf-8'))
    if how == 'lines':
        return cls(nl_lines(text))
    if how == 'lines-bytes':
        return cls(text.encode('utf-8').splitlines(True))
    if how in ('iter', 'iter-bytes'):
        paras = list(cls.iter_paragraphs(text if how == 'iter' else text.encode('utf-8')))
        if len(m) == 0 and not paras:
            return cls()
        if len(paras) != 1:
            raise Mismatch('cycle/paragraph-count', 'iter_paragraphs(%r) gave %d paragraphs' % (text, len(paras)))
        return paras[0]
    if how == 'fd-bytes':
        fd = io.BytesIO()
        d.dump(fd)
        return cls(fd.getvalue())
    if how == 'fd-text':
        fd = io.StringIO()
        d.dump(fd, text_mode=True)
        return cls(fd.getvalue())
    if how in ('file-bytes', 'file-text'):
        # the file OBJECT is handed to the parser (it iterates over its lines)
        fd = io.BytesIO() if how == 'file-bytes' else io.StringIO()
        if how == 'file-bytes':
            d.dump(fd)
        else:
            d.dump(fd, text_mode=True)
        fd.seek(0)
        return cls(fd)
    raise AssertionError(how)


class Mismatch(Exception):
    def __init__(self, key, msg):
        Exception.__init__(self, msg)
        self.key = key
        self.msg = msg


class _Quiet(object):
    """Stand-in for ctx while shrinking: records nothing."""
    def count(self, *a, **k): pass
    def mon(self, *a, **k): pass


_QUIET = _Quiet()


def op_keys(op):
    kind = op[0]
    if kind in ('set', 'del', 'get', 'in', 'first', 'last', 'pop', 'setdefault'):
        return [op[1]]
    if kind in ('before', 'after'):
        return [op[1], op[2]]
    if kind == 'update':
        return [p[0] for p in op[1]]
    return []


def op_label(op):
    kind = op[0]
    return {'first': 'order_first', 'last': 'order_last', 'before': 'order_before', 'after': 'order_after',
            'sort': 'sort_fields', 'cycle': 'dump-parse', 'reinit': 'clear-update',
            'partial-iter': 'abandoned-iteration'}.get(kind, kind)


def classify_reorder(rec, m, op):
    """Evidence counters describing WHICH situation a re-order / delete exercises."""
    kind = op[0]
    if kind not in REORDERS and kind not in ('del', 'pop'):
        return
    k = op[1]
    keys = m.keys()
    if not m.has(k):
        return
    i = m.find(k)
    if kind in REORDERS:
        if keys[i] != k:
            rec.count('reorder:item-variant')
        if len(keys) == 1:
            rec.count('reorder:only-element')
        elif i == 0:
            rec.count('reorder:head')
        elif i == len(keys) - 1:
            rec.count('reorder:tail')
        if kind in ('before', 'after') and m.has(op[2]) and op[2].lower() != k.lower():
            j = m.find(op[2])
            if keys[j] != op[2]:
                rec.count('reorder:ref-variant')
            if j == 0:
                rec.count('reorder:ref-head')
            if j == len(keys) - 1:
                rec.count('reorder:ref-tail')
    elif kind in ('del', 'pop'):
        if keys[i] != k:
            rec.count('del:variant')
        if len(keys) == 1:
            rec.count('del:only')
        elif i == 0:
            rec.count('del:head')
        elif i == len(keys) - 1:
            rec.count('del:tail')


COPY_TEXT = {
    'copy': 'd.copy()', 'ctor': 'type(d)(d)', 'Deb822': 'Deb822(d)', 'Deb822Dict': 'Deb822Dict(d)',
    'ctor-items': 'Deb822Dict(d.items()) [Deb822: Deb822(Deb822Dict(d.items()))]', 'ctor-item-list': 'type(d)(list(d.items())) [Deb822: via dict(...)]',
    'ctor-dict-items': 'type(d)(dict(d.items()))', 'ctor-dict': 'type(d)(dict(d))',
    'dict-items': 'dict(d.items())', 'dict': 'dict(d)', 'list-items': 'list(d.items())',
    'list-keys': 'list(d.keys())', 'list-values': 'list(d.values())', 'list': 'list(d)',
    'tuple-items': 'tuple(d.items())',
}


def take_copy(deb822, d, how):
    """Returns (new mapping object or None, plain snapshot or None).
    The Deb822 constructor reads a non-mapping argument as LINES OF TEXT, so a pair list / items view is only
    handed to Deb822Dict directly; for a Deb822 it goes through dict(...) (a plain dict keeps the order)."""
    t = type(d)
    if how == 'copy':
        return d.copy(), None
    if how == 'ctor':
        return t(d), None
    if how == 'Deb822':
        return deb822.Deb822(d), None
    if how == 'Deb822Dict':
        return deb822.Deb822Dict(d), None
    if how == 'ctor-items':
        return (t(d.items()) if t is deb822.Deb822Dict else t(deb822.Deb822Dict(d.items()))), None
    if how == 'ctor-item-list':
        return (t(list(d.items())) if t is deb822.Deb822Dict else t(dict(list(d.items())))), None
    if how == 'ctor-dict-items':
        return t(dict(d.items())), None
    if how == 'ctor-dict':
        return t(dict(d)), None
    if how == 'dict-items':
        return None, dict(d.items())
    if how == 'dict':
        return None, dict(d)
    if how == 'list-items':
        return None, list(d.items())
    if how == 'list-keys':
        return None, list(d.keys())
    if how == 'list-values':
        return None, list(d.values())
    if how == 'list':
        return None, list(d)
    if how == 'tuple-items':
        return None, tuple(d.items())
    raise AssertionError(how)


def check_snapshot(how, snap, m):
    """A plain snapshot (dict / list / tuple) against the model: same spellings, values, order."""
    if how in ('dict-items', 'dict'):
        if type(snap) is not dict:
            return ('snapshot-type', 'not a dict: %r' % (snap,))
        got = [(plain(k), plain(v)) for k, v in snap.items()]
        exp = m.items()
    elif how in ('list-items', 'tuple-items'):
        got = [(plain(k), plain(v)) for k, v in snap]
        exp = m.items()
    elif how in ('list-keys', 'list'):
        got = [plain(k) for k in snap]
        exp = m.keys()
    else:
        got = [plain(v) for v in snap]
        exp = m.values()
    if got == exp:
        return None
    if how == 'list-values':
        aspect = 'value-order' if sorted(got) == sorted(exp) else 'value'
    else:
        gk = [x[0] if isinstance(x, tuple) else x for x in got]
        ek = [x[0] if isinstance(x, tuple) else x for x in exp]
        gl, el = [k.lower() for k in gk], [k.lower() for k in ek]
        aspect = ('value' if gk == ek else 'spelling' if gl == el else
                  'key-order' if sorted(gl) == sorted(el) else 'key-set')
    return (aspect, 'got %r, model %r' % (got, exp))


def repeated_names(st):
    """Round 11: the (lower-cased) names that a PARSED start text holds on several lines in at least two different
    spellings.  (dict / pair-list starts with case variants are the older 'dup_ok' class and not counted here.)"""
    if st['kind'] in ('empty', 'dict', 'pairs'):
        return frozenset()
    sp = {}
    for k, _ in st['pairs']:
        sp.setdefault(k.lower(), []).append(k)
    return frozenset(lk for lk, v in sp.items() if len(set(v)) >= 2)


def count_repeat_start(rec, st, rep_names):
    """Evidence counters: WHICH shapes of repetition the start text has."""
    rec.count('repeat:start:%s' % st['kind'])
    keys = [k for k, _ in st['pairs']]
    low = [k.lower() for k in keys]
    if len(rep_names) >= 2:
        rec.count('repeat:shape:two-groups')
    for lk in rep_names:
        pos = [i for i, x in enumerate(low) if x == lk]
        sps = [keys[i] for i in pos]
        rec.count('repeat:shape:%d-lines' % min(len(pos), 4))
        if len(set(sps)) >= 3:
            rec.count('repeat:shape:3+-spellings')
        if sps[0] != sps[-1]:
            rec.count('repeat:shape:first-spelling-differs-from-last')      # first or last spelling kept?
        if any(sps[j] in sps[:j - 1] and sps[j] != sps[j - 1] for j in range(2, len(sps))):
            rec.count('repeat:shape:recurs-after-variant')                   # A a A
        if pos[-1] - pos[0] == len(pos) - 1:
            rec.count('repeat:shape:adjacent')
        else:
            rec.count('repeat:shape:spread')
        if pos[0] > 0:
            rec.count('repeat:shape:not-at-head')
        if pos[-1] < len(keys) - 1:
            rec.count('repeat:shape:not-at-tail')
        if any(low[i] != lk and low[i].startswith(lk) for i in range(pos[0], pos[-1])):
            rec.count('repeat:shape:prefix-twin-between')                    # A a AA-other A
        if st['pairs'][pos[0]][1] != st['pairs'][pos[-1]][1]:
            rec.count('repeat:shape:first-value-differs-from-last')


def execute(rec, case):
    """Run one history.  Returns (violation or None, info):
    violation = (mechanism_key, message, number_of_ops_executed)."""
    from debian import deb822
    cls = getattr(deb822, case['cls'])
    has_dump = case['cls'] == 'Deb822'
    st = case['start']
    ops = case['ops']
    info = {'variant_use': False, 'restructured': False, 'uni_variant': False, 'special_variant': False,
            'repeat': False}
    # order in which the names of the CURRENT live object were first inserted into it (lower-cased): what an
    # implementation that forgets a re-ordering falls back to.  A copy is "taken after a re-ordering" when the
    # model order differs from it at that moment.
    ins = []
    memo = {}
    last_move = -1          # index of the last operation that effectively changed the order
    # round 8 (bulk removal, re-use).  All of it concerns the object the history is CURRENTLY running on:
    former = {}             # lower-cased name -> spelling it was stored under when it was removed (not assigned since)
    emptied_by = None       # kind of the operation that last took this object from non-empty to empty
    origin = st['kind']     # start kind while the object is the start object itself; 'copy' / 'cycle' afterwards
    last_emptied = -1       # index of the last operation that emptied the current object
    prev_kind = None
    # round 12 (abandoned iterations)
    kept = []               # [model list name, live iterator, elements taken so far] of iterations given up but kept alive
    kept_valid = False      # nothing but reads happened to the current object since the last of them was started
    unobserved = None       # kind of the operation whose full observation was left out (the next pseudo-op judges it)

    universe = []
    for k in [p[0] for p in st['pairs']] + [k for op in ops for k in op_keys(op)]:
        for sp in spellings(k):
            if sp not in universe:
                universe.append(sp)

    step = -1
    ghosts = []
    try:
        m = CIListMap(st['pairs'])
        d = build_start(cls, st)
        ins = [k.lower() for k in m.keys()]
        rec.count('start:%s' % st['kind'])
        if not all(k.isascii() for k in m.keys()):
            rec.count('uni:start:%s' % st['kind'])
        sp_classes = set(c for k in m.keys() for c in name_classes(k))
        for c in sp_classes:
            rec.count('%s:start:%s' % (c, st['kind']))
            rec.mon('M.' + c)
        if sp_classes and st['kind'] not in ('empty', 'dict', 'pairs'):
            for x in blank_chars_of(m.keys()):
                rec.count('blank:parsed:U+%04X' % ord(x))      # a name holding this character came out of the parser
        rec.mon('M')
        rep_names = repeated_names(st)
        if rep_names:
            info['repeat'] = True
            count_repeat_start(rec, st, rep_names)
            rec.mon('M.repeat')
        if ops and ops[0][0] == 'partial-iter' and ops[0][4]:
            bad = None
            unobserved = 'construction'
        else:
            bad = observe(d, m, universe, has_dump, rec)
        if bad:
            if rep_names and not bad[0].startswith('repeated-field'):
                bad = ('repeated-field-in-text/' + bad[0], bad[1])
            return (('start-%s/%s' % (st['kind'], bad[0]), 'after construction: ' + bad[1], 0), info)

        for step, op in enumerate(ops):
            kind = op[0]
            label = op_label(op)
            rec.count('op:%s' % kind)
            # does this operation address a present key through a different spelling?
            for pos, x in enumerate(op_keys(op)):
                if m.has(x) and m.stored(x) != x:
                    info['variant_use'] = True
                if not x.isascii():
                    # non-ASCII name: which operation kind (and role) addresses it, and how
                    role = '%s-%s' % (kind, 'ref' if pos else 'item') if kind in ('before', 'after') else kind
                    if not m.has(x):
                        rec.count('uni:absent:%s' % role)
                    elif m.stored(x) != x:
                        rec.count('uni:variant:%s' % role)
                        info['uni_variant'] = True
                    else:
                        rec.count('uni:exact:%s' % role)
                for c in name_classes(x):
                    # round 9: a name with a blank-like character / with case variants of different length
                    role = '%s-%s' % (kind, 'ref' if pos else 'item') if kind in ('before', 'after') else kind
                    if not m.has(x):
                        rec.count('%s:absent:%s' % (c, role))
                    elif m.stored(x) != x:
                        rec.count('%s:variant:%s' % (c, role))
                        info['special_variant'] = True
                        if c == 'dotted' and len(m.stored(x)) != len(x):
                            rec.count('dotted:lenvariant:%s' % role)      # ... through a spelling of another LENGTH
                    else:
                        rec.count('%s:exact:%s' % (c, role))
            if rep_names:
                # round 11: the member that came from repeated lines of the start text is addressed (on the start object,
                # a copy or a re-parsed object alike); a removed and re-assigned name counts until the history ends
                for pos, x in enumerate(op_keys(op)):
                    if x.lower() in rep_names:
                        role = '%s-%s' % (kind, 'ref' if pos else 'item') if kind in ('before', 'after') else kind
                        if not m.has(x):
                            rec.count('repeat:absent:%s' % role)
                            if kind in ('set', 'setdefault', 'update'):
                                rec.count('repeat:removed-then-reassigned')
                        else:
                            rec.count('repeat:addressed:%s' % role)
                            if m.stored(x) != x:
                                rec.count('repeat:variant:%s' % role)
                if kind in ('copy', 'cycle') and any(k.lower() in rep_names for k in m.keys()):
                    rec.count('repeat:%s:%s' % (kind, op[1]))
            classify_reorder(rec, m, op)
            before_len = len(m)
            keys_before = m.keys()
            if emptied_by is not None:
                rec.count('bulk:after-emptied:op:%s' % kind)
                if not keys_before:
                    rec.count('bulk:on-emptied:op:%s' % kind)     # the mapping IS empty, after a removal
            if former or emptied_by is not None:
                for pos, x in enumerate(op_keys(op)):
                    if m.has(x):
                        continue
                    if x.lower() in former:
                        how = 'same' if former[x.lower()] == x else 'variant'
                        role = '%s-%s' % (kind, 'ref' if pos else 'item') if kind in ('before', 'after') else kind
                        rec.count('bulk:reuse-former:%s:%s' % (role, how))
                        if emptied_by is not None:
                            rec.count('bulk:%s:reuse-former:origin-%s' % (emptied_by, origin))
                            if kind in ('set', 'setdefault', 'update'):
                                rec.count('bulk:%s:reassign-former:origin-%s' % (emptied_by, origin))
                                rec.count('bulk:reassign-former:%s' % how)
                    elif emptied_by is not None and kind in ('set', 'setdefault', 'update'):
                        rec.count('bulk:after-emptied:assign-fresh')
            if kind == 'update' and prev_kind == 'clear':
                rec.count('bulk:clear-then-update:%s' % op[2])
            prev_kind = kind
            n_uni = sum(1 for k in keys_before if not k.isascii())
            sp_before = [c for k in keys_before for c in name_classes(k)]
            if kind == 'popitem' and before_len:
                expect, value = 'ok', None          # WHICH member goes is not demanded: decided after the call
            else:
                expect, value = _apply_to_model(m, op)
            if n_uni:
                if kind == 'sort' and n_uni >= 2:
                    rec.count('uni:sort:%s' % ('default' if op[1] == 'default' else
                                               'stored-key' if op[1] in STORED_KEY_SORT_KEYS else 'caller-key'))
                    if m.keys() != keys_before:
                        rec.count('uni:sort:moved')
                    if op[1] in ('default', 'lower') and m.keys() != sorted(keys_before, key=_ascii_lower):
                        rec.count('uni:sort:non-ascii-folding-matters')    # folding A-Z only gives another order
                elif kind == 'copy':
                    rec.count('uni:copy:%s' % op[1])
                elif kind == 'cycle':
                    rec.count('uni:cycle:%s' % op[1])
                if expect != 'ok':
                    rec.count('uni:failed-op')
                    if expect == 'ValueError' and op[1] != op[2] and not op[1].isascii():
                        rec.count('uni:fail:self-relative-variant')
            if sp_before:
                # round 9 evidence: what the paragraphs holding the new names go through
                for c in set(sp_before):
                    if kind == 'sort' and len(keys_before) >= 2:
                        rec.count('%s:sort:%s' % (c, 'default' if op[1] == 'default' else
                                                  'stored-key' if op[1] in STORED_KEY_SORT_KEYS else 'caller-key'))
                        if m.keys() != keys_before:
                            rec.count('%s:sort:moved' % c)
                    elif kind == 'copy':
                        rec.count('%s:copy:%s' % (c, op[1]))
                    elif kind == 'cycle':
                        rec.count('%s:cycle:%s' % (c, op[1]))
                    elif kind in ('clear', 'popitem', 'reinit'):
                        rec.count('%s:%s' % (c, kind))
                    if expect != 'ok':
                        rec.count('%s:failed-op' % c)
                if kind == 'cycle':
                    for x in blank_chars_of(keys_before):
                        rec.count('blank:cycled:U+%04X' % ord(x))  # a name holding this character went through dump -> parse
                if expect == 'ValueError' and op[1] != op[2]:
                    for c in name_classes(op[1]):
                        rec.count('%s:fail:self-relative-variant' % c)
                    if len(op[1]) != len(op[2]):
                        rec.count('dotted:fail:self-relative-lenvariant')
                if kind in ('set', 'setdefault') and len(m) == before_len and 'dotted' in name_classes(op[1]) \
                        and len(m.stored(op[1])) != len(op[1]):
                    rec.count('dotted:assign-through-lenvariant-adds-no-field')
            stored_key_sort = kind == 'sort' and op[1] in STORED_KEY_SORT_KEYS
            if kind in REORDERS or kind == 'sort':
                if expect == 'ok' and m.keys() != keys_before:
                    last_move = step
                    rec.count('moved:%s' % kind)
                if stored_key_sort:
                    rec.count('sortkey:%s' % op[1])
                    if len(keys_before) >= 2:
                        rec.mon('M.sortkey')
                    f = MODEL_SORT_KEYS[op[1]]
                    if m.keys() != sorted(keys_before, key=lambda k: f(k.lower())):
                        rec.count('sortkey:case-matters')     # the demanded order depends on the letters' case
                    if m.keys() != keys_before:
                        rec.count('sortkey:moved')
            elif kind == 'set' and len(m) != before_len:
                ins.append(op[1].lower())
            elif kind in ('setdefault', 'update'):
                ins.extend(k.lower() for k in m.keys()[before_len:])
            elif kind in ('del', 'pop') and len(m) != before_len:
                ins = [k for k in ins if k != op[1].lower()]
            elif kind == 'clear':
                ins = []
            elif kind == 'reinit':
                ins = [k.lower() for k in m.keys()]          # everything is inserted again, in the current order
            reordered = [k.lower() for k in m.keys()] != ins

            # ---- perform on the live object
            raised = None
            result = None
            newd = None
            try:
                if kind == 'set':
                    d[op[1]] = op[2]
                elif kind == 'del':
                    del d[op[1]]
                elif kind == 'get':
                    result = d[op[1]]
                elif kind == 'in':
                    result = op[1] in d
                elif kind == 'first':
                    d.order_first(op[1])
                elif kind == 'last':
                    d.order_last(op[1])
                elif kind == 'before':
                    d.order_before(op[1], op[2])
                elif kind == 'after':
                    d.order_after(op[1], op[2])
                elif kind == 'sort':
                    f = SORT_KEYS[op[1]]
                    if f is None:
                        d.sort_fields()
                    else:
                        d.sort_fields(key=f)
                elif kind == 'copy':
                    newd, result = take_copy(deb822, d, op[1])
                elif kind == 'cycle':
                    # (a history cut down by the shrinker may reach a dump->parse step on a Deb822Dict: plain copy)
                    newd = reparse(type(d), d, op[1], m) if has_dump else type(d)(d)
                elif kind == 'pop':
                    result = d.pop(op[1], 'DEFAULT') if op[2] else d.pop(op[1])
                elif kind == 'setdefault':
                    result = d.setdefault(op[1], op[2])
                elif kind == 'update':
                    if op[2] == 'dict':
                        d.update(dict((k, v) for k, v in op[1]))
                    elif op[2] == 'Deb822Dict':
                        d.update(deb822.Deb822Dict([(k, v) for k, v in op[1]]))
                    else:
                        d.update([(k, v) for k, v in op[1]])
                elif kind == 'clear':
                    d.clear()
                elif kind == 'partial-iter':
                    view, k = op[1], (1 if op[1] == 'next' else max(1, op[2]) if op[1] == 'any' else op[2])
                    label = 'abandoned-iteration/%s' % view
                    since = unobserved if unobserved is not None else 'full-observation'
                    got, what, its, off = partial_iterate(d, view, k, kept if kept_valid else [])
                    if got is None:
                        rec.count('piter:resume-skipped')
                    else:
                        rec.count('piter:view:%s' % view)
                        rec.count('piter:first-iteration-since:%s' % since)
                        rec.count('piter:steps:%s' % ('0' if k == 0 else 'all' if k == len(m) else
                                                       'past-the-end' if k > len(m) else 'some'))
                        rec.count('piter:%s:%s' % ('early' if unobserved is not None else 'late',
                                                   'kept' if op[3] else 'dropped'))
                        rec.mon('M.piter')
                        if unobserved is not None:
                            rec.mon('M.piter.first-iteration')
                        if what is not None:
                            rec.mon('M.piter.prefix')
                            full = m.keys() if what == 'keys' else m.items() if what == 'items' else m.values()
                            want = full[off:off + k]
                            have = [(plain(x[0]), plain(x[1])) if what == 'items' else plain(x) for x in got]
                            if have != want:
                                raise Mismatch('%s/yielded-wrong-%s' % (label, what),
                                               'op #%d %r (first iteration since %s) yielded %r, model %s[%d:%d] = %r'
                                               % (step, op, since, have, what, off, off + k, want))
                        if view == 'copy-iter':
                            bad = observe(its[0], m, universe, has_dump, rec)
                            if bad:
                                raise Mismatch('%s/copy-%s' % (label, bad[0]), 'op #%d %r: the copy whose iteration '
                                               'was given up after %d steps: %s' % (step, op, k, bad[1]))
                        if view == 'resume':
                            kept[-1][2] = off + len(got)
                            rec.count('piter:resumed')
                        elif op[3] and its and what is not None and view in ('iter', 'keys', 'items', 'values'):
                            kept.append([what, its[-1], len(got)])
                            kept = kept[-3:]
                            kept_valid = True
                        elif op[3] and its:
                            kept.append([None, its, 0])        # only kept alive
                            kept = kept[-3:]
                        del its
                elif kind == 'popitem':
                    result = d.popitem()
                elif kind == 'reinit':
                    other = (d.copy() if op[1] == 'copy' else type(d)(d) if op[1] == 'ctor' else
                             deb822.Deb822Dict(d) if op[1] == 'Deb822Dict' else dict(d) if op[1] == 'dict' else
                             list(d.items()))
                    rec.count('bulk:reinit:%s' % op[1])
                    d.clear()
                    rec.mon('M')
                    if before_len:
                        rec.mon('M.emptied')
                    bad = observe(d, CIListMap(), universe, has_dump, rec)
                    if bad:
                        raise Mismatch('clear-update/after-clear/%s' % bad[0],
                                       'op #%d %r, after d.clear() (model keys before %r): %s'
                                       % (step, op, keys_before, bad[1]))
                    d.update(other)
                    if op[1] in ('copy', 'ctor', 'Deb822Dict'):
                        ghosts.append((other, m.copy(), step, isinstance(other, deb822.Deb822), 'reinit-source'))
                        ghosts = ghosts[-4:]
            except Mismatch:
                raise
            except (KeyError, ValueError) as e:
                raised = e

            # ---- outcome against the reference semantics
            if expect == 'ok':
                if raised is not None:
                    return (('%s/raised-%s-on-valid-operation' % (label, type(raised).__name__),
                             'op %r raised %r; model keys before: see replay' % (op, raised), step + 1), info)
                rec.count('ok:%s' % kind)
                if kind in ('get', 'pop', 'setdefault') and plain(result) != value:
                    return (('%s/returned-wrong-value' % label, 'op %r returned %r, model %r' % (op, result, value),
                             step + 1), info)
                if kind == 'in' and result is not value:
                    return (('in/membership', '(%r in d) = %r, model %r' % (op[1], result, value), step + 1), info)
                if kind == 'popitem':
                    try:
                        pk, pv = result
                        pk, pv = plain(pk), plain(pv)
                    except (TypeError, ValueError):
                        return (('popitem/result-is-not-a-pair', 'popitem() returned %r; model %r'
                                 % (result, m.items()), step + 1), info)
                    i = m.find(pk) if isinstance(pk, str) else -1
                    if i < 0 or m.pairs[i][0] != pk or m.pairs[i][1] != pv:
                        return (('popitem/returned-pair-is-not-a-member', 'popitem() returned %r; members were %r'
                                 % (result, m.items()), step + 1), info)
                    rec.count('popitem:%s' % ('only' if before_len == 1 else 'first' if i == 0 else
                                              'last' if i == before_len - 1 else 'middle'))
                    del m.pairs[i]
                    ins = [k for k in ins if k != pk.lower()]
                if kind in REORDERS or kind == 'sort' or (kind in ('del', 'pop', 'popitem', 'clear')
                                                          and len(m) != before_len):
                    info['restructured'] = True
            else:
                fail_class = {'del': 'del-missing', 'get': 'get-missing', 'pop': 'pop-missing', 'popitem': 'popitem-empty',
                              'first': 'reorder-missing-item', 'last': 'reorder-missing-item'}.get(kind)
                if kind in ('before', 'after'):
                    if expect == 'ValueError':
                        fail_class = 'self-relative' if op[1] == op[2] else 'self-relative-variant'
                    elif expect == 'EitherError':
                        fail_class = 'self-relative-absent'
                    elif not m.has(op[1]) and not m.has(op[2]):
                        fail_class = 'reorder-missing-both'
                    elif not m.has(op[1]):
                        fail_class = 'reorder-missing-item'
                    else:
                        fail_class = 'reorder-missing-ref'
                rec.count('fail:%s' % fail_class)
                if step + 1 < len(ops):
                    rec.count('fail:then-more-ops')     # the history goes on (and is observed) after the rejection
                if raised is None:
                    what = 'self-relative-reorder-not-rejected' if expect == 'ValueError' else 'missing-key-not-rejected'
                    return (('%s/%s' % (label, what), 'op %r did not raise (expected %s); list(d)=%r'
                             % (op, expect, [plain(k) for k in d]), step + 1), info)
                ok = (isinstance(raised, KeyError) if expect == 'KeyError' else
                      isinstance(raised, ValueError) if expect == 'ValueError' else True)
                if not ok:
                    return (('%s/wrong-exception-%s-instead-of-%s' % (label, type(raised).__name__, expect),
                             'op %r raised %r, expected %s' % (op, raised, expect), step + 1), info)

            if kind not in ('partial-iter', 'get', 'in'):
                kept_valid = False          # (an iterator is never advanced after anything but reads)
            if kind == 'copy' or kind == 'cycle':
                kept = []
            # ---- which names left / (re-)entered the mapping (the model is final for this operation here)
            if kind in ('set', 'del', 'pop', 'popitem', 'clear', 'setdefault', 'update'):
                now = set(k.lower() for k in m.keys())
                for k in keys_before:
                    if k.lower() not in now:
                        former[k.lower()] = k
                for lk in now:
                    former.pop(lk, None)
                if keys_before and not now:
                    emptied_by = kind
                    last_emptied = step
                    rec.count('bulk:emptied-by:%s' % kind)
                    rec.count('bulk:emptied:origin-%s' % origin)
                    # emptying this object must not touch the objects left behind (its copies / the original it was
                    # copied from): looked at right now, and again at the end of the history
                    for g, gm, gstep, gdump, grole in ghosts:
                        if not len(gm):
                            continue
                        rec.mon('M.ghost.after-emptied')
                        rec.count('bulk:ghost:%s-observed-right-after-other-object-emptied' % grole)
                        bad = observe(g, gm, universe, gdump, rec)
                        if bad:
                            return (('%s/other-object-changed-%s' % (label, bad[0]),
                                     'object left behind at op #%d %r changed when the other object was emptied by op '
                                     '#%d %r: %s' % (gstep, ops[gstep], step, op, bad[1]), step + 1), info)
            elif kind == 'reinit' and keys_before:
                last_emptied = step             # emptied and filled again within one operation
                rec.count('bulk:emptied-by:reinit')

            # ---- copies / re-parsed objects: continue on one, keep the other as a ghost
            if kind == 'copy':
                label = 'copy' if op[1] in ('copy', 'ctor') else 'copy-via-%s' % op[1]
                rec.count('copy:%s' % op[1])
                rec.mon('M.copy')
                if reordered:
                    rec.count('copy-after-reorder:%s' % op[1])
                    rec.mon('M.copy.after-reorder')
                if newd is None:
                    bad = check_snapshot(op[1], result, m)
                    if bad:
                        return (('%s/%s%s' % (label, bad[0], '/taken-after-re-ordering' if reordered else ''),
                                 '%s taken after op #%d: %s' % (COPY_TEXT[op[1]], step - 1, bad[1]), step + 1), info)
            if newd is not None:
                keep_new = (kind == 'cycle') or op[2] == 'new'
                ghost = d if keep_new else newd
                new_dump = isinstance(newd, deb822.Deb822)
                if kind == 'copy':
                    want_cls = {'Deb822': deb822.Deb822, 'Deb822Dict': deb822.Deb822Dict}.get(op[1], type(d))
                    if type(newd) is not want_cls:
                        return (('%s/wrong-class' % label, '%s returned a %s for a %s' % (
                            COPY_TEXT[op[1]], type(newd).__name__, type(d).__name__), step + 1), info)
                if keep_new:
                    ghost_dump = has_dump
                    d, has_dump = newd, new_dump
                    memo.clear()
                    ins = [k.lower() for k in m.keys()]
                    former, emptied_by, origin = {}, None, kind      # another object: no former names, never emptied
                else:
                    ghost_dump = new_dump
                    rec.mon('M')
                    bad = observe(newd, m, universe, new_dump, rec)      # the copy we do not continue with
                    if bad:
                        return (('%s/%s' % (label, bad[0]), 'the object returned by %r: %s' % (op, bad[1]), step + 1), info)
                ghosts.append((ghost, m.copy(), step, ghost_dump,
                               'reparse-source' if kind == 'cycle' else 'original' if keep_new else 'copy'))
                ghosts = ghosts[-4:]

            # ---- full observation after EVERY operation, failed ones included
            if step + 1 < len(ops) and ops[step + 1][0] == 'partial-iter' and ops[step + 1][4] and kind != 'partial-iter':
                # ... but for the one right before an abandoned iteration that wants to be the FIRST iteration after this
                # operation: the state is judged by the observation that follows that pseudo-op (the model is the same)
                unobserved = 'failed-' + kind if expect != 'ok' else kind
                rec.count('piter:observation-left-to-the-pseudo-op')
                continue
            if kind == 'partial-iter':
                rec.mon('M.piter.after')
            unobserved = None
            rec.mon('M')
            if expect != 'ok':
                rec.mon('M.failed-op')
            if n_uni or (kind in ('set', 'setdefault', 'update') and not all(k.isascii() for k in m.keys())):
                rec.mon('M.uni')           # full observation of a paragraph holding non-ASCII field names
            for c in set(c for k in m.keys() for c in name_classes(k)):
                rec.mon('M.' + c)          # ... holding a name of a round-9 class (M.blank, M.blankb, M.dotted)
            if rep_names:
                rec.mon('M.repeat')         # ... of a history whose start text repeated a field in several spellings
            if emptied_by is not None:
                rec.mon('M.after-emptied')  # full observation of an object that has been emptied by a removal
                if not len(m):
                    rec.mon('M.emptied')    # ... while it has no members
            bad = observe(d, m, universe, has_dump, rec, memo)
            if bad:
                phase = label if expect == 'ok' else 'failed-%s' % label
                if stored_key_sort and bad[0] in ('key-order', 'dump', 'views'):
                    bad = (bad[0] + '/key-function-returns-the-key-object', bad[1])
                msg = ('after op #%d %r%s: %s' % (step, op, '' if expect == 'ok' else ' (rejected with %s)'
                                                 % type(raised).__name__, bad[1]))
                if expect != 'ok':
                    return (('%s/mapping-changed-%s' % (phase, bad[0]), msg, step + 1), info)
                return (('%s/%s' % (phase, bad[0]), msg, step + 1), info)

        # ---- ghosts must still be what they were
        for g, gm, gstep, gdump, grole in ghosts:
            rec.mon('M.ghost')
            if last_move > gstep:
                rec.count('ghost:other-object-re-ordered-afterwards')
                rec.mon('M.ghost.after-reorder')
            if last_emptied > gstep and len(gm):
                rec.count('bulk:ghost:%s-observed-after-other-object-emptied' % grole)
                rec.mon('M.ghost.after-emptied')
            bad = observe(g, gm, universe, gdump, rec)
            if bad:
                return (('copy-or-reparse/other-object-changed-%s' % bad[0],
                         'object left behind at op #%d %r changed afterwards: %s' % (gstep, ops[gstep], bad[1]),
                         len(ops)), info)
    except Mismatch as e:
        return ((e.key, e.msg, step + 1), info)
    except MonitorViolation as e:
        contracts.PENDING[:] = []
        kmon.reset()
        return ((e.key, 'during op #%d %r: %s' % (step, ops[step] if 0 <= step < len(ops) else 'start', e.msg),
                 step + 1), info)
    except Exception as e:
        # anything else escaping the library on a history inside the domain
        where = ops[step] if 0 <= step < len(ops) else 'construction'
        return (('%s/unexpected-%s' % (op_label(where) if isinstance(where, list) else 'start-%s' % st['kind'],
                                       type(e).__name__),
                 'op #%d %r raised %r' % (step, where, e), step + 1), info)
    return (None, info)


def shrink(case, key, budget=250):
    """Greedy witness minimisation: drop operations / start pairs as long as the
    SAME mechanism key is still reported.  Purely a convenience for the reader
    of the replay file; the verdict does not depend on it."""
    quiet = _Quiet()
    best = case
    changed = True
    while changed and budget > 0:
        changed = False
        i = len(best['ops']) - 1
        while i >= 0 and budget > 0:
            cand = dict(best)
            cand['ops'] = best['ops'][:i] + best['ops'][i + 1:]
            budget -= 1
            v, _ = execute(quiet, cand)
            if v is not None and v[0] == key:
                cand['ops'] = cand['ops'][:v[2]]
                best = cand
                changed = True
            i -= 1
        j = len(best['start']['pairs']) - 1
        while j >= 0 and budget > 0:
            cand = dict(best)
            cand['start'] = dict(best['start'])
            cand['start']['pairs'] = best['start']['pairs'][:j] + best['start']['pairs'][j + 1:]
            if not cand['start']['pairs'] and cand['start']['kind'] != 'empty':
                j -= 1
                continue
            budget -= 1
            v, _ = execute(quiet, cand)
            if v is not None and v[0] == key:
                cand['ops'] = cand['ops'][:v[2]]
                best = cand
                changed = True
            j -= 1
    best = dict(best)
    best.pop('enum', None)
    return best


def setup(ctx):
    if os.environ.get('VP_C09_NO_K'):
        # self-test switch: leave the auxiliary K monitors off to show that the deciding boundary monitor M
        # fires on its own.  Such a run can never be reported as held: the K1/K2 floors make it INCONCLUSIVE.
        ctx.extra['k_methods_wrapped'] = ['K1:off', 'K2:off']
        return
    ctx.extra['k_methods_wrapped'] = ['K1:%d' % kmon.attach_K1(), 'K2:%d' % kmon.attach_K2()]


def run_tolerated(ctx, case):
    """TOLERATED-UNSPECIFIED classes: record whether the tree treats the two spellings as one field.  Nothing here
    is a violation - not a second field, not a merged field, not an exception, not a K1/K2 report (an
    implementation may fold with lower() in one place and casefold() in another without leaving the statement's
    domain, which ends at the judged class)."""
    from debian import deb822
    a, b, tclass = case['a'], case['b'], case['class']
    kmon.reset()
    ctx.count('tolerated:probes')
    ctx.count('tolerated:%s' % tclass)
    try:
        d = getattr(deb822, case['cls'])()
        d[a] = 'v1'
        found = b in d
        d[b] = 'v2'
        n = len(d)
        outcome = ('one-field' if (found and n == 1) else 'two-fields' if (not found and n == 2) else
                   'mixed(in=%r,len=%d)' % (found, n))
        d.order_first(b)
        del d[b]
        list(d)
    except MonitorViolation as e:
        contracts.PENDING[:] = []
        kmon.reset()
        outcome = 'monitor-report:%s' % e.key
    except Exception as e:
        outcome = 'raised-%s' % type(e).__name__
    contracts.PENDING[:] = []
    ctx.count('tolerated:%s:%s' % (tclass, outcome))
    ctx.extra.setdefault('tolerated_unspecified_observed', [])
    line = '%s: %s then %s -> %s (lower() %s, casefold() %s)' % (
        tclass, ascii(a), ascii(b), outcome, 'equal' if a.lower() == b.lower() else 'differ',
        'equal' if a.casefold() == b.casefold() else 'differ')
    if line not in ctx.extra['tolerated_unspecified_observed']:
        ctx.extra['tolerated_unspecified_observed'].append(line)


def case_in_domain(case):
    """Round 9 guard.  A name holding a str.splitlines() boundary (BLANK_B) cannot come through a route that hands the
    paragraph text over as ONE str (the str is cut into lines there, by definition of "lines" of a str); such a
    history is outside the judged domain whatever the tree does with it."""
    names = [p[0] for p in case['start']['pairs']] + [k for op in case['ops'] for k in op_keys(op)]
    if not any('blankb' in name_classes(k) for k in names):
        return True
    if case['start']['kind'] in STR_START_KINDS:
        return False
    return not any(op[0] == 'cycle' and op[1] in STR_CYCLES for op in case['ops'])


def run_case(ctx, case):
    if case.get('kind') == 'repo-tests':
        from .. import repotests
        return repotests.run_repo_tests_under_monitors(ctx, ('K1', 'K2'))
    if case.get('kind') == 'tolerated':
        return run_tolerated(ctx, case)
    if not case_in_domain(case):
        ctx.count('skipped:outside-the-judged-domain')     # (a hand-written replay file; the generators never get here)
        return
    kmon.reset()
    v, info = execute(ctx, case)
    if info['variant_use'] and info['restructured']:
        ctx.nontrivial(case)
        if info['uni_variant']:
            ctx.count('uni:nontrivial')
        if info['special_variant']:
            ctx.count('special:nontrivial')
        if info['repeat']:
            ctx.count('repeat:nontrivial')
    if v is None:
        return
    key, msg, nexec = v
    small = dict(case)
    small['ops'] = case['ops'][:nexec]
    small.pop('enum', None)
    if ctx.viol_count[key] < 3:
        small = shrink(small, key)
        v2, _ = execute(_Quiet(), small)
        if v2 is not None and v2[0] == key:
            msg = v2[1]
    ctx.violation(key, msg, small)


def finish(ctx):
    contracts.flush_evals(ctx)


LEVEL_TEXT = ('Runtime monitoring: seeded operation histories (state-aware generator aiming at case-variant addressing, '
              'missing keys, self-relative re-orders, head/tail/only-element situations) plus all histories of length '
              '<= 3 (quick) / <= 4 (thorough) over an 18-operation alphabet are executed on live Deb822 / Deb822Dict '
              'objects and on a list-of-pairs reference model; the complete observable state (iteration, spellings, '
              'values through several spellings, membership, len, views, dump) is compared after every operation, '
              'failed ones included; representation invariants of LinkedList (K1) and OrderedSet (K2) are evaluated '
              'at every method boundary underneath.  Bulk / indirect removals (clear, popitem to empty, pop / del of '
              'every key, clear + update) followed by re-use of the former names in the same and in other spellings and '
              'of fresh names are driven from every start kind; objects left behind by copies are re-observed when the '
              'other object is emptied.  Held-on-observed, not a proof: reach is the generated histories.')
LEVEL_NOTE = ('Trusted: CPython (incl. its Unicode case tables), vp.models.cimap (list model), the tolerant dump reader in '
              'the module.  Domain: field names that are ASCII or consist of letters with one-to-one lower/upper pairs on '
              'which lower() and casefold() agree, widened to every set of spellings on which lower() and casefold() induce the same equivalence (dotted capital I and its longer lower-case spelling included; sharp s, dotless i, final sigma are counted, not judged), names may hold the blank-like characters the field-name grammar accepts (those that are str.splitlines() boundaries only on byte / line-list routes), values that are valid single/multi-line Deb822 values; parsed starts may repeat a field in different case spellings (read as assignments in text order: first spelling and position, last value); order_before/after(k,k) with k absent may raise either error; which member popitem() removes is not demanded.')
TECHNIQUE = ('runtime monitoring: history + executable list model at the public mapping interface (deciding monitor M, '
             'full state comparison after every operation incl. rejected ones); auxiliary contract/invariant monitors '
             'K1 (LinkedList) and K2 (OrderedSet) on every underlying call')
