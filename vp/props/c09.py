"""C09 - a Deb822 paragraph is an insertion-ordered, case-insensitive,
case-preserving mapping under ANY history of operations.

Deciding monitor M (boundary, history + executable model): every case is a
history (start state + list of operations).  Each operation is performed on the
live ``Deb822`` / ``Deb822Dict`` object and on vp.models.cimap.CIListMap (a
plain list of [key, value] pairs); after EVERY operation - including the ones
that are expected to fail - the complete observable state of the live object is
compared with the model:

  list(d) (exact spellings, order) . len(d) . d[k] through the stored spelling
  and through other case spellings . ``k in d`` and KeyError-on-lookup for every
  spelling of every name of the history's alphabet . keys()/values()/items() .
  dump() (re-read with a tiny tolerant line reader, so only names, order and
  values are demanded, not the formatting) .

Operations on a missing key must raise KeyError, re-ordering a key relative to
itself (in any spelling) must raise ValueError, and in both cases the state must
be unchanged (that is the same full comparison).  Objects left behind by
``copy`` / dump->parse are kept as "ghosts" and re-observed at the end of the
history (a copy must not share state with its original).

Auxiliary monitors K1 (LinkedList) and K2 (OrderedSet) from vp.kmon run on every
underlying call and localise a failure to the method that broke the
representation.
"""
import io
import itertools
import os

from .. import contracts, kmon
from ..core import MonitorViolation
from ..models.cimap import CIListMap

PROP = 'C09'
LEVEL = 'exploration'
RULE = ('Histories = start state (empty / dict / pair list / parsed from str, bytes, line list, iter_paragraphs / '
        'lazy _parsed) + up to 30 (quick) or 40 (thorough) operations (set, del, get, in, order_first/last/before/'
        'after, sort_fields, copy, dump->parse, pop, setdefault, update) over an alphabet in which every name has '
        '2-4 case spellings; the generator tracks the state so that keys are deliberately addressed through a '
        'spelling different from the stored one (as moved key and as reference key), deliberately missing, or '
        'self-relative; plus ALL histories of length <= 3 (quick) / <= 4 (thorough) over a fixed 18-operation '
        'alphabet from 5 start states.  A history is non-trivial when at least one operation addressed a key that '
        'was present through a spelling different from the stored one AND at least one re-order, sort or delete '
        'succeeded.')
ASSUMPTIONS = ['vp.models.cimap.CIListMap (list of pairs, ASCII lower-casing) is the reference semantics of the statement',
               'domain: ASCII field names without colon/whitespace, values that are valid Deb822 values without '
               'leading/trailing whitespace (value round-tripping itself is C02/C08)',
               'parsed start texts have case-insensitively unique field names (duplicate fields on input are outside the statement)',
               'order_before/after(k, k) with k absent may raise KeyError or ValueError',
               'sort_fields(key=f): f receives the field name and sorting is stable, as documented ("same semantics as for sorted")']
ANCHORS = ['debian.deb822:Deb822Dict.__init__',
           'debian.deb822:Deb822Dict.__setitem__',
           'debian.deb822:Deb822Dict.__getitem__',
           'debian.deb822:Deb822Dict.__delitem__',
           'debian.deb822:Deb822Dict.__contains__',
           'debian.deb822:Deb822Dict.__iter__',
           'debian.deb822:Deb822Dict.__len__',
           'debian.deb822:Deb822Dict.order_first',
           'debian.deb822:Deb822Dict.order_last',
           'debian.deb822:Deb822Dict.order_before',
           'debian.deb822:Deb822Dict.order_after',
           'debian.deb822:Deb822Dict.sort_fields',
           'debian.deb822:Deb822Dict.copy',
           'debian.deb822:Deb822._internal_parser',
           'debian.deb822:Deb822._dump_format',
           'debian._util:_CaseInsensitiveString.__hash__',
           'debian._util:_CaseInsensitiveString.__eq__',
           'debian._util:OrderedSet.add',
           'debian._util:OrderedSet.remove',
           'debian._util:OrderedSet.order_first',
           'debian._util:OrderedSet.order_last',
           'debian._util:OrderedSet.order_before',
           'debian._util:OrderedSet.order_after',
           'debian._util:OrderedSet._reorder',
           'debian._util:LinkedList.append',
           'debian._util:LinkedList.remove_node',
           'debian._util:LinkedList.insert_at_head',
           'debian._util:LinkedList.insert_node_before',
           'debian._util:LinkedList.insert_node_after',
           'debian._util:LinkedListNode.remove',
           'debian._util:LinkedListNode.link_nodes']
MUST_REACH = ['debian.deb822:Deb822Dict.__setitem__', 'debian.deb822:Deb822Dict.__getitem__',
              'debian.deb822:Deb822Dict.__delitem__', 'debian.deb822:Deb822Dict.__contains__',
              'debian.deb822:Deb822Dict.__iter__', 'debian.deb822:Deb822Dict.order_first',
              'debian.deb822:Deb822Dict.order_last', 'debian.deb822:Deb822Dict.order_before',
              'debian.deb822:Deb822Dict.order_after', 'debian.deb822:Deb822Dict.sort_fields',
              'debian.deb822:Deb822Dict.copy', 'debian._util:OrderedSet._reorder',
              'debian._util:LinkedList.remove_node', 'debian._util:_CaseInsensitiveString.__eq__']

# total numbers of RANDOM histories per tier (the enumerated part comes on top)
RANDOM_HISTORIES = {'quick': 6000, 'thorough': 300000}
MAX_OPS = {'quick': 30, 'thorough': 40}
ENUM_LEN = {'quick': 3, 'thorough': 4}

FLOORS = {
    'quick': {'nontrivial': 11500,
              'monitors': {'M': 110000, 'M.failed-op': 33000, 'M.ghost': 3000, 'K1': 145000, 'K2': 185000},
              'counters': {'reorder:item-variant': 21000, 'reorder:ref-variant': 5500,
                           'fail:reorder-missing-item': 11000, 'fail:reorder-missing-ref': 3800,
                           'fail:self-relative': 2600, 'fail:self-relative-variant': 4800,
                           'fail:del-missing': 3300, 'fail:get-missing': 300, 'fail:then-more-ops': 20000,
                           'reorder:only-element': 10000, 'del:head': 2300, 'del:tail': 1900, 'del:only': 2100,
                           'ok:sort': 4200, 'ok:copy': 1700, 'ok:cycle': 1500}},
    'thorough': {'nontrivial': 320000,
                 'monitors': {'M': 4600000, 'M.failed-op': 1400000, 'M.ghost': 200000, 'K1': 5500000, 'K2': 7000000},
                 'counters': {'reorder:item-variant': 1000000, 'reorder:ref-variant': 200000,
                              'fail:reorder-missing-item': 450000, 'fail:reorder-missing-ref': 145000,
                              'fail:self-relative': 170000, 'fail:self-relative-variant': 240000,
                              'fail:del-missing': 150000, 'fail:get-missing': 19000, 'fail:then-more-ops': 1000000,
                              'reorder:only-element': 500000, 'del:head': 90000, 'del:tail': 80000,
                              'del:only': 115000, 'ok:sort': 175000, 'ok:copy': 110000, 'ok:cycle': 98000}},
}

# ---------------------------------------------------------------------------
# alphabets: every name comes in several case spellings

NAMES = {
    'quick': [('a', 'A'), ('b', 'B'), ('c', 'C'), ('Foo', 'FOO', 'foo', 'fOO'),
              ('X-Bar', 'x-bar', 'X-BAR'), ('Zed', 'zed', 'ZED')],
    'thorough': [('a', 'A'), ('b', 'B'), ('c', 'C'), ('Foo', 'FOO', 'foo', 'fOO'),
                 ('X-Bar', 'x-bar', 'X-BAR'), ('Zed', 'zed', 'ZED'), ('d', 'D'), ('e', 'E'),
                 ('Package', 'package', 'PACKAGE', 'pACKAGE'), ('Multi-Arch', 'multi-arch', 'MULTI-ARCH'),
                 ('ab', 'AB', 'aB', 'Ab'), ('B1', 'b1')],
}

REORDERS = ('first', 'last', 'before', 'after')

PROFILES = {
    'balanced': {'set': 20, 'del': 10, 'get': 3, 'in': 2, 'first': 8, 'last': 8, 'before': 12, 'after': 12,
                 'sort': 4, 'copy': 4, 'cycle': 5, 'pop': 2, 'setdefault': 2, 'update': 2},
    'small':    {'set': 16, 'del': 24, 'get': 2, 'in': 1, 'first': 10, 'last': 10, 'before': 10, 'after': 10,
                 'sort': 3, 'copy': 3, 'cycle': 4, 'pop': 4, 'setdefault': 2, 'update': 1},
    'reorder':  {'set': 12, 'del': 6, 'get': 1, 'in': 1, 'first': 16, 'last': 16, 'before': 20, 'after': 20,
                 'sort': 3, 'copy': 2, 'cycle': 2, 'pop': 1, 'setdefault': 0, 'update': 0},
    'grow':     {'set': 40, 'del': 4, 'get': 2, 'in': 2, 'first': 8, 'last': 8, 'before': 10, 'after': 10,
                 'sort': 5, 'copy': 3, 'cycle': 4, 'pop': 1, 'setdefault': 2, 'update': 3},
}

SORT_KEYS = {
    'default': None,
    'lower': lambda s: s.lower(),
    'rev': lambda s: s.lower()[::-1],
    'len': len,                     # ties: stability
    'str': str,                     # caller chose a case-sensitive key
}
MODEL_SORT_KEYS = {
    'default': lambda s: s.lower(),
    'lower': lambda s: s.lower(),
    'rev': lambda s: s.lower()[::-1],
    'len': len,
    'str': lambda s: s,
}
CYCLES = ('str', 'bytes', 'lines', 'iter', 'fd-bytes', 'fd-text')


def _weighted(r, weights):
    tot = sum(weights.values())
    x = r.random() * tot
    for k, w in weights.items():
        x -= w
        if x < 0:
            return k
    return next(iter(weights))


def _group(names, key):
    lk = key.lower()
    for g in names:
        if g[0].lower() == lk:
            return g
    return (key, key.upper(), key.lower())


def _pick(r, m, names, want):
    """Choose a key on purpose: 'variant' = a present key in a spelling that is
    NOT the stored one, 'exact' = a present key as stored, 'absent' = a name
    that is not in the mapping, anything else = blind."""
    present = m.keys()
    if want in ('variant', 'exact') and present:
        x = r.random()
        k = present[0] if x < 0.3 else (present[-1] if x < 0.6 else r.choice(present))
        if want == 'exact':
            return k
        alts = [s for s in _group(names, k) if s != k]
        return r.choice(alts) if alts else k
    if want == 'absent':
        absent = [g for g in names if not m.has(g[0])]
        if absent:
            return r.choice(r.choice(absent))
    return r.choice(r.choice(names))


def _want(r, table):
    return _weighted(r, table)


def _value(r, n):
    x = r.random()
    if x < 0.80:
        return 'v%d' % n
    if x < 0.90:
        return 'v%d\n c%d' % (n, n)
    if x < 0.95:
        return '\n l%d\n m%d' % (n, n)
    if x < 0.98:
        return ''
    return 'v%d w%d' % (n, n)


def _apply_to_model(m, op):
    """Reference semantics of one operation on the list model.
    Returns ('ok', value) or ('KeyError'|'ValueError'|'EitherError', None)."""
    kind = op[0]
    if kind == 'set':
        m.set(op[1], op[2])
        return ('ok', None)
    if kind == 'del':
        if not m.has(op[1]):
            return ('KeyError', None)
        m.delete(op[1])
        return ('ok', None)
    if kind == 'get':
        if not m.has(op[1]):
            return ('KeyError', None)
        return ('ok', m.get(op[1]))
    if kind == 'in':
        return ('ok', m.has(op[1]))
    if kind in ('first', 'last'):
        if not m.has(op[1]):
            return ('KeyError', None)
        (m.move_first if kind == 'first' else m.move_last)(op[1])
        return ('ok', None)
    if kind in ('before', 'after'):
        k, ref = op[1], op[2]
        if k.lower() == ref.lower():
            return ('ValueError' if m.has(k) else 'EitherError', None)
        if not m.has(k) or not m.has(ref):
            return ('KeyError', None)
        m.move_relative(k, ref, after=(kind == 'after'))
        return ('ok', None)
    if kind == 'sort':
        m.sort(MODEL_SORT_KEYS[op[1]])
        return ('ok', None)
    if kind in ('copy', 'cycle'):
        return ('ok', None)
    if kind == 'pop':
        k, with_default = op[1], op[2]
        if not m.has(k):
            return ('ok', 'DEFAULT') if with_default else ('KeyError', None)
        v = m.get(k)
        m.delete(k)
        return ('ok', v)
    if kind == 'setdefault':
        if m.has(op[1]):
            return ('ok', m.get(op[1]))
        m.set(op[1], op[2])
        return ('ok', op[2])
    if kind == 'update':
        pairs = [(k, v) for k, v in op[1]]
        if op[2] == 'dict':
            pairs = list(dict(pairs).items())      # what a dict argument really contains
        for k, v in pairs:
            m.set(k, v)
        return ('ok', None)
    raise AssertionError('unknown op %r' % (op,))


# ---------------------------------------------------------------------------
# workload

def gen_start(r, names, cls):
    kinds = ({'empty': 20, 'dict': 22, 'parsed-str': 15, 'parsed-bytes': 8, 'parsed-lines': 7, 'iter': 8, 'lazy': 10}
             if cls == 'Deb822' else {'empty': 25, 'dict': 30, 'pairs': 30, 'lazy': 15})
    kind = _weighted(r, kinds)
    if kind == 'empty':
        return {'kind': 'empty', 'pairs': []}
    n = r.choice([1, 1, 2, 2, 3, 3, 4, 5, 6])
    pairs = []
    seen = set()
    dup_ok = kind in ('dict', 'pairs') and r.random() < 0.3
    for i in range(n):
        k = r.choice(r.choice(names))
        if k in seen:
            continue                          # a Python dict cannot hold the same spelling twice
        if k.lower() in set(s.lower() for s in seen) and not dup_ok:
            continue
        seen.add(k)
        pairs.append([k, _value(r, 900 + i)])
    st = {'kind': kind, 'pairs': pairs}
    if kind.startswith('parsed') or kind in ('iter', 'lazy'):
        st['sep'] = r.choice([': ', ': ', ':', ':\t', ':  '])
        st['lead'] = r.choice(['', '', '', '\n', '# comment\n', '\n\n'])
    return st


def gen_history(r, tier):
    allnames = NAMES[tier]
    names = r.sample(allnames, r.choice([1, 2, 2, 3, 3, 4, 5, min(7, len(allnames))]))
    cls = 'Deb822' if r.random() < 0.85 else 'Deb822Dict'
    start = gen_start(r, names, cls)
    m = CIListMap(start['pairs'])
    profile = PROFILES[r.choice(['balanced', 'balanced', 'small', 'reorder', 'reorder', 'grow'])]
    item_want = {'variant': 50, 'exact': 20, 'absent': 15, 'any': 15}
    set_want = {'absent': 40, 'variant': 35, 'exact': 15, 'any': 10}
    del_want = {'variant': 45, 'exact': 25, 'absent': 20, 'any': 10}
    nops = r.randint(1, MAX_OPS[tier])
    ops = []
    vid = 0
    for _ in range(nops):
        kind = _weighted(r, profile)
        if kind == 'cycle' and cls != 'Deb822':
            kind = 'copy'
        vid += 1
        if kind == 'set':
            op = ['set', _pick(r, m, names, _want(r, set_want)), _value(r, vid)]
        elif kind in ('del', 'get', 'in'):
            op = [kind, _pick(r, m, names, _want(r, del_want))]
        elif kind in ('first', 'last'):
            op = [kind, _pick(r, m, names, _want(r, item_want))]
        elif kind in ('before', 'after'):
            k = _pick(r, m, names, _want(r, item_want))
            if r.random() < 0.09:
                g = _group(names, k)
                ref = k if r.random() < 0.5 else r.choice(g)      # self-relative, same or other spelling
            else:
                ref = _pick(r, m, names, _want(r, item_want))
            op = [kind, k, ref]
        elif kind == 'sort':
            op = ['sort', _weighted(r, {'default': 55, 'lower': 10, 'rev': 15, 'len': 10, 'str': 10})]
        elif kind == 'copy':
            op = ['copy', r.choice(['copy', 'copy', 'ctor']), r.choice(['new', 'new', 'old'])]
        elif kind == 'cycle':
            op = ['cycle', r.choice(CYCLES)]
        elif kind == 'pop':
            op = ['pop', _pick(r, m, names, _want(r, del_want)), r.random() < 0.4]
        elif kind == 'setdefault':
            op = ['setdefault', _pick(r, m, names, _want(r, set_want)), _value(r, vid)]
        else:
            op = ['update', [[_pick(r, m, names, _want(r, set_want)), _value(r, vid * 100 + j)]
                             for j in range(r.randint(1, 3))], r.choice(['dict', 'pairs'])]
        ops.append(op)
        _apply_to_model(m, op)          # the generator only uses this to aim its next choice
    return {'cls': cls, 'start': start, 'ops': ops}


ENUM_OPS = [['set', 'a', None], ['set', 'A', None], ['set', 'b', None], ['set', 'c', None],
            ['del', 'A'], ['del', 'b'],
            ['first', 'A'], ['first', 'c'], ['last', 'A'], ['last', 'B'],
            ['before', 'A', 'b'], ['before', 'B', 'a'], ['before', 'c', 'A'],
            ['after', 'A', 'B'], ['after', 'b', 'A'], ['after', 'a', 'C'],
            ['sort', 'default'], ['before', 'A', 'a']]
ENUM_STARTS = [{'kind': 'empty', 'pairs': []},
               {'kind': 'dict', 'pairs': [['a', 's0']]},
               {'kind': 'dict', 'pairs': [['a', 's0'], ['b', 's1']]},
               {'kind': 'dict', 'pairs': [['B', 's0'], ['a', 's1'], ['c', 's2']]},
               {'kind': 'parsed-str', 'pairs': [['A', 's0'], ['b', 's1']], 'sep': ': ', 'lead': ''}]


def enum_cases(ctx):
    idx = 0
    for length in range(1, ENUM_LEN[ctx.tier] + 1):
        for combo in itertools.product(range(len(ENUM_OPS)), repeat=length):
            for si, st in enumerate(ENUM_STARTS):
                idx += 1
                if not ctx.mine(idx):
                    continue
                ops = []
                for pos, oi in enumerate(combo):
                    op = list(ENUM_OPS[oi])
                    if op[0] == 'set':
                        op[2] = 'v%d' % pos
                    ops.append(op)
                yield {'cls': 'Deb822', 'start': st, 'ops': ops, 'enum': True}


def cases(ctx):
    ctx.extra['exhaustive_subspaces'] = [
        'all operation sequences of length 1..%d over the %d-operation alphabet ENUM_OPS (names a/b/c addressed '
        'through a/A, b/B, c/C) from %d start states' % (ENUM_LEN[ctx.tier], len(ENUM_OPS), len(ENUM_STARTS))]
    if ctx.shard == 0:
        yield {'kind': 'repo-tests'}        # the repository's own tests under K1/K2, as one more workload
    for case in enum_cases(ctx):
        yield case
    r = ctx.rng('histories')
    for _ in range(ctx.size(RANDOM_HISTORIES['quick'], RANDOM_HISTORIES['thorough'])):
        yield gen_history(r, ctx.tier)


# ---------------------------------------------------------------------------
# observation of the live object

_MISSING = object()


def plain(s):
    """Exact character data of a (possibly subclassed) str - comparisons below
    must be case-SENSITIVE even if the library hands out its case-insensitive
    string type."""
    if type(s) is str:
        return s
    return ''.join(str.__iter__(s)) if isinstance(s, str) else s


def read_dump(text):
    """Tolerant reader for dump() output: 'Name:<blanks>first line' + continuation
    lines starting with blank.  Returns list of (name, value) or None."""
    if not isinstance(text, str):
        return None
    if text == '':
        return []
    if not text.endswith('\n'):
        return None
    out = []
    for line in text[:-1].split('\n'):
        if line[:1] in (' ', '\t'):
            if not out:
                return None
            out[-1][1] += '\n' + line
        else:
            name, colon, rest = line.partition(':')
            if not colon or not name:
                return None
            out.append([name, rest.lstrip(' \t')])
    return [(k, v) for k, v in out]


def spellings(k):
    return [k, k.lower(), k.upper(), k.swapcase()]


def observe(d, m, universe, has_dump):
    """Full comparison of the observable state with the model.
    Returns None or (aspect, message)."""
    exp_keys = m.keys()
    got_keys = [plain(k) for k in d]
    if got_keys != exp_keys:
        gl, el = [k.lower() for k in got_keys], [k.lower() for k in exp_keys]
        if gl == el:
            aspect = 'spelling'
        elif sorted(gl) == sorted(el):
            aspect = 'key-order'
        else:
            aspect = 'key-set'
        return (aspect, 'list(d)=%r, model %r' % (got_keys, exp_keys))
    if len(d) != len(exp_keys):
        return ('len', 'len(d)=%r, model has %d keys %r' % (len(d), len(exp_keys), exp_keys))
    for u in universe:
        i = m.find(u)
        if i >= 0:
            k, v = m.pairs[i]
            try:
                got = d[u]
            except KeyError:
                return ('present-key-not-found', 'd[%r] raised KeyError; model holds %r (stored as %r)' % (u, v, k))
            if plain(got) != v:
                return ('value', 'd[%r]=%r, model %r (stored as %r)' % (u, got, v, k))
            if not (u in d):
                return ('membership', '(%r in d) is False; model has it stored as %r; keys %r' % (u, k, exp_keys))
        else:
            if u in d:
                return ('membership', '(%r in d) is True, model keys %r' % (u, exp_keys))
            try:
                got = d[u]
            except KeyError:
                pass
            else:
                return ('absent-key-found', 'd[%r]=%r but the key is not in the model %r' % (u, got, exp_keys))
            if d.get(u, _MISSING) is not _MISSING:
                return ('absent-key-found', 'd.get(%r) found a value; model keys %r' % (u, exp_keys))
    items = [(plain(k), plain(v)) for k, v in d.items()]
    if items != m.items():
        return ('views', 'list(d.items())=%r, model %r' % (items, m.items()))
    if [plain(k) for k in d.keys()] != exp_keys:
        return ('views', 'list(d.keys())=%r, model %r' % (list(d.keys()), exp_keys))
    if has_dump:
        text = d.dump()
        got = read_dump(text)
        if got != m.items():
            return ('dump', 'dump()=%r reads as %r, model %r' % (text, got, m.items()))
    return None


# ---------------------------------------------------------------------------
# executing a history

def start_text(st):
    out = [st.get('lead', '')]
    for k, v in st['pairs']:
        if not v or v[0] == '\n':
            out.append('%s:%s\n' % (k, v))
        else:
            out.append('%s%s%s\n' % (k, st.get('sep', ': '), v))
    return ''.join(out)


def build_start(cls, st):
    kind = st['kind']
    pairs = [(k, v) for k, v in st['pairs']]
    if kind == 'empty':
        return cls()
    if kind == 'dict':
        return cls(dict(pairs))
    if kind == 'pairs':
        return cls(pairs)
    from debian.deb822 import Deb822
    text = start_text(st)
    if kind == 'parsed-str':
        return cls(text)
    if kind == 'parsed-bytes':
        return cls(text.encode('utf-8'))
    if kind == 'parsed-lines':
        return cls(text.splitlines(True))
    if kind == 'iter':
        paras = list(cls.iter_paragraphs(text))
        if len(paras) != 1:
            raise Mismatch('start-iter/paragraph-count', 'iter_paragraphs(%r) gave %d paragraphs' % (text, len(paras)))
        return paras[0]
    if kind == 'lazy':
        return cls(_parsed=Deb822(text))
    raise AssertionError(kind)


def reparse(cls, d, how, m):
    text = d.dump()
    if how == 'str':
        return cls(text)
    if how == 'bytes':
        return cls(text.encode('utf-8'))
    if how == 'lines':
        return cls(text.splitlines(True))
    if how == 'iter':
        paras = list(cls.iter_paragraphs(text))
        if len(m) == 0 and not paras:
            return cls()
        if len(paras) != 1:
            raise Mismatch('cycle/paragraph-count', 'iter_paragraphs(%r) gave %d paragraphs' % (text, len(paras)))
        return paras[0]
    if how == 'fd-bytes':
        fd = io.BytesIO()
        d.dump(fd)
        return cls(fd.getvalue())
    if how == 'fd-text':
        fd = io.StringIO()
        d.dump(fd, text_mode=True)
        return cls(fd.getvalue())
    raise AssertionError(how)


class Mismatch(Exception):
    def __init__(self, key, msg):
        Exception.__init__(self, msg)
        self.key = key
        self.msg = msg


class _Quiet(object):
    """Stand-in for ctx while shrinking: records nothing."""
    def count(self, *a, **k): pass
    def mon(self, *a, **k): pass


def op_keys(op):
    kind = op[0]
    if kind in ('set', 'del', 'get', 'in', 'first', 'last', 'pop', 'setdefault'):
        return [op[1]]
    if kind in ('before', 'after'):
        return [op[1], op[2]]
    if kind == 'update':
        return [p[0] for p in op[1]]
    return []


def op_label(op):
    kind = op[0]
    return {'first': 'order_first', 'last': 'order_last', 'before': 'order_before', 'after': 'order_after',
            'sort': 'sort_fields', 'cycle': 'dump-parse'}.get(kind, kind)


def classify_reorder(rec, m, op):
    """Evidence counters describing WHICH situation a re-order / delete exercises."""
    kind = op[0]
    if kind not in REORDERS and kind not in ('del', 'pop'):
        return
    k = op[1]
    keys = m.keys()
    if not m.has(k):
        return
    i = m.find(k)
    if kind in REORDERS:
        if keys[i] != k:
            rec.count('reorder:item-variant')
        if len(keys) == 1:
            rec.count('reorder:only-element')
        elif i == 0:
            rec.count('reorder:head')
        elif i == len(keys) - 1:
            rec.count('reorder:tail')
        if kind in ('before', 'after') and m.has(op[2]) and op[2].lower() != k.lower():
            j = m.find(op[2])
            if keys[j] != op[2]:
                rec.count('reorder:ref-variant')
            if j == 0:
                rec.count('reorder:ref-head')
            if j == len(keys) - 1:
                rec.count('reorder:ref-tail')
    elif kind in ('del', 'pop'):
        if keys[i] != k:
            rec.count('del:variant')
        if len(keys) == 1:
            rec.count('del:only')
        elif i == 0:
            rec.count('del:head')
        elif i == len(keys) - 1:
            rec.count('del:tail')


def execute(rec, case):
    """Run one history.  Returns (violation or None, info):
    violation = (mechanism_key, message, number_of_ops_executed)."""
    from debian import deb822
    cls = getattr(deb822, case['cls'])
    has_dump = case['cls'] == 'Deb822'
    st = case['start']
    ops = case['ops']
    info = {'variant_use': False, 'restructured': False}

    universe = []
    for k in [p[0] for p in st['pairs']] + [k for op in ops for k in op_keys(op)]:
        for sp in spellings(k):
            if sp not in universe:
                universe.append(sp)

    step = -1
    ghosts = []
    try:
        m = CIListMap(st['pairs'])
        d = build_start(cls, st)
        rec.count('start:%s' % st['kind'])
        rec.mon('M')
        bad = observe(d, m, universe, has_dump)
        if bad:
            return (('start-%s/%s' % (st['kind'], bad[0]), 'after construction: ' + bad[1], 0), info)

        for step, op in enumerate(ops):
            kind = op[0]
            label = op_label(op)
            rec.count('op:%s' % kind)
            # does this operation address a present key through a different spelling?
            for x in op_keys(op):
                if m.has(x) and m.stored(x) != x:
                    info['variant_use'] = True
            classify_reorder(rec, m, op)
            before_len = len(m)
            expect, value = _apply_to_model(m, op)

            # ---- perform on the live object
            raised = None
            result = None
            newd = None
            try:
                if kind == 'set':
                    d[op[1]] = op[2]
                elif kind == 'del':
                    del d[op[1]]
                elif kind == 'get':
                    result = d[op[1]]
                elif kind == 'in':
                    result = op[1] in d
                elif kind == 'first':
                    d.order_first(op[1])
                elif kind == 'last':
                    d.order_last(op[1])
                elif kind == 'before':
                    d.order_before(op[1], op[2])
                elif kind == 'after':
                    d.order_after(op[1], op[2])
                elif kind == 'sort':
                    f = SORT_KEYS[op[1]]
                    if f is None:
                        d.sort_fields()
                    else:
                        d.sort_fields(key=f)
                elif kind == 'copy':
                    newd = d.copy() if op[1] == 'copy' else cls(d)
                elif kind == 'cycle':
                    newd = reparse(cls, d, op[1], m)
                elif kind == 'pop':
                    result = d.pop(op[1], 'DEFAULT') if op[2] else d.pop(op[1])
                elif kind == 'setdefault':
                    result = d.setdefault(op[1], op[2])
                elif kind == 'update':
                    if op[2] == 'dict':
                        d.update(dict((k, v) for k, v in op[1]))
                    else:
                        d.update([(k, v) for k, v in op[1]])
            except Mismatch:
                raise
            except (KeyError, ValueError) as e:
                raised = e

            # ---- outcome against the reference semantics
            if expect == 'ok':
                if raised is not None:
                    return (('%s/raised-%s-on-valid-operation' % (label, type(raised).__name__),
                             'op %r raised %r; model keys before: see replay' % (op, raised), step + 1), info)
                rec.count('ok:%s' % kind)
                if kind in ('get', 'pop', 'setdefault') and plain(result) != value:
                    return (('%s/returned-wrong-value' % label, 'op %r returned %r, model %r' % (op, result, value),
                             step + 1), info)
                if kind == 'in' and result is not value:
                    return (('in/membership', '(%r in d) = %r, model %r' % (op[1], result, value), step + 1), info)
                if kind in REORDERS or kind == 'sort' or (kind in ('del', 'pop') and len(m) != before_len):
                    info['restructured'] = True
            else:
                fail_class = {'del': 'del-missing', 'get': 'get-missing', 'pop': 'pop-missing',
                              'first': 'reorder-missing-item', 'last': 'reorder-missing-item'}.get(kind)
                if kind in ('before', 'after'):
                    if expect == 'ValueError':
                        fail_class = 'self-relative' if op[1] == op[2] else 'self-relative-variant'
                    elif expect == 'EitherError':
                        fail_class = 'self-relative-absent'
                    elif not m.has(op[1]) and not m.has(op[2]):
                        fail_class = 'reorder-missing-both'
                    elif not m.has(op[1]):
                        fail_class = 'reorder-missing-item'
                    else:
                        fail_class = 'reorder-missing-ref'
                rec.count('fail:%s' % fail_class)
                if step + 1 < len(ops):
                    rec.count('fail:then-more-ops')     # the history goes on (and is observed) after the rejection
                if raised is None:
                    what = 'self-relative-reorder-not-rejected' if expect == 'ValueError' else 'missing-key-not-rejected'
                    return (('%s/%s' % (label, what), 'op %r did not raise (expected %s); list(d)=%r'
                             % (op, expect, [plain(k) for k in d]), step + 1), info)
                ok = (isinstance(raised, KeyError) if expect == 'KeyError' else
                      isinstance(raised, ValueError) if expect == 'ValueError' else True)
                if not ok:
                    return (('%s/wrong-exception-%s-instead-of-%s' % (label, type(raised).__name__, expect),
                             'op %r raised %r, expected %s' % (op, raised, expect), step + 1), info)

            # ---- copies / re-parsed objects: continue on one, keep the other as a ghost
            if newd is not None:
                keep_new = (kind == 'cycle') or op[2] == 'new'
                ghost = d if keep_new else newd
                if keep_new:
                    d = newd
                else:
                    rec.mon('M')
                    bad = observe(newd, m, universe, has_dump)      # the copy we do not continue with
                    if bad:
                        return (('%s/%s' % (label, bad[0]), 'the object returned by %r: %s' % (op, bad[1]), step + 1), info)
                ghosts.append((ghost, m.copy(), step))
                ghosts = ghosts[-4:]

            # ---- full observation after EVERY operation, failed ones included
            rec.mon('M')
            if expect != 'ok':
                rec.mon('M.failed-op')
            bad = observe(d, m, universe, has_dump)
            if bad:
                phase = label if expect == 'ok' else 'failed-%s' % label
                msg = ('after op #%d %r%s: %s' % (step, op, '' if expect == 'ok' else ' (rejected with %s)'
                                                 % type(raised).__name__, bad[1]))
                if expect != 'ok':
                    return (('%s/mapping-changed-%s' % (phase, bad[0]), msg, step + 1), info)
                return (('%s/%s' % (phase, bad[0]), msg, step + 1), info)

        # ---- ghosts must still be what they were
        for g, gm, gstep in ghosts:
            rec.mon('M.ghost')
            bad = observe(g, gm, universe, has_dump)
            if bad:
                return (('copy-or-reparse/other-object-changed-%s' % bad[0],
                         'object left behind at op #%d %r changed afterwards: %s' % (gstep, ops[gstep], bad[1]),
                         len(ops)), info)
    except Mismatch as e:
        return ((e.key, e.msg, step + 1), info)
    except MonitorViolation as e:
        contracts.PENDING[:] = []
        kmon.reset()
        return ((e.key, 'during op #%d %r: %s' % (step, ops[step] if 0 <= step < len(ops) else 'start', e.msg),
                 step + 1), info)
    except Exception as e:
        # anything else escaping the library on a history inside the domain
        where = ops[step] if 0 <= step < len(ops) else 'construction'
        return (('%s/unexpected-%s' % (op_label(where) if isinstance(where, list) else 'start-%s' % st['kind'],
                                       type(e).__name__),
                 'op #%d %r raised %r' % (step, where, e), step + 1), info)
    return (None, info)


def shrink(case, key, budget=250):
    """Greedy witness minimisation: drop operations / start pairs as long as the
    SAME mechanism key is still reported.  Purely a convenience for the reader
    of the replay file; the verdict does not depend on it."""
    quiet = _Quiet()
    best = case
    changed = True
    while changed and budget > 0:
        changed = False
        i = len(best['ops']) - 1
        while i >= 0 and budget > 0:
            cand = dict(best)
            cand['ops'] = best['ops'][:i] + best['ops'][i + 1:]
            budget -= 1
            v, _ = execute(quiet, cand)
            if v is not None and v[0] == key:
                cand['ops'] = cand['ops'][:v[2]]
                best = cand
                changed = True
            i -= 1
        j = len(best['start']['pairs']) - 1
        while j >= 0 and budget > 0:
            cand = dict(best)
            cand['start'] = dict(best['start'])
            cand['start']['pairs'] = best['start']['pairs'][:j] + best['start']['pairs'][j + 1:]
            if not cand['start']['pairs'] and cand['start']['kind'] != 'empty':
                j -= 1
                continue
            budget -= 1
            v, _ = execute(quiet, cand)
            if v is not None and v[0] == key:
                cand['ops'] = cand['ops'][:v[2]]
                best = cand
                changed = True
            j -= 1
    best = dict(best)
    best.pop('enum', None)
    return best


def setup(ctx):
    if os.environ.get('VP_C09_NO_K'):
        # self-test switch: leave the auxiliary K monitors off to show that the deciding boundary monitor M
        # fires on its own.  Such a run can never be reported as held: the K1/K2 floors make it INCONCLUSIVE.
        ctx.extra['k_methods_wrapped'] = ['K1:off', 'K2:off']
        return
    ctx.extra['k_methods_wrapped'] = ['K1:%d' % kmon.attach_K1(), 'K2:%d' % kmon.attach_K2()]


def run_case(ctx, case):
    if case.get('kind') == 'repo-tests':
        from .. import repotests
        return repotests.run_repo_tests_under_monitors(ctx, ('K1', 'K2'))
    kmon.reset()
    v, info = execute(ctx, case)
    if info['variant_use'] and info['restructured']:
        ctx.nontrivial(case)
    if v is None:
        return
    key, msg, nexec = v
    small = dict(case)
    small['ops'] = case['ops'][:nexec]
    small.pop('enum', None)
    if ctx.viol_count[key] < 3:
        small = shrink(small, key)
        v2, _ = execute(_Quiet(), small)
        if v2 is not None and v2[0] == key:
            msg = v2[1]
    ctx.violation(key, msg, small)


def finish(ctx):
    contracts.flush_evals(ctx)


LEVEL_TEXT = ('Runtime monitoring: seeded operation histories (state-aware generator aiming at case-variant addressing, '
              'missing keys, self-relative re-orders, head/tail/only-element situations) plus all histories of length '
              '<= 3 (quick) / <= 4 (thorough) over an 18-operation alphabet are executed on live Deb822 / Deb822Dict '
              'objects and on a list-of-pairs reference model; the complete observable state (iteration, spellings, '
              'values through several spellings, membership, len, views, dump) is compared after every operation, '
              'failed ones included; representation invariants of LinkedList (K1) and OrderedSet (K2) are evaluated '
              'at every method boundary underneath.  Held-on-observed, not a proof: reach is the generated histories.')
LEVEL_NOTE = ('Trusted: CPython, vp.models.cimap (list model), the tolerant dump reader in the module.  Domain: ASCII '
              'field names, values that are valid single/multi-line Deb822 values; parsed starts without duplicate '
              'fields; order_before/after(k,k) with k absent may raise either error.')
TECHNIQUE = ('runtime monitoring: history + executable list model at the public mapping interface (deciding monitor M, '
             'full state comparison after every operation incl. rejected ones); auxiliary contract/invariant monitors '
             'K1 (LinkedList) and K2 (OrderedSet) on every underlying call')
