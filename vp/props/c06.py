"""C06 - ar members are exact, isolated, file-like views of the archive.

Deciding monitor M: history + executable model.  The harness builds the archive
with its own writer (so the member table is known), opens it with the live
ArFile (shared file object, or by file name), and runs an interleaved history
of read/readline/readlines/seek/tell over several members; one io.BytesIO
shadow per member receives the same call and every result is compared.
Auxiliary K9: invariant on ArMember's private offsets after every read/readline
(a read never leaves the member; bytes returned == distance moved).
Auxiliary T: a tracing proxy under ArFile records every data-returning call on
the shared file object; bytes returned to the caller are checked to lie inside
[offset, end) of the member they were asked from.
"""
import io
import os

from .. import contracts

PROP = 'C06'
LEVEL = 'exploration'
RULE = ('Archives of 0..5 members (duplicate names, sizes 0..200 odd and even, content over a header-look-alike alphabet, '
        'with/without final newline, maximal-width header fields, GNU "name/" and bare name styles) x interleaved '
        'histories of <= 40 calls of read()/read(n)/readline()/readline(n)/readlines()/seek(p,0|1|2)/tell() across members, '
        'in fileobj= mode (BytesIO, TemporaryFile, os.fdopen, a real file whose path was unlinked / given to another archive after '
        'opening; in 15% of these the archive sits behind a preamble of 1..65537 bytes and the object is handed over positioned at the global header) and filename= mode; object lifetimes around the history: the ArFile object dropped (and collected) before the '
        'members are read, members close()d or merely dropped afterwards, one path per process rewritten with each next archive, '
        'a second ArFile on the same path whose members are read alternately with the first.  Non-trivial: >= 2 members, history touches >= 2 of them and contains a readline* '
        'or a seek followed by a read.')
ASSUMPTIONS = ['only the compared interface of the statement: read(n>=1)/read(), readline(n>=1)/readline(), readlines(), seek with '
               'non-negative targets, tell(); readline(0) (nothing) and readline(-1) (a whole line) as for any file; read(0) (documented "all"), readlines(hint), seek return values, __iter__ excluded',
               'short member names only (<= 15 bytes, no "/" inside); archives are well-formed (odd members padded)',
               'a file object handed to ArFile(fileobj=) is read from its current position (judgement call, DESIGN 6.5 round 11)',
               'member names are packed as UTF-8 bytes; the str a listing shows is those bytes decoded with the file-system encoding and '
               'surrogateescape (the documented default of ArFile), whatever the locale of the process is']
ANCHORS = ['debian.arfile:ArFile.__collect_members', 'debian.arfile:ArMember.from_file', 'debian.arfile:ArMember.read',
           'debian.arfile:ArMember.readline', 'debian.arfile:ArMember.readlines', 'debian.arfile:ArMember.seek',
           'debian.arfile:ArMember.tell', 'debian.arfile:ArFile.getmember']
MUST_REACH = ANCHORS
FLOORS = {'quick': {'nontrivial': 800, 'monitors': {'M.op': 30000, 'K9': 10000, 'M.listing': 1000, 'M.listing-again': 1000},
                    'counters': {'lookup-mid-history': 900, 'readline-size-zero-or-negative': 1200, 'sibling-members-dropped-before-reads': 700, 'fileobj-kind:tempfile': 450, 'fileobj-kind:rawio': 450, 'fileobj-kind:fdopen': 450, 'fileobj-kind:unlinked': 450, 'fileobj-kind:replaced': 450, 'fileobj:archive-at-nonzero-offset': 700, 'fileobj:archive-at-nonzero-offset:preamble-ar-look-alike': 200,
                                 'archive-object-dropped-before-reads': 2400, 'filename:members-dropped-unclosed': 1300,
                                 'filename:path_reuse': 1300, 'filename:twin': 650, 'op-through-twin': 4000}},
          'thorough': {'nontrivial': 40000, 'monitors': {'M.op': 1500000, 'K9': 500000, 'M.listing': 50000, 'M.listing-again': 50000},
                       'counters': {'lookup-mid-history': 90000, 'readline-size-zero-or-negative': 120000, 'sibling-members-dropped-before-reads': 70000, 'fileobj-kind:tempfile': 45000, 'fileobj-kind:rawio': 45000, 'fileobj-kind:fdopen': 45000, 'fileobj-kind:unlinked': 45000, 'fileobj-kind:replaced': 45000, 'fileobj:archive-at-nonzero-offset': 70000, 'fileobj:archive-at-nonzero-offset:preamble-ar-look-alike': 20000,
                                    'archive-object-dropped-before-reads': 120000, 'filename:members-dropped-unclosed': 65000,
                                    'filename:path_reuse': 65000, 'filename:twin': 32000, 'op-through-twin': 200000}}}
LEVEL_TEXT = ('Runtime monitoring: seeded interleaved operation histories on live ArMember objects, each result compared with an '
              'io.BytesIO shadow of the member data the harness itself packed; listing/metadata/getmember compared with the '
              'packed table; private-offset invariant (K9) after every read/readline.  Held-on-observed over the histories run.')
LEVEL_NOTE = 'Trusted: CPython io.BytesIO as the file model, the harness ar writer (format per ar(5)).'
TECHNIQUE = 'runtime monitoring: operation history vs io.BytesIO shadow model per member (deciding), private-offset invariant hook K9, tracing proxy on the shared file object'

ALPH = [b'a', b'b', b'\n', b'\x00', b'\xff', b'`', b'!<arch>\n', b' ', b'`\n', b'0', b'/', b'\r']
NAMES = ['a', 'b', 'debian-binary', 'control.tar.gz', 'data.tar.xz', 'x.y', 'A_1', 'fifteen-chars-x', 'sp ace', 'café', '0',
         # names that differ only by a character str.strip() takes for a blank but bytes.strip() does not
         'b\xa0', '\u3000a', 'x.y\x85', 'A_1\x1f', '\xa0']


def build_ar(members, style):
    out = [b'!<arch>\n']
    for m in members:
        name = m['name'].encode('utf-8')
        if style == 'gnu':
            name += b'/'
        data = m['data'].encode('latin-1')
        hdr = (name.ljust(16) + str(m['mtime']).encode().ljust(12) + str(m['uid']).encode().ljust(6)
               + str(m['gid']).encode().ljust(6) + b'100644  ' + str(len(data)).encode().ljust(10) + b'`\n')
        assert len(hdr) == 60, hdr
        out.append(hdr)
        out.append(data)
        if len(data) % 2:
            out.append(b'\n')
    return b''.join(out)


def gen_member(r, names):
    k = r.random()
    if k < .12:
        size = 0
    elif k < .3:
        size = r.choice([1, 2, 3])
    else:
        size = r.randint(4, 200 if r.random() < .2 else 40)
    chunks = []
    n = 0
    while n < size:
        c = r.choice(ALPH)
        chunks.append(c)
        n += len(c)
    data = b''.join(chunks)[:size]
    if size and r.random() < .4:
        data = data[:-1] + b'\n'
    wide = r.random() < .15
    return {'name': r.choice(names), 'data': data.decode('latin-1'),
            'mtime': 999999999999 if wide else r.choice([0, 1, 1700000000]),
            'uid': 999999 if wide else r.choice([0, 1000]), 'gid': 999999 if wide else r.choice([0, 100])}


def gen_ops(r, members, n):
    ops = []
    if not members:
        return ops
    pos = [0] * len(members)      # only a rough guide for choosing seek targets
    for _ in range(n):
        i = r.randrange(len(members))
        size = len(members[i]['data'])
        k = r.random()
        if k < .14:
            ops.append([i, 'read'])
        elif k < .30:
            ops.append([i, 'read', r.choice([1, 1, 2, 3, 5, 8, 64, size, size + 1, max(1, size - 1)]) or 1])
        elif k < .45:
            ops.append([i, 'readline'])
        elif k < .57:
            ops.append([i, 'readline', r.choice([1, 2, 3, 7, 50, size + 1, max(1, size), 0, -1])])
        elif k < .65:
            ops.append([i, 'readlines'])
        elif k < .78:
            ops.append([i, 'seek', r.choice([0, 0, 1, max(0, size - 1), size, size + 1, r.randint(0, size + 3)]), 0])
        elif k < .84:
            ops.append([i, 'seek', r.randint(0, 4), 1])
        elif k < .88:
            ops.append([i, 'seek_back', r.randint(1, 5)])       # seek(-min(d, tell()), 1): target stays >= 0
        elif k < .91:
            ops.append([i, 'seek', -r.randint(0, size), 2])
        elif k < .925:
            ops.append([i, 'lookup', r.choice(['getmember', 'getitem', 'getmembers', 'iter', 'getnames'])])   # listing / look-up mid-history
        elif k < .94:
            ops.append([i, 'disturb', r.randint(0, 400)])      # someone else moves the SHARED file object
        else:
            ops.append([i, 'tell'])
    return ops


def cases(ctx):
    if ctx.shard == 0:
        yield {'kind': 'repo-tests'}        # the repository's own tests under K9, as one more workload
    r = ctx.rng('hist')
    re_ = ctx.rng('embedded')
    for n in range(ctx.size(16000, 1800000)):
        nm = r.choice([0, 1, 2, 2, 3, 3, 4, 5])
        names = r.sample(NAMES, r.randint(1, len(NAMES)))
        members = [gen_member(r, names) for _ in range(nm)]
        case = {'kind': 'hist', 'members': members, 'style': r.choice(['gnu', 'bare']),
                'mode': r.choice(['fileobj', 'fileobj', 'filename']), 'ops': gen_ops(r, members, r.randint(3, 40))}
        # object lifetimes and file-name reuse (none of this is an operation of the statement; all of it is ordinary use):
        # the archive object dropped while its members are still read; members never close()d, only dropped; the same
        # path rewritten with the next archive; a second ArFile on the same path read alternately with the first
        case['drop_ar'] = r.random() < .3
        case['drop_siblings'] = case['drop_ar'] and r.random() < .5
        if case['mode'] == 'fileobj':
            case['fobj'] = r.choice(['bytesio', 'bytesio', 'bytesio', 'tempfile', 'fdopen', 'unlinked', 'replaced', 'rawio'])
        if case['mode'] == 'fileobj' and re_.random() < .15:
            # the archive does not start at byte 0 of the file object: the object is handed over positioned at the archive's
            # global header, behind a preamble (an archive inside a container file); own stream
            case['pre'] = re_.choice([1, 2, 7, 8, 59, 60, 61, 68, 511, 512, 4096, 8191, 65537])
            case['pre_kind'] = re_.choice(['text', 'zeros', 'ar-look-alike'])
        if case['mode'] == 'filename':
            case['path_reuse'] = r.random() < .5
            case['close'] = r.random() < .5
            case['twin'] = r.random() < .25
        yield case


# --------------------------------------------------------------------------
# K9

def _priv(m):
    return m._ArMember__offset, m._ArMember__end, m._ArMember__cur


def setup(ctx):
    from debian import arfile
    if os.environ.get('VP_NO_K'):      # debugging aid: boundary monitors only
        return

    def snap(self, *a, **kw):
        try:
            return _priv(self)
        except AttributeError:
            return None

    def post(old, result, self, *a, **kw):
        if old is None:
            return
        off, end, cur0 = old
        _o, _e, cur1 = _priv(self)
        if off > end:
            contracts.fail('K9/offset-after-end', 'offset %d > end %d' % (off, end))
        if cur1 > max(end, cur0):
            contracts.fail('K9/position-left-the-member', 'cur %d -> %d, member is [%d,%d)' % (cur0, cur1, off, end))
        if off <= cur0 <= end and isinstance(result, bytes) and len(result) != cur1 - cur0:
            contracts.fail('K9/bytes-returned-differ-from-distance-moved',
                           'returned %d bytes, position moved %d -> %d' % (len(result), cur0, cur1))

    contracts.wrap(arfile.ArMember, 'read', 'K9', snapshot=snap, post=post)
    contracts.wrap(arfile.ArMember, 'readline', 'K9', snapshot=snap, post=post)


def finish(ctx):
    contracts.flush_evals(ctx)


# --------------------------------------------------------------------------

_DIR = []


def run_case(ctx, case):
    from debian import arfile
    from .. import probes
    if case['kind'] == 'repo-tests':
        from .. import repotests
        return repotests.run_repo_tests_under_monitors(ctx, ('K9',))
    members, ops = case['members'], case['ops']
    raw = build_ar(members, case['style'])
    pre = b''
    if case.get('pre'):
        n = case['pre']
        unit = {'text': b'preamble line\n', 'zeros': b'\0', 'ar-look-alike': b'!<arch>\ndecoy/          0           0     0     644     4         `\nabcd'}[case.get('pre_kind', 'text')]
        pre = (unit * (n // len(unit) + 1))[:n]
        raw = pre + raw
        ctx.count('fileobj:archive-at-nonzero-offset')
        ctx.count('fileobj:archive-at-nonzero-offset:preamble-%s' % case.get('pre_kind', 'text'))
    tf = None
    path = None
    holder = {'ars': [], 'live': []}
    try:
        if case['mode'] == 'fileobj':
            # the file OBJECT is the archive: whatever name it carries (an int descriptor, a path that has meanwhile been
            # unlinked or taken by another archive) says nothing about where to read
            fk = case.get('fobj', 'bytesio')
            ctx.count('fileobj-kind:' + fk)
            if fk == 'bytesio':
                under = io.BytesIO(raw)
            elif fk == 'tempfile':
                import tempfile
                under = tempfile.TemporaryFile()
                under.write(raw)
                under.seek(0)
            else:
                if not _DIR:
                    _DIR.append(ctx.tmpdir())
                fpath = os.path.join(_DIR[0], 'fobj%d.ar' % ctx.evaluations)
                with open(fpath, 'wb') as f:
                    f.write(raw)
                if fk == 'rawio':
                    under = open(fpath, 'rb', buffering=0)          # unbuffered FileIO
                    os.unlink(fpath)
                elif fk == 'fdopen':
                    under = os.fdopen(os.open(fpath, os.O_RDONLY), 'rb')
                    os.unlink(fpath)
                else:
                    under = open(fpath, 'rb')
                    os.unlink(fpath)
                    if fk == 'replaced':
                        with open(fpath, 'wb') as f:        # another archive now lives under the name the object carries
                            f.write(build_ar([{'name': 'decoy', 'data': 'not this one\n', 'uid': 0, 'gid': 0, 'mtime': 1}], 'gnu'))
                        holder['unlink'] = fpath
            holder['under'] = under
            tf = probes.TracingFile(under)
            if pre:
                under.seek(len(pre))
                try:
                    holder['ars'].append(arfile.ArFile(fileobj=tf))
                except Exception as e:
                    ctx.violation('archive-at-nonzero-offset-of-file-object-not-read/%s' % type(e).__name__,
                                  'file object positioned at offset %d (the archive\'s global header, behind a %s preamble): ArFile(fileobj=...) raised %r'
                                  % (len(pre), case.get('pre_kind'), e), case)
                    return
            else:
                holder['ars'].append(arfile.ArFile(fileobj=tf))
        else:
            if not _DIR:
                _DIR.append(ctx.tmpdir())       # one directory per process: 'reused.ar' really is the same path every time
            d = _DIR[0]
            # a path of its own, or ONE path per process that every such case rewrites with its own archive
            path = os.path.join(d, 'reused.ar' if case.get('path_reuse') else 'c%d.ar' % ctx.evaluations)
            with open(path, 'wb') as f:
                f.write(raw)
            holder['ars'].append(arfile.ArFile(filename=path))
            if case.get('twin'):
                holder['ars'].append(arfile.ArFile(filename=path))
            for k in ('path_reuse', 'twin'):
                if case.get(k):
                    ctx.count('filename:' + k)
            ctx.count('filename:members-%s' % ('closed' if case.get('close', True) else 'dropped-unclosed'))
        _history(ctx, case, holder, members, ops, raw, tf)
    finally:
        if holder.get('under') is not None:
            try:
                holder['under'].close()
            except Exception:
                pass
        if holder.get('unlink'):
            try:
                os.unlink(holder['unlink'])
            except OSError:
                pass
        if path:
            if case.get('close', True):
                try:
                    for m in holder['live']:
                        m.close()
                except Exception:
                    pass
            holder.clear()
            if not case.get('path_reuse'):
                try:
                    os.unlink(path)
                except OSError:
                    pass


def _history(ctx, case, holder, members, ops, raw, tf):
    ar = holder['ars'][0]
    # --- listing / metadata / lookup
    ctx.mon('M.listing')
    # names are bytes in the archive; the documented default turns them into str with the file-system encoding and
    # surrogateescape (ArFile(encoding=None, errors=None)) - so the expected str follows the process's encoding
    import sys
    def shown(n):
        return n.encode('utf-8').decode(sys.getfilesystemencoding(), 'surrogateescape')
    names = [shown(m['name']) for m in members]
    if ar.getnames() != names:
        ctx.violation('listing-differs', 'getnames()=%r packed=%r' % (ar.getnames(), names))
        return
    live = ar.getmembers()
    if len(live) != len(members) or [m.name for m in ar] != names:
        ctx.violation('listing-differs', 'getmembers()/iteration disagree with packed table')
        return
    # the listing is a value, not a cursor: two iterations advanced alternately, an iteration abandoned half-way, a
    # returned list of names changed by the caller - the next listing is complete and in order all the same
    ctx.mon('M.listing-again')
    it1, it2 = iter(ar), iter(ar)
    seen1, seen2 = [], []
    for _ in range(len(members) + 1):
        for it, seen in ((it1, seen1), (it2, seen2)):
            try:
                seen.append(next(it).name)
            except StopIteration:
                pass
    half = iter(ar)
    for _ in range(len(members) // 2):
        next(half)
    del half
    # (getmembers() hands out the archive's own list, as tarfile.getmembers() does: changing THAT list is the caller
    # changing the archive object - established on the unchanged tree, not driven; the list of names is a fresh one)
    handed_names = ar.getnames()
    if len(members) % 2:
        handed_names.append('caller-added')
        handed_names.reverse()
    if seen1 != names or seen2 != names or ar.getnames() != names or [m.name for m in ar.getmembers()] != names \
            or [m.name for m in ar] != names or any(a is not b for a, b in zip(ar.getmembers(), live)):
        ctx.violation('listing-differs-after-earlier-listings', 'interleaved %r / %r, then getnames()=%r getmembers()=%r, packed %r'
                      % (seen1, seen2, ar.getnames(), [m.name for m in ar.getmembers()], names))
        return
    for m, want in zip(live, members):
        got = (m.name, m.size, m.owner, m.group, m.mtime)
        exp = (shown(want['name']), len(want['data']), want['uid'], want['gid'], want['mtime'])
        if got != exp:
            ctx.violation('metadata-differs', 'got %r want %r' % (got, exp))
            return
    for nm in set(names):
        last = max(i for i, n in enumerate(names) if n == nm)
        if ar.getmember(nm) is not live[last] or ar[nm] is not live[last]:
            ctx.violation('getmember-not-last-of-that-name', 'name %r' % nm)
            return
    try:
        ar.getmember('no-such-member')
        ctx.violation('getmember-missing-name-no-keyerror', '')
    except KeyError:
        pass
    # --- operation history against BytesIO shadows
    nm = len(members)
    twin = len(holder['ars']) > 1
    if twin:
        live = live + holder['ars'][1].getmembers()
        if len(live) != 2 * nm:
            ctx.violation('listing-differs', 'second ArFile on the same path lists %d members, packed %d' % (len(live) - nm, nm))
            return
    holder['live'] = live
    if case.get('drop_ar'):
        # the members outlive the archive object they came from
        del ar
        del holder['ars'][:]
        if case.get('drop_siblings') and not twin and nm >= 2:
            # ... and only SOME of the members are kept by the caller: the others die with the archive object
            # (m = ArFile(...).getmember(name)); the survivors still read their own bytes
            live = [m if j % 2 == 0 else None for j, m in enumerate(live)]
            holder['live'] = [m for m in live if m is not None]
            m = None
            ctx.count('sibling-members-dropped-before-reads')
        import gc
        gc.collect()
        ctx.count('archive-object-dropped-before-reads')
    shadows = [io.BytesIO(m['data'].encode('latin-1')) for m in members] * (2 if twin else 1)
    if twin:
        shadows = [io.BytesIO(m['data'].encode('latin-1')) for m in members + members]
    offsets = []
    pos = 8 + (case.get('pre') or 0)
    for m in members:
        pos += 60
        offsets.append(pos)
        pos += len(m['data']) + (len(m['data']) % 2)
    touched = set()
    has_rl = False
    seek_then_read = False
    last_was_seek = {}
    adj = ctx.extra.setdefault('op_adjacencies_observed', set())
    prev = None
    for step, op in enumerate(ops):
        i, kind = op[0], op[1]
        if prev is not None:
            adj.add('%s->%s/%s' % (prev[1], kind, 'same-member' if prev[0] == i else 'other-member'))
        prev = (i, kind)
        if twin and (step + i) % 3 == 0:
            i += nm                 # the same member through the second ArFile on that path
            ctx.count('op-through-twin')
        m, sh = live[i], shadows[i]
        if m is None:
            continue                # that member was dropped by the caller
        touched.add(i % nm)
        ctx.count('op:' + kind)
        ctx.mon('M.op')
        before = sh.tell()
        if kind == 'read':
            got, want = (m.read(), sh.read()) if len(op) == 2 else (m.read(op[2]), sh.read(op[2]))
            seek_then_read = seek_then_read or last_was_seek.get(i, False)
        elif kind == 'readline':
            got, want = (m.readline(), sh.readline()) if len(op) == 2 else (m.readline(op[2]), sh.readline(op[2]))
            if len(op) > 2 and op[2] <= 0:
                ctx.count('readline-size-zero-or-negative')
            has_rl = True
            seek_then_read = seek_then_read or last_was_seek.get(i, False)
        elif kind == 'readlines':
            got, want = m.readlines(), sh.readlines()
            has_rl = True
        elif kind == 'seek':
            m.seek(op[2], op[3])
            sh.seek(op[2], op[3])
            got = want = None
        elif kind == 'seek_back':
            d = min(op[2], sh.tell())
            m.seek(-d, 1)
            sh.seek(-d, 1)
            got = want = None
        elif kind == 'lookup':
            # looking a member up again, or listing the archive, is no operation ON a member: no position moves
            a0 = holder['ars'][0] if holder.get('ars') else None
            if a0 is not None and not twin:
                ctx.count('lookup-mid-history')
                nm_ = members[i % nm]['name']
                if op[2] == 'getmember':
                    a0.getmember(shown(nm_))
                elif op[2] == 'getitem':
                    a0[shown(nm_)]
                elif op[2] == 'getmembers':
                    a0.getmembers()
                elif op[2] == 'iter':
                    list(a0)
                else:
                    a0.getnames()
                for j, (mm, ss) in enumerate(zip(live, shadows)):
                    if mm is not None and mm.tell() != ss.tell():
                        ctx.violation('position-moved-by-listing-or-lookup', 'step %d %r: member %d tell()=%d, model %d'
                                      % (step, op, j, mm.tell(), ss.tell()))
                        return
            got = want = None
        elif kind == 'disturb':
            if tf is not None:
                tf.seek(min(op[2], len(raw)))
            got = want = None
        elif kind == 'tell':
            got, want = m.tell(), sh.tell()
        else:
            raise ValueError(kind)
        last_was_seek[i] = kind in ('seek', 'seek_back')
        if got != want:
            size = len(members[i % nm]['data'])
            flat = b''.join(got) if isinstance(got, list) else got
            if isinstance(flat, bytes) and before + len(flat) > max(size, before) :
                key = 'returns-bytes-outside-member'
            else:
                key = '%s-differs-from-in-memory-file' % kind
            ctx.violation(key, 'step %d op %r on member %d (size %d, pos before %d): got %r want %r'
                          % (step, op, i, size, before, got, want))
            return
        # T: what was handed out is exactly the archive bytes of that member at that position
        if isinstance(got, bytes) and got:
            a = offsets[i % nm] + before
            if raw[a:a + len(got)] != got or before + len(got) > len(members[i % nm]['data']):
                ctx.violation('returns-bytes-outside-member', 'step %d op %r' % (step, op))
                return
        mt, st = m.tell(), sh.tell()
        if mt != st:
            ctx.violation('position-differs-after-%s' % kind, 'step %d op %r on member %d: tell()=%d model=%d'
                          % (step, op, i, mt, st))
            return
    if tf is not None:
        ctx.count('T.fileobj-data-calls', len(tf.log))
    if len(members) >= 2 and len(touched) >= 2 and (has_rl or seek_then_read):
        ctx.nontrivial()
