"""C07 - DebFile returns exactly what was packed; malformed packages are rejected
with DebError.

Deciding monitor M (boundary oracle = the packing model):

* ``pkg`` cases: the harness assembles a .deb itself (vp.models.arwriter for
  the ar container, stdlib tarfile + gzip/bz2/lzma for the two tarballs, tar
  members named ``./name`` as dpkg does) from a description that is the model:
  ordered control fields, a subset of the five maintainer scripts, an md5sums
  list, 0..7 data files with binary content.  It then drives the real
  ``DebFile`` (``fileobj=`` or ``filename=`` mode) through ``debcontrol()``,
  ``scripts()``, ``md5sums()`` (bytes and text keys), and
  ``data.has_file / get_content / get_file / in / []`` under the three
  spellings ``name``, ``./name``, ``/name`` - in a shuffled, interleaved order so
  that the two parts compete for the shared file object - and compares every
  answer with the description.
* ``set`` cases: member-name sequences (the 11 part names, duplicates, ``_``
  distractors) are written with tiny valid tarballs behind every name; the
  acceptance predicate ``debian-binary present AND exactly one distinct
  control.tar[.ext] AND exactly one distinct data.tar[.ext]`` decides whether
  ``DebFile(...)`` must succeed (and then serve the standard control/data
  content) or must raise ``DebError`` (nothing else).
* line-boundary look-alikes (``brk`` class): a share of the packages carries
  control values with VT FF FS GS RS NEL U+2028 U+2029 in the MIDDLE of a value
  line (first line or continuation line).  The control member is bytes and the
  format knows LF only, so the character is ordinary content: ``debcontrol()``
  must give the packed value back verbatim and ``control.get_content('control')``
  must give the packed bytes / the packed text (``encoding='utf-8'``).
* second use (``reuse`` class): ``debcontrol()``, ``scripts()``, ``md5sums()`` are called again - through
  ``deb.X()`` and through ``deb.control.X()`` - on the same DebFile, interleaved with the data-part reads; the
  harness, playing the caller, changes the objects it got back (sets / deletes / adds fields of the Deb822, adds /
  deletes / replaces keys of the dicts, ``clear()``) before calling again.  Every call is compared with the packing
  description, whatever happened to earlier results.
* file names at the edge of the name domain (``edge`` class): '..' as a SUBSTRING of a component ('a..b',
  'notes...', 'etc../x', 'a/..b'), leading-dot components ('...', '..a'), blanks - as data files AND as extra
  members of the control part; has_file / in / get_content / get_file / [] under the three spellings, iteration,
  and never-packed neighbours of such names ('a.b' next to 'a..b').
* encoder variants of the parts (``var`` class): "gz/bz2/xz/lzma-compressed" and "uncompressed" name FORMATS, not one
  byte pattern per format.  Three of four parts are therefore written with non-default but valid encoder parameters
  (VARIANTS, ~110 of them): legacy .lzma streams with other lc/lp/pb, dictionary sizes, presets 0..9 / extreme and
  a header that states the uncompressed size; .xz with check NONE/CRC32/CRC64/SHA256, presets, delta / BCJ filter
  chains, other LZMA2 properties and several concatenated streams (incl. an empty one); gzip members written by hand
  (levels 0..9, deflate strategies, small window, MTIME / FNAME / FCOMMENT / FEXTRA / FHCRC / FTEXT / OS / XFL) and
  by the stdlib, several members per file; bzip2 levels 1..9 and several streams; plain tar as GNU / PAX / USTAR
  with tarfile's record padding or the minimal two-block end.  All queries are judged exactly as for any other
  package.  The set cases carry the same variants behind their part members.  zstd: the library has no zstd part
  name, so there is nothing to write.
* look-alike part names (``look`` class, set cases): members whose name LOOKS like a control / data part but is none
  of the 5 + 5 names of the statement - control.tar.zst, data.tar.lz4, control.tar.Z, data.tar.7z, control.tgz,
  data.tar.GZ, data.tar.gz.bak, Control.tar.gz, control.tar., ... (LOOK_CTRL / LOOK_DATA).  A set in which such a
  member stands where a required part should be lacks that part: ``DebFile(...)`` must raise ``DebError`` - at
  construction (check_set only ever constructs; an object that comes back is the violation, whatever it does when it
  is asked later).  Every look-alike name, every member order.
* file objects with a minimal interface (``fobj`` class): ``DebFile(fileobj=...)`` is given an object that offers
  read / seek / tell and nothing else, the same plus readline, an object with the file methods but none of the
  attributes seekable / readable / name / closed / mode, and a read-only ``mmap.mmap`` of a real file.  Such a package
  is driven through exactly the same queries and judged by exactly the same comparisons as with BytesIO; in addition
  ``ArFile(fileobj=<same kind>)`` must list the written members and give their bytes back.
* close, then use again (``close`` class): 45% of the packages carry 1..3 close steps BETWEEN their shuffled queries:
  ``deb.close()``, ``deb.control.close()``, ``deb.data.close()``, both parts, ``close()`` twice, and
  ``with deb: <some of the queries>`` (DebFile is the only class of the two modules with ``__enter__/__exit__`` on
  the unchanged tree).  The same object is asked again afterwards; every answer after the step is judged exactly as
  the answers before it (against the packing description, so "after == before").  fileobj= (BytesIO and the four
  minimal kinds) and filename=, every compression of both parts.
* several readers alive at once (``multi`` cases): 2 or 3 DebFile objects on DIFFERENT packages (own control
  fields, scripts, md5sums, data files; same or different part compressions; all fileobj=, all filename= or mixed),
  or two readers on the SAME package (same path for filename=), are constructed one after the other, all kept
  alive, and asked alternately in bursts of 1..9 queries (reader 1 is asked either only after reader 2 exists, or a
  little before and then again after); readers that are done are closed and dropped while the others are still
  being asked.  Each reader is a full package history (second use, close steps, edge names ...) judged against ITS
  OWN packing description.
"""
import bz2
import gzip
import hashlib
import io
import itertools
import json
import lzma
import os
import random
import shutil
import struct
import subprocess
import sys
import tarfile
import zlib

from ..models import arwriter

try:
    import mmap as _mmap
except ImportError:         # pragma: no cover - not on this box
    _mmap = None

PROP = 'C07'
LEVEL = 'exploration'
RULE = ('Packages are generated from a seeded description (control fields incl. multi-line and UTF-8 values, any '
        'subset of the 5 maintainer scripts, distractor control members, 0..7 data files with binary content whose '
        'names contain spaces, leading dots, sub-directories, long and non-ASCII components; optional directory and '
        'symlink entries; GNU/PAX/ustar tar; every (control x data) compression pair of {none,gz,bz2,xz,lzma}; '
        'permuted ar member order, bare / GNU "name/" ar name style, extreme header fields, fileobj= and filename= '
        'mode).  A package case is non-trivial when it has >= 1 data file and >= 1 maintainer script.  Defective / '
        'acceptable member sets are enumerated (all name sequences of length <= 3 over the 11 part names; every '
        'set with <= 2 control and <= 2 data candidates in all orders) plus seeded larger multisets with duplicates '
        'and "_" distractors; they are counted by monitor M.accept, not as non-trivial cases.  Line-boundary '
        'look-alike class (counters brk:*, monitors M.brk.*): ~18% of the packages get 1..3 of the characters VT '
        'FF FS GS RS NEL U+2028 U+2029 (str.splitlines() boundaries that bytes.splitlines() and deb822 do not know) '
        'inserted in the middle of control value lines - first line of single- and multi-line values and '
        'continuation lines incl. the last line of a control file without final newline - each directly followed '
        'by a blank or a tab; such packages are judged like any other (debcontrol() == packed fields, '
        'control.get_content as bytes and as utf-8 text == packed control file; the text form is asked of every '
        'package under the three spellings).  A further ~4% carry the character in a TIGHT placement (next '
        'character not a blank); for those the unchanged tree raises ValueError from debcontrol() and that outcome is '
        'tolerated and counted (brk:tight:*), any value that IS returned must still be the packed one.  '
        'Second-use class (counters reuse:*, monitors M.reuse, M.reuse.after-mutation, M.held): ~65% of the packages '
        'carry 1..5 further debcontrol() / scripts() / md5sums(bytes|text) calls, each through deb.X() or '
        'deb.control.X(), shuffled among all other queries (so data-part reads lie between them); ~60% of those calls '
        'are followed by 1..3 caller-side changes of the returned object (set / delete / add a field or key, clear()); '
        'after the shuffled part every such family is called once more through BOTH routes.  Every call - 1st, 2nd, '
        'n-th, before or after a caller-side change - must equal the packing description; results the caller kept '
        'unchanged are compared once more at the end.  Name-edge class (counters edge:*, monitors M.edge.data, '
        'M.edge.control, M.iter): a fixed list of ~50 names (EDGE) with ".." as a substring of a component (a..b, notes..., '
        'etc../x, a/..b, a../..b, "changes 1.0..1.1"), leading-dot components (..., ..a, .hidden) and blanks is cycled '
        'through the packages (every name in every shard) and drawn at random, as data files and as extra members of '
        'the CONTROL part; control-part members are queried like data files (has_file / in / get_content / get_file / '
        '[] under name, ./name, /name); both parts are iterated (every packed file must be listed, nothing that was '
        'not packed may be listed, a listed file name must be found and readable under exactly the listed spelling); '
        'never-packed neighbours of the edge names (".." collapsed, dots stripped / added, blanks removed) must be '
        'reported absent under the three spellings.  '
        'Encoder-variant class (counters var:<part>:<variant>, var-head:*, set:with-encoder-variants*, monitors M.var.pkg, '
        'M.var.query, M.var.accepted-served): for each part independently, three of four packages that store the part '
        'with a given compression have it written with the next of that compression\'s non-default encoder variants '
        '(per-shard round robin over VARIANTS: @VARIANTS@), the fourth with the encoder defaults as before; '
        'lzma: presets 0-9, 2e, 9e, eight lc/lp/pb triples, dictionary sizes 4 KiB .. 3 MiB incl. 2^n+2^(n-1), match '
        'finders, header with known uncompressed size; xz: the four integrity checks, presets 0-5, 9, 3e, 9e, delta and '
        'x86/arm/armthumb/powerpc/ia64/sparc BCJ filters alone and chained (up to 4 filters), LZMA2 lc/lp/pb and '
        'dictionary sizes, 2 and 3 concatenated streams with mixed checks/filters, an empty stream first / last; gz: '
        'hand-written members with deflate levels 0-9, strategies fixed/huffman/rle/filtered, 512-byte window, MTIME, '
        'FNAME (ASCII and latin-1), FCOMMENT, FEXTRA, FHCRC, FTEXT, all of them, OS and XFL bytes, stdlib gzip.compress '
        'and GzipFile(filename=, mtime=), 2 and 3 members, an empty member first / last; bz2: levels 1-9, 2 and 3 '
        'streams; uncompressed: GNU / PAX / USTAR tar with the 10240-byte record padding or the minimal 1024-byte end.  '
        'Each variant must be written for the control part and for the data part at least its floor (else '
        'INCONCLUSIVE); a variant that the stdlib decoder of its format does not give back is given up (counted '
        'var-given-up:*, reaches no floor).  Every third member-set case has its part members written with such '
        'variants (light ones).  All queries of a package are judged as before; M.var.query counts those made on a '
        'package with at least one variant part.  '
        'Look-alike class (set cases; counters look:*, monitors M.look, M.look.must-reject, M.look.replaced-part): '
        '@NLOOK@ member names that look like a control / data part without being one of the ten names of the statement '
        '(other compressors: .tar.zst .tar.zstd .tar.lz .tar.lz4 .tar.lzo .tar.Z .tar.z .tar.7z .tar.br .zip; short forms '
        '.tgz .txz .tbz2; other case: .tar.GZ .tar.XZ .tar.Bz2 .tar.LZMA .TAR .Tar.gz Control.tar.gz CONTROL.TAR.GZ; '
        'backup / edited forms: .tar.gz~ .tar.gz.1 .tar.gz.bak .tar.xz.orig .tar.gz. "tar .gz" .tar..gz .tar-gz .tar_xz; near '
        'misses: .tar. .tar.tar .tar.g .tar.bz .tar.lzm .tar.x .tar.gzip .tar.bzip2 .tar.gzz .ta xcontrol.tar.gz '
        'controls.tar.gz control.gz control).  Enumerated in ALL member orders: debian-binary + look-alike + the other part '
        'in each of its five spellings (class replaced); both parts replaced; two look-alikes where one part should be; '
        'replaced plus a "_" distractor / plus a repeated member; the look-alike next to the real part in an otherwise '
        'complete set; part names followed by a blank or tab (GNU ar style "control.tar.gz /"); look-alikes of '
        'debian-binary; plus seeded larger sets.  Behind a look-alike name lies a real tarball in the compression its '
        'name hints at, or the magic number of the hinted format.  The archives are opened through BytesIO, filename= and '
        'the four minimal-interface objects in rotation.  Every look-alike name must have stood in must-reject sets at '
        'least its floor, else INCONCLUSIVE.  '
        'Minimal-interface class (counters fobj:<kind>:<part>:<compression>, open:<kind>; monitors M.fobj.pkg, M.fobj.query, '
        'M.fobj.ar, M.fobj.set): 40% of the fileobj= packages are read from one of: an object with read/seek/tell only, '
        'one with read/seek/tell/readline only, one with the usual file methods but without seekable / readable / name / '
        'closed / mode / fileno, a read-only mmap.mmap of a real file.  All queries of such a package (debcontrol, scripts, '
        'md5sums in both encodings, has_file / in / get_content / get_file / [] incl. text mode, iteration, second use) are '
        'made and judged exactly as for a BytesIO package; afterwards ArFile(fileobj=<same kind of object>) must list the '
        'members written and return their bytes.  Every kind must meet every compression of the control part and of the '
        'data part at least its floor, else INCONCLUSIVE.  '
        'Close-then-use-again class (counters close:*, monitors M.close, M.close.query): 45% of the packages (of every '
        'way of opening) carry 1..3 close steps at seeded positions among their shuffled queries (start, end, anywhere, '
        'mostly the middle): deb.close(), deb.control.close(), deb.data.close(), data.close()+control.close(), '
        'deb.close() twice, and `with deb:` around the next 0..12 queries; the same DebFile is then asked the rest of '
        'its queries (incl. the second-use calls through both routes).  M.close.query counts the queries judged on an '
        'object AFTER such a step; they are judged by the same comparisons as before the step.  Every compression of '
        'the control part and of the data part must have met a close step in fileobj= form and in filename= form at '
        'least its floor (close:<form>:<part>:<compression>), else INCONCLUSIVE.  '
        'Several-readers class (case kind multi; counters multi:*, monitors M.multi, M.multi.query): cases with 2 (70%) '
        'or 3 (30%) DebFile objects alive at once: different packages (own seeded description each; part compressions '
        'equal in all readers or drawn anew per reader, so readers share part names in some cases and not in others), or '
        '(15%) the same package twice (same bytes; same path under filename=; other query order); 30% all filename=, 25% '
        'all fileobj= (BytesIO / minimal kinds), rest as drawn.  Reader 1 is constructed first and asked 0 (3 of 7 '
        'cases) or 1..25 queries, then the other readers are constructed, then a seeded schedule advances one reader at '
        'a time by 1..burst steps (burst 1..9), always switching to another reader; a reader whose queries are all made '
        'is, with probability 1/2, closed and dropped at once while the others go on, otherwise at the end in seeded '
        'order.  M.multi.query counts the queries judged while at least one OTHER DebFile object was alive; every answer '
        'is compared with the packing description of the reader\'s own package.  A multi case is non-trivial when every '
        'package in it has >= 1 data file and >= 1 script.')
ASSUMPTIONS = [
    'vp.models.arwriter writes a well-formed ar archive (checked against `ar t` / dpkg-deb in the thorough tier when installed)',
    'stdlib tarfile/gzip/bz2/lzma produce valid tarballs; tar members are written with the ./ prefix (dpkg convention, the form the reader documents)',
    'a repeated identical part name is one candidate (never a reason to demand rejection); for archives with repeated members whose distinct set is acceptable either acceptance (then the content must be served) or DebError is tolerated',
    'members whose name starts with "_" are never candidates and never make a package unacceptable (dpkg ignores them)',
    'control values stay inside the unambiguous deb822 subset (no trailing blanks, continuation lines start with a blank or tab, no CR); md5sums names do not start with whitespace',
    'VT FF FS GS RS NEL U+2028 U+2029 occur in control values only strictly inside a value line (a non-blank character somewhere before and after it on the same line, never first or last character of the line body): at the edges the reader strips them like blanks, which the statement does not decide',
    'such a character is JUDGED only when the next character is a blank or a tab - that is what the unchanged tree returns verbatim (confirmed for all 8 characters, first/continuation/last-unterminated line, one or several per line).  When the next character is not a blank (also two such characters in a row) the unchanged tree raises ValueError from Deb822.validate_input (its own str.splitlines() check) out of debcontrol(): tolerated (counted brk:tight:debcontrol-raised-ValueError), never demanded; a value that is returned instead must equal the packed one; control.get_content (bytes and text) is demanded for both placements',
    'control.get_content(name, encoding="utf-8") is compared with the utf-8 decoding of the packed control file; valid because no CR is generated in control files (text mode translates CR/CRLF)',
    'non-ASCII file names are generated only when tarfile.ENCODING and the filesystem encoding are utf-8',
    'domain excludes truncated/corrupt ar or tar bytes: "structurally defective" = the member-name set only',
    'an object returned by debcontrol()/scripts()/md5sums() belongs to the caller: the harness changes it only through its public mapping interface (item assignment with a plain one-line value, del, clear()) and never demands anything of the changed object itself; what is demanded is that EVERY call reports the packed content.  Whether two calls return the same or distinct objects is counted (reuse:*:same-object-as-earlier / fresh-object), never judged on its own',
    'a result the caller kept WITHOUT changing it must still equal the packed content at the end of the case (a correct reader has no reason to touch an object it handed out); a kept result that the caller DID change is never looked at again',
    'for a tight line-boundary placement where debcontrol() raises ValueError there is no returned object: nothing is changed, nothing is kept, the call still counts as a call',
    'edge names stay inside the name domain of the statement: no empty, "." or ".." COMPONENT, no leading "/" or "./", first character not a blank, only LF-free printable ASCII; ".." occurs only as part of a longer component',
    'iteration (__iter__) is judged modulo the three documented spellings and modulo directory / symlink / root entries: each packed regular file must be listed at least once, every listed name must be a packed file, directory, symlink or the root; the spelling that is listed must be accepted by has_file/get_content of the same part.  Order and multiplicity are not judged',
    'control-part extra members with sub-directories (etc..d/x) are written without directory entries; maintainer scripts / md5sums / control keep their standard names',
    'encoder variants: "gz / bz2 / xz / lzma-compressed" is read as "any valid file of that format": every variant is what the format\'s own tool chain can write (gzip header fields and several members per RFC 1952; several bzip2 / xz streams in one file as bzip2 -c a b / xz -c a b produce; xz checks and filter chains of the .xz specification; .lzma headers with any lc/lp/pb with lc+lp<=4, dictionary sizes of the form 2^n or 2^n+2^(n-1), unknown or known uncompressed size).  No variant is a damaged or truncated stream',
    'generator guard: a variant is used only if the stdlib decoder of its format (gzip.GzipFile / bz2.BZ2File / lzma.LZMAFile / tarfile mode r:), applied directly to the part bytes without python-debian, returns exactly the tar bytes (all tar entries for uncompressed parts); otherwise the part is written with the encoder defaults and counted var-given-up:* (so it reaches no floor).  What CPython itself cannot read is thereby never demanded of the library: xz stream padding between concatenated streams and dictionary sizes above 64 MiB are not generated at all',
    'in the thorough tier every variant is additionally decoded by the installed gzip / bzip2 / xz / xz --format=lzma / tar, and every single-stream variant is put into a package read by dpkg-deb (generator sanity: a disagreement makes the run inconclusive, never a violation; tool not installed = skipped).  Multi-stream parts are not shown to dpkg-deb (it decodes one stream per part); they are within the statement as read above',
    'zstd parts are not generated: debfile.PART_EXTS of the library has no zst entry, so the statement\'s list (none/gz/bz2/xz/lzma) is the whole supported set here',
    'tar:ustar variants are assigned only to parts whose names and link targets are <= 90 bytes (the next variant of the round robin is taken otherwise); "min-eof" ends the archive with exactly two zero blocks (tar -b1), which POSIX defines as the end-of-archive marker',
    'a member-set case with encoder variants is judged by the same acceptance predicate; variants only change the bytes behind the part names',
    'look-alike names: the candidates of a part are the five names the statement lists (part.tar, .gz, .bz2, .xz, .lzma) - the list is fixed in the harness, not read from debfile.PART_EXTS of the tree under observation.  zstd: neither the statement nor the unchanged tree (PART_EXTS has no zst entry; tarfile of this Python cannot read zstd) supports it, so control.tar.zst / data.tar.zst are look-alikes here.  Established on the unchanged tree for every listed name, every member order, bare and GNU ar name style: a set whose only control (data) member is a look-alike raises DebError("missing required part ...") from DebFile.__init__; that - the error at construction - is what is demanded',
    'look-alike names are limited to what an ar short name can hold (16 bytes; 15 in the GNU style): control.tar.gz.bak (18) cannot be written without a long-name table, which is outside the statement - data.tar.gz.bak, control.tar.gz~ and control.tar.gz.1 stand for that family',
    'a COMPLETE set (debian-binary, one supported control name, one supported data name) that carries a look-alike member in addition is not decided by the statement (dpkg-deb gives up on unknown members, the unchanged tree ignores them): acceptance (then the standard content must be served from the real parts) and DebError are both tolerated, any other exception is a violation (counted look:either-outcome-tolerated:*)',
    'a part name followed by a blank or tab exists only in the GNU ar style ("control.tar.gz /"); the unchanged tree reads it as the supported name (arfile strips the 16-byte name field, and in the bare style the bytes are identical to the supported name anyway).  Such a set is demanded to be rejected only when it is defective both with the name as written and with the name stripped; otherwise either outcome is tolerated, an accepted object must serve the standard content',
    'debian-binary look-alikes (Debian-binary, debian_binary, debian-binary~ ...) in place of debian-binary: the set lacks debian-binary and must be rejected with DebError (unchanged tree: established)',
    'minimal-interface objects: what the unchanged tree calls on fileobj= is read(n), seek(pos) / seek(off, 1) and tell() (ArFile.__collect_members, ArMember.from_file, ArMember.read) plus its truth value (`elif self.__fileobj:`); all four object kinds are truthy and were established to serve every query for all 25 compression pairs on the unchanged tree.  The wrappers have the standard signatures read(size=-1), seek(offset, whence=0) -> new position, tell(); mmap.seek returns None on this Python, which the unchanged tree never looks at',
    'ArMember.readline / readlines of the container layer are NOT exercised on minimal objects (they need readline(size) of the underlying object, which read/seek/tell objects do not have and mmap spells differently); the ArFile check uses getnames(), getmembers() and member.read() only',
    'mmap kind: the package is written to a temporary file, mapped ACCESS_READ, and unmapped after the DebFile was closed; where the mmap module is missing the kind (and its floors) do not exist',
    'close-then-use-again: the statement does not mention close(); what is judged is what the unchanged tree was established to support (probe over all 25 compression pairs x BytesIO / filename= / the four minimal kinds x every kind of close step, 0 disagreements): after deb.close(), deb.control.close(), deb.data.close(), a second close() and after leaving `with deb:` the same object answers every query exactly as before (fileobj=: close() leaves the caller\'s file object alone; filename=: the member re-opens the file at the position it had).  Demanded: the step itself does not raise, and the answers after it equal the packing description (= the answers before it).  NOT demanded: anything of a file handle obtained from get_file() BEFORE the step and read after it (works on the unchanged tree, but a reader that invalidates handles on close() would be correct too); anything after the file named by filename= was removed or changed; the state of the caller\'s file object (closed or not) after close()',
    'context manager: only DebFile has __enter__/__exit__ on the unchanged tree (DebPart, ArFile, ArMember have not), so `with` is used on the DebFile only; the value bound by `with deb as x` is not looked at (the unchanged tree returns the object itself); queries inside the block go to `deb`',
    'several readers: each reader gets its own file object / its own path (two readers on the same package under filename= read the same path, which exists until the last of them is done); one file object is never shared between two DebFile objects (the second constructor would start reading where the first one left the position - outside the statement); everything happens in one thread, a reader is never asked while another one is inside a call',
    'several readers: the container-layer check ArFile(fileobj=<minimal kind>) is not repeated for the readers of a multi case',
]
ANCHORS = ['debian.debfile:DebFile.__init__',
           'debian.debfile:DebPart.tgz',
           'debian.debfile:DebPart.__normalize_member',
           'debian.debfile:DebPart.has_file',
           'debian.debfile:DebPart.get_file',
           'debian.debfile:DebPart.get_content',
           'debian.debfile:DebControl.debcontrol',
           'debian.debfile:DebControl.scripts',
           'debian.debfile:DebControl.md5sums',
           'debian.arfile:ArFile.__collect_members',
           'debian.arfile:ArFile.getmember',
           'debian.arfile:ArMember.from_file',
           'debian.arfile:ArMember.read',
           'debian.arfile:ArMember.seek']
MUST_REACH = ['debian.debfile:DebFile.__init__', 'debian.debfile:DebPart.tgz', 'debian.debfile:DebPart.has_file',
              'debian.debfile:DebPart.get_content', 'debian.debfile:DebControl.debcontrol',
              'debian.debfile:DebControl.scripts', 'debian.debfile:DebControl.md5sums']

PKGS = {'quick': 2000, 'thorough': 120000}          # TOTAL package cases per tier
RANDOM_SETS = {'quick': 2000, 'thorough': 200000}   # TOTAL seeded larger member multisets per tier
LOOK_SETS = {'quick': 600, 'thorough': 42000}       # TOTAL seeded member sets with look-alike part names per tier
MULTI = {'quick': 200, 'thorough': 9000}            # TOTAL cases with 2..3 DebFile objects alive at once per tier

FLOORS = {   # ~50% of what a run on the unchanged tree measures (quick: min over seeds 0-3; thorough: seed 0)
    'quick': {'nontrivial': 800,
              'monitors': {'M.pkg': 1000, 'M.query': 70000, 'M.accept': 10000, 'M.reject': 9000, 'M.accepted-served': 400,
                           'M.brk.fields': 500, 'M.brk.bytes': 600, 'M.brk.text': 600,
                           'M.reuse': 4500, 'M.reuse.after-mutation': 2600, 'M.held': 5900,
                           'M.edge.data': 17500, 'M.edge.control': 6200, 'M.iter': 2000},
              'counters': {'set:sibling-decides:plain-first': 300, 'set:sibling-decides:compressed-first': 300,
                           'name:leading-dot': 900, 'name:leading-dot-first-component': 400, 'name:space': 900,
                           'name:subdir': 2000, 'open:filename': 600, 'ar-style:gnu': 3000,
                           # line-boundary look-alike class (workload-only counters: they do not depend on what
                           # the library answers, so a repaired tight placement can never make a run inconclusive)
                           'brk:pkg:judged': 180, 'brk:pkg:tight': 35, 'brk:place:then-blank': 350,
                           'brk:line:single-line': 170, 'brk:line:first-of-multi-line': 40,
                           'brk:line:continuation': 180, 'brk:line:last-without-final-newline': 10,
                           'brk:char:VT': 40, 'brk:char:FF': 40, 'brk:char:FS': 40, 'brk:char:GS': 40,
                           'brk:char:RS': 40, 'brk:char:NEL': 40, 'brk:char:LS': 40, 'brk:char:PS': 40,
                           'ctltext:get_content': 900, 'ctltext:get_file.read': 900,
                           'ctltext:get_file.readlines-joined': 900,
                           # second-use class (workload counters: calls planned and made, caller-side changes applied)
                           'reuse:pkg': 630, 'reuse:pkg:with-caller-change': 540,
                           'reuse:control:call-2': 440, 'reuse:control:call-3+': 1190, 'reuse:control:after-caller-change': 950,
                           'reuse:scripts:call-2': 270, 'reuse:scripts:call-3+': 630, 'reuse:scripts:after-caller-change': 520,
                           'reuse:md5:call-2': 590, 'reuse:md5:call-3+': 1360, 'reuse:md5:after-caller-change': 1120,
                           'reuse:route:deb': 2600, 'reuse:route:part': 1890,
                           'reuse:mut:set': 750, 'reuse:mut:del': 540, 'reuse:mut:add': 660, 'reuse:mut:clear': 210,
                           # name-edge class
                           'edge:data:dotdot-substring': 880, 'edge:data:dotdot-before-slash': 210,
                           'edge:data:dotdot-after-slash': 300, 'edge:data:dotdot-first': 280, 'edge:data:dotdot-last': 210,
                           'edge:data:listed-name': 1100,
                           'edge:control:dotdot-substring': 510, 'edge:control:dotdot-before-slash': 110,
                           'edge:control:dotdot-after-slash': 145, 'edge:control:dotdot-first': 145,
                           'edge:control:dotdot-last': 140, 'edge:control:leading-dot': 380, 'edge:control:space': 520,
                           'edge:control:trailing-dot': 270, 'edge:control:listed-name': 770,
                           'iter:fed-back': 5400, 'absent:control': 1750, 'absent:data': 8800}},
    'thorough': {'nontrivial': 45000,
                 'monitors': {'M.pkg': 60000, 'M.query': 4200000, 'M.accept': 100000, 'M.reject': 70000,
                              'M.accepted-served': 35000,
                              'M.brk.fields': 35000, 'M.brk.bytes': 39000, 'M.brk.text': 39000,
                              'M.reuse': 280000, 'M.reuse.after-mutation': 164000, 'M.held': 360000,
                              'M.edge.data': 1080000, 'M.edge.control': 375000, 'M.iter': 120000},
                 'counters': {'set:sibling-decides:plain-first': 7000, 'set:sibling-decides:compressed-first': 7000,
                              'name:leading-dot': 60000, 'name:leading-dot-first-component': 30000, 'name:space': 60000,
                              'name:subdir': 130000, 'open:filename': 18000, 'ar-style:gnu': 55000,
                              'brk:pkg:judged': 10500, 'brk:pkg:tight': 2400, 'brk:place:then-blank': 21500,
                              'brk:line:single-line': 10500, 'brk:line:first-of-multi-line': 2700,
                              'brk:line:continuation': 11000, 'brk:line:last-without-final-newline': 700,
                              'brk:char:VT': 3000, 'brk:char:FF': 3000, 'brk:char:FS': 3000, 'brk:char:GS': 3000,
                              'brk:char:RS': 3000, 'brk:char:NEL': 3000, 'brk:char:LS': 3000, 'brk:char:PS': 3000,
                              'ctltext:get_content': 59000, 'ctltext:get_file.read': 59000,
                              'ctltext:get_file.readlines-joined': 59000,
                              'reuse:pkg': 39000, 'reuse:pkg:with-caller-change': 33900,
                              'reuse:control:call-2': 28000, 'reuse:control:call-3+': 74900,
                              'reuse:control:after-caller-change': 62000,
                              'reuse:scripts:call-2': 18000, 'reuse:scripts:call-3+': 41400,
                              'reuse:scripts:after-caller-change': 33800,
                              'reuse:md5:call-2': 36000, 'reuse:md5:call-3+': 83000, 'reuse:md5:after-caller-change': 68000,
                              'reuse:route:deb': 164000, 'reuse:route:part': 117000,
                              'reuse:mut:set': 48000, 'reuse:mut:del': 34000, 'reuse:mut:add': 41000, 'reuse:mut:clear': 13800,
                              'edge:data:dotdot-substring': 54000, 'edge:data:dotdot-before-slash': 12800,
                              'edge:data:dotdot-after-slash': 19800, 'edge:data:dotdot-first': 17000,
                              'edge:data:dotdot-last': 13900, 'edge:data:listed-name': 68000,
                              'edge:control:dotdot-substring': 31000, 'edge:control:dotdot-before-slash': 7000,
                              'edge:control:dotdot-after-slash': 9000, 'edge:control:dotdot-first': 8900,
                              'edge:control:dotdot-last': 8900, 'edge:control:leading-dot': 23000,
                              'edge:control:space': 31000, 'edge:control:trailing-dot': 16900,
                              'edge:control:listed-name': 46000,
                              'iter:fed-back': 330000, 'absent:control': 106000, 'absent:data': 530000}},
}

COMP = ['', 'gz', 'bz2', 'xz', 'lzma']
INFO = 'debian-binary'


def part_name(base, comp):
    return base + '.tar' + ('.' + comp if comp else '')


CTRL_NAMES = [part_name('control', c) for c in COMP]
DATA_NAMES = [part_name('data', c) for c in COMP]
PARTS11 = [INFO] + CTRL_NAMES + DATA_NAMES
DISTRACTORS = ['_gpgorigin', '_data.tar.gz', '_control.tar', '_debian-binary', '_x']
SCRIPTS = ['preinst', 'postinst', 'prerm', 'postrm', 'config']
UNICODE_OK = (tarfile.ENCODING == 'utf-8' and sys.getfilesystemencoding() == 'utf-8')


# --- look-alike part names: members whose name LOOKS like a control / data part but is none of the 5 + 5 names the
# statement (and debfile.PART_EXTS of the unchanged tree) knows.  The list is static on purpose: it is the statement's
# list that decides, not whatever PART_EXTS says on the tree under observation.
LOOK_SUFFIXES = ['.tar.zst', '.tar.zstd', '.tar.lz', '.tar.lz4', '.tar.Z', '.tar.z', '.tar.7z', '.tgz', '.txz', '.tbz2',
                 '.tar.GZ', '.tar.XZ', '.tar.Bz2', '.tar.LZMA', '.tar.gz~', '.tar.gz.1', '.tar.gz.bak', '.tar.xz.orig',
                 '.tar.gzip', '.tar.bzip2', '.tar.', '.tar.tar', '.tar.g', '.tar.bz', '.tar.lzm', '.tar.x', '.tar .gz',
                 '.tar..gz', '.tar-gz', '.tar_xz', '.tar.gz.', '.tar.gz,', '.zip', '.TAR', '.Tar.gz', '.tar.gzz', '.tar.xzz',
                 '.ta', '.tar.lzo', '.tar.br']


def _look_names(base):
    out = [base + sfx for sfx in LOOK_SUFFIXES] + [base.capitalize() + '.tar.gz', base.upper() + '.TAR.GZ',
                                                   base.capitalize() + '.tar', 'x' + base + '.tar.gz', base + 's.tar.gz',
                                                   base + '-tar.gz', base + '.gz', base]
    # an ar short name holds 16 bytes ('control.tar.gz.bak' does not exist as a short name; 'data.tar.gz.bak' does)
    return [n for n in out if arwriter.fits(n, 'bare')]


LOOK_CTRL = _look_names('control')
LOOK_DATA = _look_names('data')
LOOKALIKES = LOOK_CTRL + LOOK_DATA
RULE = RULE.replace('@NLOOK@', str(len(LOOKALIKES)))
# a supported part name followed by a blank (tab): cannot be told from the supported name in the bare ar style (names
# are blank padded); written in the GNU style ("control.tar.gz /") where the blank is in front of the terminator.
# The unchanged tree reads the supported name (arfile strips the name field) - either outcome is tolerated.
LOOK_BLANK = [n + b for n in CTRL_NAMES + DATA_NAMES for b in (' ', '\t', '  ') if len(n + b) <= 15]
LOOK_MAGIC = [('zst', False, b'\x28\xb5\x2f\xfd\x24\x00'), ('.lz4', True, b'\x04\x22\x4d\x18\x64\x40'),
              ('.lzo', True, b'\x89LZO\x00\r\n\x1a\n'), ('.lz', True, b'LZIP\x01\x0c'),
              ('.7z', True, b'7z\xbc\xaf\x27\x1c\x00\x04'), ('.zip', True, b'PK\x03\x04\x14\x00'),
              ('.br', True, b'\xce\xb2\xcf\x81'), ('.z', True, b'\x1f\x9d\x90')]


def is_blank_name(n):
    return n != n.strip()


def look_part(n):
    """'control' / 'data' for a look-alike (or blank-suffixed) name, else None"""
    if n in PARTS11 or n.startswith('_'):
        return None
    low = n.strip().lower()
    if 'control' in low:
        return 'control'
    if 'data' in low:
        return 'data'
    return None


def look_blob(name):
    """what lies behind a look-alike name: a real tarball of the standard content in the compression the name hints
    at when the stdlib can write it (so that a reader which lets the name through would find a readable part), else
    the magic number of the hinted format followed by filler"""
    part = look_part(name) or 'data'
    low = name.strip().lower()
    std = part + '.tar'
    for hint, at_end, blob in LOOK_MAGIC:
        if low.endswith(hint) if at_end else hint in low:
            return blob + bytes(range(256)) * 2
    for hint, comp in (('gz', 'gz'), ('xz', 'xz'), ('bz', 'bz2'), ('lzm', 'lzma')):
        if hint in low:
            return std_blob(std + '.' + comp)
    return std_blob(std)
TARFMT = {'gnu': tarfile.GNU_FORMAT, 'pax': tarfile.PAX_FORMAT, 'ustar': tarfile.USTAR_FORMAT}


# ---------------------------------------------------------------------------
# packing model -> bytes

def compress(kind, raw, level=1):
    if kind == '':
        return raw
    if kind == 'gz':
        return gzip.compress(raw, compresslevel=max(1, min(9, level)), mtime=0)
    if kind == 'bz2':
        return bz2.compress(raw, max(1, min(9, level)))
    if kind == 'xz':
        return lzma.compress(raw, format=lzma.FORMAT_XZ, preset=min(level, 6))
    if kind == 'lzma':
        return lzma.compress(raw, format=lzma.FORMAT_ALONE, preset=min(level, 6))
    raise ValueError(kind)


# --- encoder-parameter variants of the parts ---------------------------------------------------------------------
# A variant is a JSON dict {'id': label, ...parameters}; encode_variant() interprets the parameters generically, so
# a hand-written replay may carry any combination.  Every variant is a VALID stream of its format (what gzip / bzip2
# / xz / xz --format=lzma / tar write when asked for other than their defaults); nothing here is a corrupt stream.

GZ_STRATEGY = {'default': zlib.Z_DEFAULT_STRATEGY, 'filtered': zlib.Z_FILTERED, 'huffman': zlib.Z_HUFFMAN_ONLY,
               'rle': zlib.Z_RLE, 'fixed': zlib.Z_FIXED}
XZ_CHECK = {'none': lzma.CHECK_NONE, 'crc32': lzma.CHECK_CRC32, 'crc64': lzma.CHECK_CRC64, 'sha256': lzma.CHECK_SHA256}
XZ_FILTER = {'lzma1': lzma.FILTER_LZMA1, 'lzma2': lzma.FILTER_LZMA2, 'delta': lzma.FILTER_DELTA, 'x86': lzma.FILTER_X86,
             'arm': lzma.FILTER_ARM, 'armthumb': lzma.FILTER_ARMTHUMB, 'powerpc': lzma.FILTER_POWERPC,
             'ia64': lzma.FILTER_IA64, 'sparc': lzma.FILTER_SPARC}
LZMA_MF = {'hc3': lzma.MF_HC3, 'hc4': lzma.MF_HC4, 'bt2': lzma.MF_BT2, 'bt3': lzma.MF_BT3, 'bt4': lzma.MF_BT4}
LZMA_MODE = {'fast': lzma.MODE_FAST, 'normal': lzma.MODE_NORMAL}


def gz_member(data, v):
    """One gzip member (RFC 1952) written by hand around a raw deflate stream: every header field is a parameter."""
    level = v.get('level', 6)
    co = zlib.compressobj(level, zlib.DEFLATED, -v.get('wbits', 15), v.get('memlevel', 8),
                          GZ_STRATEGY[v.get('strategy', 'default')])
    body = co.compress(data) + co.flush()
    flg, opt = 0, b''
    if v.get('ftext'):
        flg |= 1
    if v.get('fextra') is not None:
        x = v['fextra'].encode('latin-1')
        flg |= 4
        opt += struct.pack('<H', len(x)) + x
    if v.get('fname') is not None:
        flg |= 8
        opt += v['fname'].encode('latin-1') + b'\0'
    if v.get('fcomment') is not None:
        flg |= 16
        opt += v['fcomment'].encode('latin-1') + b'\0'
    if v.get('fhcrc'):
        flg |= 2
    xfl = v.get('xfl', 2 if level == 9 else 4 if level == 1 else 0)
    hdr = b'\x1f\x8b\x08' + bytes([flg]) + struct.pack('<L', v.get('mtime', 0)) + bytes([xfl, v.get('os', 3)]) + opt
    if v.get('fhcrc'):
        hdr += struct.pack('<H', zlib.crc32(hdr) & 0xffff)
    return hdr + body + struct.pack('<LL', zlib.crc32(data) & 0xffffffff, len(data) & 0xffffffff)


def lzma_filters(specs):
    out = []
    for f in specs:
        d = {'id': XZ_FILTER[f['f']]}
        for k in ('dict_size', 'lc', 'lp', 'pb', 'nice_len', 'depth', 'dist', 'start_offset'):
            if k in f:
                d[k] = f[k]
        if 'preset' in f:
            d['preset'] = f['preset'] | (lzma.PRESET_EXTREME if f.get('extreme') else 0)
        if 'mf' in f:
            d['mf'] = LZMA_MF[f['mf']]
        if 'mode' in f:
            d['mode'] = LZMA_MODE[f['mode']]
        out.append(d)
    return out


def encode_piece(kind, data, v):
    if kind == 'gz':
        if v.get('stdlib') == 'compress':
            return gzip.compress(data, compresslevel=v.get('level', 9), mtime=v.get('mtime', 0))
        if v.get('stdlib') == 'GzipFile':       # what `gzip file` leaves behind: original name and mtime in the header
            buf = io.BytesIO()
            with gzip.GzipFile(filename=v.get('fname', 'data.tar'), mode='wb', compresslevel=v.get('level', 9),
                               fileobj=buf, mtime=v.get('mtime', 0)) as g:
                g.write(data)
            return buf.getvalue()
        return gz_member(data, v)
    if kind == 'bz2':
        return bz2.compress(data, v.get('level', 9))
    preset = v.get('preset', 6) | (lzma.PRESET_EXTREME if v.get('extreme') else 0)
    if kind == 'xz':
        check = XZ_CHECK[v.get('check', 'crc64')]
        if v.get('filters'):
            return lzma.compress(data, format=lzma.FORMAT_XZ, check=check, filters=lzma_filters(v['filters']))
        return lzma.compress(data, format=lzma.FORMAT_XZ, check=check, preset=preset)
    if kind == 'lzma':
        if v.get('filters'):
            blob = lzma.compress(data, format=lzma.FORMAT_ALONE, filters=lzma_filters(v['filters']))
        else:
            blob = lzma.compress(data, format=lzma.FORMAT_ALONE, preset=preset)
        if v.get('known_size'):     # header states the uncompressed size (LZMA SDK style) instead of "unknown" (-1)
            blob = blob[:5] + struct.pack('<Q', len(data)) + blob[13:]
        return blob
    raise ValueError(kind)


def encode_variant(kind, raw, v):
    """tar bytes -> part bytes under variant v.  'cuts' (permille positions) split the tar into pieces that become
    separate gzip members / bzip2 streams / xz streams, concatenated; 'per' = per-piece parameter overrides."""
    if kind == '':
        return raw
    pts = [0] + [len(raw) * c // 1000 for c in v.get('cuts', [])] + [len(raw)]
    per = v.get('per') or []
    out = []
    for i in range(len(pts) - 1):
        pv = dict(v)
        if per:
            pv.update(per[i % len(per)])
        out.append(encode_piece(kind, raw[pts[i]:pts[i + 1]], pv))
    return b''.join(out)


def decodes_back(kind, blob, raw, nentries):
    """Guard of the GENERATOR: does the stdlib decoder of this format, applied directly to the part bytes (no
    python-debian involved), give the tar bytes back?  Only then is the variant used."""
    try:
        if kind == 'gz':
            return gzip.GzipFile(fileobj=io.BytesIO(blob)).read() == raw
        if kind == 'bz2':
            return bz2.BZ2File(io.BytesIO(blob)).read() == raw
        if kind in ('xz', 'lzma'):
            return lzma.LZMAFile(io.BytesIO(blob)).read() == raw
        with tarfile.open(fileobj=io.BytesIO(blob), mode='r:') as t:
            return len(t.getmembers()) == nentries
    except Exception:       # noqa - any failure means: do not use this variant
        return False


def build_part(comp, entries, fmt, level, v):
    """-> (part bytes, id of the encoder variant used or None, id of a variant that had to be given up or None)"""
    given_up = None
    if v:
        try:
            tar = mktar(entries, v.get('tar', fmt), eof=v.get('eof'))
            blob = encode_variant(comp, tar, v)
            if decodes_back(comp, blob, tar, len(entries)):
                return blob, v.get('id', 'unnamed'), None
        except Exception:   # noqa - encoder of this Python refuses the parameters: fall back to its defaults
            pass
        given_up = v.get('id', 'unnamed')
    return compress(comp, mktar(entries, fmt), level), None, given_up


def _v(vid, **kw):
    d = {'id': vid}
    d.update(kw)
    return d


def _lz(kind, **kw):
    d = {'f': kind}
    d.update(kw)
    return d


def make_variants():
    V = {}
    V[''] = [_v('tar:gnu', tar='gnu'), _v('tar:pax', tar='pax'), _v('tar:ustar', tar='ustar'),
             _v('tar:gnu/min-eof', tar='gnu', eof='min'), _v('tar:pax/min-eof', tar='pax', eof='min'),
             _v('tar:ustar/min-eof', tar='ustar', eof='min')]
    gz = [_v('gz:level-%d' % l, level=l) for l in range(10)]
    gz += [_v('gz:strategy-%s' % s, level=6, strategy=s) for s in ('fixed', 'huffman', 'rle', 'filtered')]
    gz += [_v('gz:window-512-memlevel-1', level=9, wbits=9, memlevel=1),
           _v('gz:mtime', level=6, mtime=1700000000), _v('gz:mtime-max', level=6, mtime=0xffffffff),
           _v('gz:fname', level=6, fname='data.tar', mtime=1234567890),
           _v('gz:fname-latin1', level=6, fname='d\xe4ta archive.tar'),
           _v('gz:fcomment', level=6, fcomment='built by hand'),
           _v('gz:fextra', level=6, fextra='AP\x04\x00abcd'),
           _v('gz:fhcrc', level=6, fhcrc=1), _v('gz:ftext', level=6, ftext=1),
           _v('gz:all-header-fields', level=9, ftext=1, fhcrc=1, fextra='zz\x02\x00\x00\xff', fname='control.tar',
              fcomment='c', mtime=999999999, os=0),
           _v('gz:os-fat', level=6, os=0), _v('gz:os-unknown', level=6, os=255),
           _v('gz:xfl-0-at-level-9', level=9, xfl=0),
           _v('gz:stdlib-compress-9-mtime', stdlib='compress', level=9, mtime=1600000000),
           _v('gz:stdlib-compress-1', stdlib='compress', level=1),
           _v('gz:stdlib-GzipFile-name-mtime', stdlib='GzipFile', fname='data.tar', level=6, mtime=1500000000),
           _v('gz:members-2', level=6, cuts=[400]),
           _v('gz:members-3-mixed', level=6, cuts=[10, 600], per=[{'level': 1}, {'level': 9, 'fname': 'part2'}, {'level': 0}]),
           _v('gz:members-empty-first', level=6, cuts=[0]), _v('gz:members-empty-last', level=6, cuts=[1000]),
           _v('gz:members-2-at-block', level=1, cuts=[512 * 1000 // 10240])]
    V['gz'] = gz
    V['bz2'] = [_v('bz2:level-%d' % l, level=l) for l in range(1, 10)] + \
               [_v('bz2:streams-2', level=9, cuts=[300]),
                _v('bz2:streams-3-mixed', level=5, cuts=[50, 500], per=[{'level': 1}, {'level': 9}, {'level': 5}])]
    xz = [_v('xz:check-%s' % c, check=c, preset=1) for c in ('none', 'crc32', 'crc64', 'sha256')
          if lzma.is_check_supported(XZ_CHECK[c])]
    xz += [_v('xz:preset-%d' % p, preset=p) for p in (0, 2, 3, 4, 5, 9)]      # 7, 8: as costly as 9, same container bytes
    xz += [_v('xz:preset-3e', preset=3, extreme=1), _v('xz:preset-9e', preset=9, extreme=1)]
    xz += [_v('xz:delta-1', filters=[_lz('delta', dist=1), _lz('lzma2', preset=1)]),
           _v('xz:delta-256', filters=[_lz('delta', dist=256), _lz('lzma2', preset=6)])]
    xz += [_v('xz:bcj-%s' % b, filters=[_lz(b), _lz('lzma2', preset=1)])
           for b in ('x86', 'arm', 'armthumb', 'powerpc', 'ia64', 'sparc')]
    xz += [_v('xz:delta+x86', filters=[_lz('delta', dist=4), _lz('x86'), _lz('lzma2', preset=0)]),
           _v('xz:x86+delta+sha256', check='sha256' if lzma.is_check_supported(lzma.CHECK_SHA256) else 'crc32',
              filters=[_lz('x86', start_offset=16), _lz('delta', dist=2), _lz('lzma2', preset=2)]),
           _v('xz:arm+powerpc+delta', filters=[_lz('arm'), _lz('powerpc'), _lz('delta', dist=16), _lz('lzma2', preset=1)]),
           _v('xz:lzma2-lc0-lp2-pb0', filters=[_lz('lzma2', preset=1, lc=0, lp=2, pb=0)]),
           _v('xz:lzma2-lc4-lp0-pb0', filters=[_lz('lzma2', preset=1, lc=4, lp=0, pb=0)]),
           _v('xz:lzma2-lc0-lp4-pb4', filters=[_lz('lzma2', preset=1, lc=0, lp=4, pb=4)]),
           _v('xz:lzma2-dict-4096', filters=[_lz('lzma2', preset=0, dict_size=4096)]),
           _v('xz:lzma2-dict-1.5MiB', filters=[_lz('lzma2', preset=1, dict_size=(1 << 20) + (1 << 19))]),
           _v('xz:streams-2', preset=1, cuts=[350]),
           _v('xz:streams-3-mixed', preset=1, cuts=[20, 700],
              per=[{'check': 'none'}, {'check': 'crc32', 'preset': 0}, {'filters': [_lz('delta', dist=1), _lz('lzma2', preset=1)]}]),
           _v('xz:streams-empty-first', preset=1, cuts=[0]), _v('xz:streams-empty-last', preset=1, cuts=[1000])]
    V['xz'] = xz
    lz = [_v('lzma:preset-%d' % p, preset=p) for p in range(10)]
    lz += [_v('lzma:preset-2e', preset=2, extreme=1), _v('lzma:preset-9e', preset=9, extreme=1)]
    lz += [_v('lzma:lc%d-lp%d-pb%d' % (lc, lp, pb), filters=[_lz('lzma1', preset=1, lc=lc, lp=lp, pb=pb)])
           for lc, lp, pb in ((4, 0, 0), (0, 0, 0), (0, 4, 4), (1, 3, 1), (3, 1, 0), (3, 0, 4), (2, 2, 2), (0, 0, 2))]
    lz += [_v('lzma:dict-4096', filters=[_lz('lzma1', preset=1, dict_size=4096)]),
           _v('lzma:dict-6144', filters=[_lz('lzma1', preset=1, dict_size=5000)]),
           _v('lzma:dict-64KiB-bt2', filters=[_lz('lzma1', dict_size=1 << 16, mf='bt2', nice_len=273, depth=10)]),
           _v('lzma:dict-1.5MiB-hc3-fast', filters=[_lz('lzma1', dict_size=(1 << 20) + (1 << 19), mf='hc3', mode='fast')]),
           _v('lzma:dict-3MiB-lc4-pb0', filters=[_lz('lzma1', preset=3, dict_size=3 << 20, lc=4, lp=0, pb=0)]),
           _v('lzma:known-size', preset=1, known_size=1),
           _v('lzma:known-size-lc0-lp0-pb0', known_size=1, filters=[_lz('lzma1', preset=0, lc=0, lp=0, pb=0)])]
    V['lzma'] = lz
    return V


VARIANTS = make_variants()
N_VARIANTS = sum(len(l) for l in VARIANTS.values())
VARIANTS_TEXT = '%d variants - %s' % (N_VARIANTS, ', '.join('%s %d' % (c or 'tar', len(l)) for c, l in sorted(VARIANTS.items())))
RULE = RULE.replace('@VARIANTS@', VARIANTS_TEXT)


def is_heavy(v):
    """presets >= 7 make the encoder clear a 16..64 MiB hash table (35..60 ms per part): kept out of the set cases"""
    if v.get('preset', 0) >= 7:
        return True
    return any(f.get('preset', 0) >= 7 or f.get('dict_size', 0) >= (1 << 24) for f in v.get('filters', []))


LIGHT_VARIANTS = dict((c, [v for v in l if not is_heavy(v)]) for c, l in VARIANTS.items())

# Floors of the encoder-variant class: EVERY (compression, variant) must have been written - and not given up by the
# generator guard - for the control part AND for the data part, else the run is inconclusive.  The round robin makes
# the counts of one compression equal up to +-2, so one floor per compression (about 50% of the measured minimum over
# its variants; quick: min over seeds 0-3, thorough: seed 0).
VAR_FLOOR = {'quick': {'': 20, 'gz': 4, 'bz2': 12, 'xz': 4, 'lzma': 5},
             'thorough': {'': 1400, 'gz': 250, 'bz2': 800, 'xz': 280, 'lzma': 330}}
VAR_FLOOR_OTHER = {
    'quick': {'monitors': {'M.var.pkg': 930, 'M.var.query': 66000, 'M.var.accepted-served': 140},
              'counters': {'var:control:any': 750, 'var:data:any': 750, 'var:control:encoder-defaults': 240,
                           'var:data:encoder-defaults': 240, 'set:with-encoder-variants': 3300,
                           'set:with-encoder-variants:acceptable': 140, 'set:with-encoder-variants:defective': 3200}},
    'thorough': {'monitors': {'M.var.pkg': 56000, 'M.var.query': 3990000, 'M.var.accepted-served': 12000},
                 'counters': {'var:control:any': 45000, 'var:data:any': 45000, 'var:control:encoder-defaults': 14900,
                              'var:data:encoder-defaults': 14900, 'set:with-encoder-variants': 36000,
                              'set:with-encoder-variants:acceptable': 12000, 'set:with-encoder-variants:defective': 24000}},
}
for _tier in ('quick', 'thorough'):
    for _comp, _lst in VARIANTS.items():
        for _var in _lst:
            for _part in ('control', 'data'):
                FLOORS[_tier]['counters']['var:%s:%s' % (_part, _var['id'])] = VAR_FLOOR[_tier][_comp]
    FLOORS[_tier]['monitors'].update(VAR_FLOOR_OTHER[_tier]['monitors'])
    FLOORS[_tier]['counters'].update(VAR_FLOOR_OTHER[_tier]['counters'])


# Floors of the look-alike class and of the minimal-interface class (quick: ~50% of the minimum over seeds 0-3; thorough:
# ~50% of seed 0).  EVERY look-alike name must have stood in a set that had to be rejected, every object kind must
# have met every compression of both parts.
LOOK_FLOOR = {
    'quick': {'monitors': {'M.look': 3600, 'M.look.must-reject': 2900, 'M.look.replaced-part': 2500},
              'name': 35,
              'counters': {'look:class:replaced': 1390, 'look:class:both-replaced': 270, 'look:class:two-look-alikes': 370,
                           'look:class:next-to-real-part': 560, 'look:class:replaced+distractor': 370,
                           'look:class:replaced+repeated-member': 270, 'look:class:blank-suffixed': 88,
                           'look:class:info-look-alike': 27, 'look:class:seeded': 270,
                           'look:replaced:control': 1250, 'look:replaced:data': 1300,
                           'look:replaced:first-member:look-alike': 890, 'look:replaced:last-member:look-alike': 890,
                           'look:replaced:open:fileobj': 1400, 'look:replaced:open:filename': 240,
                           'look:must-reject:blank-suffixed-name': 22, 'look:must-reject:debian-binary-look-alike': 27}},
    'thorough': {'monitors': {'M.look': 24000, 'M.look.must-reject': 20000, 'M.look.replaced-part': 15000},
                 'name': 270,
                 'counters': {'look:class:replaced': 1390, 'look:class:both-replaced': 270, 'look:class:two-look-alikes': 370,
                              'look:class:next-to-real-part': 560, 'look:class:replaced+distractor': 370,
                              'look:class:replaced+repeated-member': 270, 'look:class:blank-suffixed': 88,
                              'look:class:info-look-alike': 27, 'look:class:seeded': 21000,
                              'look:replaced:control': 7400, 'look:replaced:data': 7500,
                              'look:replaced:first-member:look-alike': 5500, 'look:replaced:last-member:look-alike': 5500,
                              'look:replaced:open:fileobj': 8200, 'look:replaced:open:filename': 1370,
                              'look:must-reject:blank-suffixed-name': 22, 'look:must-reject:debian-binary-look-alike': 1770}},
}
FOBJ_FLOOR = {
    'quick': {'monitors': {'M.fobj.pkg': 280, 'M.fobj.query': 20000, 'M.fobj.ar': 280, 'M.fobj.set': 1300},
              'per-kind-part-compression': 8, 'open': 400, 'look:replaced:open': 220},
    'thorough': {'monitors': {'M.fobj.pkg': 17900, 'M.fobj.query': 1270000, 'M.fobj.ar': 17900, 'M.fobj.set': 8800},
                 'per-kind-part-compression': 850, 'open': 6600, 'look:replaced:open': 1340},
}


# Floors of the close-then-use-again class and of the several-readers class (quick: ~50% of the minimum over seeds 0-3;
# thorough: ~50% of seed 0).  A run that never closes an object in mid-history, never asks one afterwards, or never has
# two DebFile objects alive at once is INCONCLUSIVE.  Every compression of both parts must have met a close step in
# fileobj= form and in filename= form.
CLOSE_FLOOR = {
    'quick': {'monitors': {'M.close': 950, 'M.close.query': 24000},
              'per-form-part-compression': {'fileobj': 115, 'filename': 38},
              'counters': {'close:pkg': 550, 'close:pkg:filename': 155, 'close:pkg:fileobj': 380,
                           'close:how:deb.close': 240, 'close:how:control.close': 110, 'close:how:data.close': 110,
                           'close:how:parts': 100, 'close:how:twice': 110, 'close:how:with': 230,
                           'close:open:filename': 270, 'close:open:fileobj': 400, 'close:open:fileobj:plain': 50,
                           'close:open:fileobj:rst': 60, 'close:open:fileobj:rstl': 60, 'close:open:mmap': 55,
                           'close:query-after-close:filename': 6600, 'close:query-after-close:fileobj': 17000,
                           'close:query-inside-with': 1200}},
    'thorough': {'monitors': {'M.close': 54000, 'M.close.query': 1400000},
                 'per-form-part-compression': {'fileobj': 7700, 'filename': 2900},
                 'counters': {'close:pkg': 31000, 'close:pkg:filename': 8700, 'close:pkg:fileobj': 22000,
                              'close:how:deb.close': 13000, 'close:how:control.close': 6800, 'close:how:data.close': 6700,
                              'close:how:parts': 6800, 'close:how:twice': 6700, 'close:how:with': 13000,
                              'close:open:filename': 14000, 'close:open:fileobj': 23000, 'close:open:fileobj:plain': 3800,
                              'close:open:fileobj:rst': 3900, 'close:open:fileobj:rstl': 3900, 'close:open:mmap': 3800,
                              'close:query-after-close:filename': 380000, 'close:query-after-close:fileobj': 1000000,
                              'close:query-inside-with': 69000}},
}
MULTI_FLOOR = {
    'quick': {'monitors': {'M.multi': 100, 'M.multi.query': 14000},
              'counters': {'multi:different-packages': 80, 'multi:same-package': 14, 'multi:readers=2': 70, 'multi:readers=3': 23,
                           'multi:first-reader-asked-before-second-constructed': 54,
                           'multi:first-reader-asked-only-after-second-constructed': 40,
                           'multi:step-of-first-reader-before-second-constructed': 480,
                           'multi:open:all-filename': 32, 'multi:open:all-fileobj': 45, 'multi:open:mixed': 15,
                           'multi:query:filename': 5600, 'multi:query:fileobj': 7800, 'multi:query-after-close': 3700,
                           'multi:query-by-reader-1': 5600, 'multi:query-by-reader-2': 6400, 'multi:query-by-reader-3': 1580,
                           'multi:query-with-two-others-alive': 4000, 'multi:switch-between-readers': 8400,
                           'multi:reader-closed-while-others-are-still-asked': 110,
                           'multi:some-part-name-shared-between-readers': 76,
                           'multi:some-part-name-differs-between-readers': 38}},
    'thorough': {'monitors': {'M.multi': 4400, 'M.multi.query': 660000},
                 'counters': {'multi:different-packages': 3800, 'multi:same-package': 660, 'multi:readers=2': 3100,
                              'multi:readers=3': 1300, 'multi:first-reader-asked-before-second-constructed': 2500,
                              'multi:first-reader-asked-only-after-second-constructed': 1900,
                              'multi:step-of-first-reader-before-second-constructed': 26000,
                              'multi:open:all-filename': 1400, 'multi:open:all-fileobj': 2200, 'multi:open:mixed': 750,
                              'multi:query:filename': 260000, 'multi:query:fileobj': 390000, 'multi:query-after-close': 180000,
                              'multi:query-by-reader-1': 260000, 'multi:query-by-reader-2': 290000,
                              'multi:query-by-reader-3': 96000, 'multi:query-with-two-others-alive': 230000,
                              'multi:switch-between-readers': 400000,
                              'multi:reader-closed-while-others-are-still-asked': 5100,
                              'multi:some-part-name-shared-between-readers': 3600,
                              'multi:some-part-name-differs-between-readers': 2100}},
}


def _install_new_floors():
    for tier in ('quick', 'thorough'):
        mon, cnt = FLOORS[tier]['monitors'], FLOORS[tier]['counters']
        for table in (CLOSE_FLOOR, MULTI_FLOOR):
            mon.update((k, v) for k, v in table[tier]['monitors'].items() if v)
            cnt.update((k, v) for k, v in table[tier]['counters'].items() if v)
        for form, floor in CLOSE_FLOOR[tier]['per-form-part-compression'].items():
            for part in ('control', 'data'):
                for comp in COMP:
                    if floor:
                        cnt['close:%s:%s:%s' % (form, part, comp or 'none')] = floor
        mon.update(LOOK_FLOOR[tier]['monitors'])
        mon.update(FOBJ_FLOOR[tier]['monitors'])
        cnt.update((k, v) for k, v in LOOK_FLOOR[tier]['counters'].items() if v)
        for n in LOOKALIKES:
            cnt['look:must-reject:name:' + n] = LOOK_FLOOR[tier]['name']
        for kind in FOBJ_KINDS:
            cnt['open:' + kind] = FOBJ_FLOOR[tier]['open']
            cnt['look:replaced:open:' + kind] = FOBJ_FLOOR[tier]['look:replaced:open']
            for part in ('control', 'data'):
                for comp in COMP:
                    cnt['fobj:%s:%s:%s' % (kind, part, comp or 'none')] = FOBJ_FLOOR[tier]['per-kind-part-compression']


def ustar_ok(names):
    return all(len(n.encode('utf-8')) <= 90 for n in names)


def part_names(case, part):
    """names (and link targets) the tar format of this part has to hold"""
    if part == 'control':
        return ['control', 'md5sums'] + [n for n, _ in case['scripts']] + [n for n, _ in case.get('extra', [])]
    return [n for n, _ in case['files']] + [x for l in case.get('links', []) for x in l]


def assign_variants(case, state, offset=0):
    """encoder-variant class: three of four packages with a given compression of a given part get the next variant
    of that compression (per-shard round robin, so every variant is met by every shard for both parts); the fourth
    keeps the encoder defaults (the `level` path)."""
    for part, ck, vk in (('control', 'cc', 'cv'), ('data', 'dc', 'dv')):
        comp = case[ck]
        k = state.get((part, comp, 'n'), 0)
        state[(part, comp, 'n')] = k + 1
        if k % 4 == 3:
            continue
        lst = VARIANTS[comp]
        idx = state.get((part, comp, 'i'), offset)
        for step in range(len(lst)):
            v = lst[(idx + step) % len(lst)]
            if v.get('tar') != 'ustar' or ustar_ok(part_names(case, part)):
                break
        state[(part, comp, 'i')] = idx + step + 1
        case[vk] = json.loads(json.dumps(v))
    return case


def variant_text(case):
    bits = []
    for part, vk in (('control', 'cv'), ('data', 'dv')):
        if case.get(vk):
            bits.append('%s part written with %s' % (part, json.dumps(case[vk], sort_keys=True, ensure_ascii=True)))
    return (' [encoder parameters: ' + '; '.join(bits) + ']') if bits else ''


def materialise(spec):
    """content spec -> bytes ({'lit': latin-1 text} | {'prng': [seed, size]} | {'rep': [latin-1 unit, count]})"""
    if 'lit' in spec:
        return spec['lit'].encode('latin-1')
    if 'prng' in spec:
        seed, size = spec['prng']
        return random.Random(seed).randbytes(size)
    unit, count = spec['rep']
    return unit.encode('latin-1') * count


def mktar(entries, fmt, eof=None):
    """entries: (name relative to the root, type 'f'|'d'|'l', payload, mode, mtime); name '' = the root dir.
    eof='min': the archive ends with exactly the two zero blocks the format asks for (`tar -b1`), not padded to
    tarfile's 10240-byte record."""
    buf = io.BytesIO()
    end = None
    with tarfile.open(fileobj=buf, mode='w', format=TARFMT[fmt], encoding='utf-8') as t:
        for name, typ, payload, mode, mtime in entries:
            if typ == 'd':
                ti = tarfile.TarInfo('./' + name + '/' if name else './')
                ti.type = tarfile.DIRTYPE
            else:
                ti = tarfile.TarInfo('./' + name)
            ti.mode, ti.mtime, ti.uname, ti.gname = mode, mtime, 'root', 'root'
            if typ == 'l':
                ti.type = tarfile.SYMTYPE
                ti.linkname = payload
                t.addfile(ti)
            elif typ == 'f':
                ti.size = len(payload)
                t.addfile(ti, io.BytesIO(payload))
            else:
                t.addfile(ti)
        end = t.offset
    if eof == 'min':
        return buf.getvalue()[:end] + b'\0' * 1024
    return buf.getvalue()


def control_text(fields, final_nl=True):
    """Independent serialiser of the control paragraph (NOT Deb822.dump)."""
    out = []
    for k, v in fields:
        first, _, rest = v.partition('\n')
        out.append(k + ':' + (' ' + first if first else '') + '\n')
        if rest:
            out.append(rest + '\n')
    text = ''.join(out)
    if not final_nl:
        text = text[:-1]
    return text.encode('utf-8')


def md5_text(case, files):
    order = case['md5'].get('order') or list(range(len(files)))
    lines = ['%s  %s\n' % (hashlib.md5(files[i][1]).hexdigest(), files[i][0]) for i in order]
    text = ''.join(lines)
    if text and not case['md5'].get('final_nl', True):
        text = text[:-1]
    return text.encode('utf-8')


def parents(name):
    comps = name.split('/')[:-1]
    return ['/'.join(comps[:i + 1]) for i in range(len(comps))]


def build_pkg(case):
    """-> (ar bytes, model dict).  The model is what the reader must give back."""
    files = [(n, materialise(spec)) for n, spec in case['files']]
    scripts = [(n, materialise(spec)) for n, spec in case['scripts']]
    extra = [(n, materialise(spec)) for n, spec in case.get('extra', [])]
    links = case.get('links', [])
    fmt = case.get('tarfmt', 'gnu')
    ctl = control_text(case['fields'], case.get('ctl_final_nl', True))
    md5 = md5_text(case, files)
    rr = random.Random(case.get('opseed', 0))
    # control tarball: member order is part of the description (ctl_order = permutation seed)
    cmembers = [('control', ctl), ('md5sums', md5)] + scripts + extra
    random.Random(case.get('ctl_order', 0)).shuffle(cmembers)
    centries = ([('', 'd', None, 0o755, 0)] if case.get('dirs') else []) + \
        [(n, 'f', d, 0o755 if n in SCRIPTS else 0o644, rr.randrange(2 ** 31)) for n, d in cmembers]
    dentries = []
    dirs = []
    if case.get('dirs'):
        dentries.append(('', 'd', None, 0o755, 0))
    for n, d in files:
        if case.get('dirs'):
            for p in parents(n):
                if p not in dirs:
                    dirs.append(p)
                    dentries.append((p, 'd', None, 0o755, 0))
        dentries.append((n, 'f', d, rr.choice([0o644, 0o755, 0o600, 0o4755]), rr.randrange(2 ** 31)))
    for n, target in links:
        if case.get('dirs'):
            for p in parents(n):
                if p not in dirs:
                    dirs.append(p)
                    dentries.append((p, 'd', None, 0o755, 0))
        dentries.append((n, 'l', target, 0o777, 0))
    level = case.get('level', 1)
    cblob, cvar, cgiven = build_part(case['cc'], centries, fmt, level, case.get('cv'))
    dblob, dvar, dgiven = build_part(case['dc'], dentries, fmt, level, case.get('dv'))
    blobs = {
        'info': (INFO, case.get('info', '2.0\n').encode('latin-1')),
        'control': (part_name('control', case['cc']), cblob),
        'data': (part_name('data', case['dc']), dblob),
    }
    ar = case['ar']
    members = []
    for i, key in enumerate(ar['order']):
        hdr = ar.get('hdr', [])
        mtime, uid, gid, mode = hdr[i] if i < len(hdr) else (0, 0, 0, 0o100644)
        if key in blobs:
            name, data = blobs[key]
        else:
            name, data = key, b'distractor ' + key.encode('ascii') + b'\n'
        members.append((name, data, mtime, uid, gid, mode))
    raw = arwriter.build_ar(members, style=ar.get('style', 'bare'))
    model = {'fields': [tuple(f) for f in case['fields']], 'control_raw': ctl, 'md5_raw': md5,
             'ar_members': [(m[0], m[1]) for m in members],
             'scripts': dict(scripts), 'files': files, 'dirs': dirs, 'links': [l[0] for l in links],
             'md5': dict((n, hashlib.md5(d).hexdigest()) for n, d in files),
             'cfiles': [(n, d) for n, d in cmembers],
             'variants': {'control': cvar, 'data': dvar}, 'variants_given_up': {'control': cgiven, 'data': dgiven},
             'part_head': {'control': cblob[:8], 'data': dblob[:8]}}
    return raw, model


# ---------------------------------------------------------------------------
# generators

WORDS = ['usr', 'bin', 'etc', 'share', 'doc', 'lib', 'var', 'opt', 'a', 'b', 'x', 'pkg', 'locale', 'man1']
ODD = ['x y', 'READ ME', 'a  b', 'my file.txt', 'trail ', 'in side', 'f(1)', 'c++', 'file~', '#x#', '-dash', '@home',
       'name with  two spaces', 'b.txt', 'a.tar.gz', 'data.tar', 'control', 'md5sums', 'postinst', 'x,y', 'k=v',
       '100%', "quo'te", 'semi;colon', 'A', 'Usr', ' lead']
DOTTED = ['.hidden', '.config', '..data', '...', '.x y', '.a', '.b.c', '. ', '.hidden file', '.git', '..', '.']
UNI = ['über', 'café', '日本語', '€ uro', 'naïve file', 'ß']
FORCED = ['.hidden', '.config/x y', '.a/.b/.c', 'usr/share/doc/p q/READ ME', '..data', 'etc/.x y/ z',
          '.hidden dir/.hidden file', 'x y', 'a b/c d/e f', '.x', 'usr/.cache/. /..x', 'opt/my app/bin/run me',
          'usr/share/' + 'very long directory name ' * 4 + '/.and a hidden ' + 'file' * 10,      # > 100 bytes
          '.' + 'x' * 99, 'd/' + 'y' * 98, 'usr/lib/' + 'z' * 150 + '/a b']                      # 100 / 100 / > 100
NAME_ALPHA = 'abcxyzABZ019 ._-+~@#%,()='


def gen_component(r):
    k = r.random()
    if k < 0.40:
        return r.choice(WORDS)
    if k < 0.62:
        return r.choice(ODD)
    if k < 0.78:
        return r.choice(DOTTED)
    if k < 0.84 and UNICODE_OK:
        return r.choice(UNI)
    if k < 0.88:
        return r.choice(WORDS) * r.randint(8, 14)          # long component (GNU long-name / pax path records)
    return ''.join(r.choice(NAME_ALPHA) for _ in range(r.randint(1, 9)))


def valid_name(n):
    comps = n.split('/')
    if any(c in ('', '.', '..') for c in comps):
        return False
    if n[0].isspace() or n.startswith('/') or n.startswith('./'):
        return False
    return len(n.encode('utf-8')) <= 230


def gen_name(r):
    while True:
        n = '/'.join(gen_component(r) for _ in range(r.choice([1, 1, 2, 2, 3, 3, 4, 5])))
        if valid_name(n):
            return n


def conflicts(n, names):
    for m in names:
        if m == n or m.startswith(n + '/') or n.startswith(m + '/'):
            return True
    return False


# --- names at the edge of the name domain: '..' inside a component, leading dots, blanks
EDGE = ['a..b', 'notes...', 'etc..d/x', 'changes 1.0..1.1', 'etc../x', 'a/..b', 'a../..b', '.../x', 'x/.../y', '..a',
        '..a/..b', 'v1..v2.diff', 'usr/share/doc/p q/changes 1.0..1.1', 'a..', '....', 'a/....', 'dir../file..',
        'range 1..10/item 2..3', 'q/.. /b', '.. x', '. /x', 'a/ ..', 'a/ ../b', '..  ', 'etc/..d', 'etc/d..',
        'etc/d../x y', '..../....', 'notes... (old)', 'a .. b', 'x y ..z', '..hidden', '.. /..  x',
        '.hidden', '...', '.a/.b', '.hidden file', '.config/x y', '.a.', '. .', '.x y', '.x', '.a/..b/...c',
        'x y', 'a  b', 'trail ', 'my file.txt', 'dir name/file name', 'a b/ c', 'a . b', 'READ ME..', 'x ./y']


def name_classes(n):
    """edge classes of a root-relative name (workload bookkeeping and witness messages)"""
    comps = n.split('/')
    out = []
    if '..' in n:
        out.append('dotdot-substring')
        if '../' in n:
            out.append('dotdot-before-slash')
        if '/..' in n:
            out.append('dotdot-after-slash')
        if n.startswith('..'):
            out.append('dotdot-first')
        if n.endswith('..'):
            out.append('dotdot-last')
    if any(c.startswith('.') for c in comps):
        out.append('leading-dot')
    if any(c.endswith('.') for c in comps):
        out.append('trailing-dot')
    if ' ' in n:
        out.append('space')
    return out


def edge_neighbours(n):
    """never-packed look-alikes of an edge name (filtered by the caller: valid, not packed, not a parent)"""
    out = []
    for c in (n.replace('..', '.'), n.replace('..', ''), n.replace('...', '..'), n.replace('..', '...'),
              n.replace('..', '. .'), n.rstrip('.'), n + '.', n + '..', '.' + n, '..' + n, n.lstrip('.'),
              n.replace('../', '/'), n.replace('/..', '/'), n.replace('../', '..'), n.replace(' ', ''),
              n.replace(' ', '.'), n.strip(), n.replace('/.', '/'), n.replace('./', '/')):
        if c and c != n and c not in out:
            out.append(c)
    return out


def add_edge_names(r, j, case):
    """name-edge class: EDGE names as data files and as extra members of the control part (in place)"""
    names = [n for n, _ in case['files']] + [l[0] for l in case['links']]
    picks = []
    if j % 3 == 1:
        picks.append(EDGE[(j // 3) % len(EDGE)])
    n_extra = r.randint(1, 3)
    if r.random() < 0.35:
        picks.extend(r.choice(EDGE) for _ in range(n_extra))
    for n in picks:
        if len(case['files']) < 10 and not conflicts(n, names):
            names.append(n)
            case['files'].append([n, gen_content(r, big_ok=False)])
            order = case['md5'].setdefault('order', list(range(len(case['files']) - 1)))
            order.insert(r.randrange(len(order) + 1), len(case['files']) - 1)
    cnames = ['control', 'md5sums'] + SCRIPTS + [n for n, _ in case['extra']]
    cpicks = []
    if j % 3 == 2:
        cpicks.append(EDGE[(j // 3 + 7) % len(EDGE)])
    n_extra = r.randint(1, 2)
    if r.random() < 0.3:
        cpicks.extend(r.choice(EDGE) for _ in range(n_extra))
    for n in cpicks:
        if not conflicts(n, cnames):
            cnames.append(n)
            case['extra'].append([n, gen_content(r, big_ok=False)])
    if case.get('tarfmt') == 'ustar' and any(len(n.encode('utf-8')) > 90 for n in names + cnames):
        case['tarfmt'] = 'gnu'


# --- second use: further calls of debcontrol / scripts / md5sums and what the caller does to the results
REUSE_FIELDS = ['X-Added-By-Caller', 'Version', 'Installed-Size', 'Description', 'x-lower', 'Depends']
REUSE_KEYS = ['usr/bin/added by caller', 'a..b', '.hidden', 'x y']


def gen_reuse(r, case):
    """-> [[family, route, md5 encoding or None, [caller-side changes]], ...]"""
    if r.random() < 0.35:
        return []
    out = []
    for _ in range(r.randint(1, 5)):
        fam = r.choice(['control', 'control', 'scripts', 'md5', 'md5'])
        route = r.choice(['deb', 'part'])
        enc = r.choice([None, 'utf-8']) if fam == 'md5' else None
        muts = []
        if r.random() < 0.6:
            for _ in range(r.randint(1, 3)):
                k = r.random()
                if fam == 'control':
                    name, val = r.choice(REUSE_FIELDS), 'changed by caller %d' % r.randrange(100)
                elif fam == 'scripts':
                    name, val = r.choice(SCRIPTS + ['extra']), '#!/bin/sh\n# changed by caller %d\n' % r.randrange(100)
                else:
                    name, val = r.choice(REUSE_KEYS), '%032x' % r.getrandbits(128)
                if k < 0.35:
                    muts.append(['set', r.randrange(64), val])
                elif k < 0.6:
                    muts.append(['del', r.randrange(64)])
                elif k < 0.9:
                    muts.append(['add', name, val])
                else:
                    muts.append(['clear'])
        out.append([fam, route, enc, muts])
    return out


def gen_content(r, big_ok=True):
    k = r.random()
    if k < 0.07:
        return {'lit': ''}
    if k < 0.45:
        return {'lit': ''.join(chr(r.randrange(256)) for _ in range(r.choice([1, 2, 3, 5, 8, 13, 21, 34, 50, 97])))}
    if k < 0.55:
        return {'lit': ''.join(r.choice(['line %d\n' % i for i in range(5)] + ['\n', '\r\n', 'no newline', '`\n', '!<arch>\n', '\x00'])
                               for _ in range(r.randint(1, 12)))}
    if k < 0.75:
        return {'prng': [r.randrange(10 ** 9), r.choice([255, 256, 257, 511, 512, 513, 1023, 1024, 1025, 2047, 4096, 8191, 8192, 8193, 10240])]}
    if k < 0.83:
        return {'rep': [r.choice(['\x00', '\xff', 'ab\n', 'ustar\x0000', '`\n']), r.choice([512, 1024, 1536, 3000, 20000])]}
    if k < 0.90 and big_ok:
        return {'prng': [r.randrange(10 ** 9), r.randint(20000, 90000)]}
    return {'prng': [r.randrange(10 ** 9), r.randint(100, 3000)]}


def gen_script(r, name):
    k = r.random()
    if k < 0.08:
        return {'lit': ''}
    if k < 0.70:
        body = '#!/bin/sh\nset -e\n# %s\n' % name + ''.join('echo "%s step %d"\n' % (name, i) for i in range(r.randint(0, 6)))
        if r.random() < 0.2:
            body = body.rstrip('\n')
        if r.random() < 0.1:
            body = body.replace('\n', '\r\n')
        return {'lit': body}
    if k < 0.85:
        return {'lit': '#!/usr/bin/perl\n' + ''.join(chr(r.randrange(256)) for _ in range(r.randint(1, 80)))}
    return {'prng': [r.randrange(10 ** 9), r.choice([1, 511, 512, 513, 5000, 12000])]}


VALUE_ALPHA = 'abcdefXYZ0189 .,:;-+~()<>@=|/[]{}!?*&^%$#"\'\\_'
VALUE_UNI = ['Zoë Ünï <z@example.org>', 'café — naïve', '日本語パッケージ', '€ 5']


def gen_line(r, first=False):
    """One value line: no leading/trailing blank, no control characters, non-empty."""
    k = r.random()
    if k < 0.15:
        return r.choice(VALUE_UNI)
    s = ''.join(r.choice(VALUE_ALPHA) for _ in range(r.randint(1, 40))).strip()
    if not s:
        s = 'v'
    if not first and s.startswith('-----'):
        s = 'v' + s
    return s


def gen_value(r, multi):
    first = gen_line(r, first=True)
    if not multi:
        return first
    if r.random() < 0.2:
        first = ''
    lines = []
    for _ in range(r.randint(1, 6)):
        k = r.random()
        if k < 0.2:
            lines.append(' .')
        elif k < 0.3:
            lines.append('  ' + gen_line(r))         # extra indentation is part of the value
        elif k < 0.36:
            lines.append('\t' + gen_line(r))
        elif k < 0.42:
            lines.append(' #' + gen_line(r))         # looks like a comment, is a continuation line
        else:
            lines.append(' ' + gen_line(r))
    return first + '\n' + '\n'.join(lines)


# --- line-boundary look-alikes: str.splitlines() cuts there, bytes.splitlines() and deb822 do not
BRK = {'\x0b': 'VT', '\x0c': 'FF', '\x1c': 'FS', '\x1d': 'GS', '\x1e': 'RS', '\x85': 'NEL',
       '\u2028': 'LS', '\u2029': 'PS'}
BRK_CHARS = sorted(BRK)
BLANKS = ' \t'


def split_line(line, li):
    """value line -> (prefix, body): the continuation prefix (leading blanks/tabs) is not part of the body"""
    if li == 0:
        return '', line
    body = line.lstrip(BLANKS)
    return line[:len(line) - len(body)], body


def brk_scan(fields):
    """-> [(field index, line index, character name, placement)]; placement is 'then-blank' (judged), 'tight'
    (next character is not a blank: ValueError out of debcontrol() tolerated) or 'edge' (first/last character of
    the line body: outside the domain).  Computed from the case itself, so a replayed / hand-written case is
    classified like a generated one."""
    out = []
    for fi, (_, v) in enumerate(fields):
        if not any(c in BRK for c in v):
            continue
        for li, line in enumerate(v.split('\n')):
            prefix, body = split_line(line, li)
            for p, c in enumerate(body):
                if c not in BRK:
                    continue
                if not body[:p].strip() or not body[p + 1:].strip():
                    place = 'edge'          # str.strip(): nothing but blanks / look-alikes before or after it
                elif body[p + 1] in BLANKS:
                    place = 'then-blank'
                else:
                    place = 'tight'
                out.append((fi, li, BRK[c], place))
    return out


def inject_brk(r, fields, tight=False, prefer_last=False):
    """Insert 1..3 look-alike characters into value lines of `fields` (in place).  Judged form: the character
    goes between two body characters (or behind the last one, then a word follows) and is directly followed by
    a blank or tab.  tight=True: one of the insertions has no blank behind it (or is doubled)."""
    slots = []
    for fi, (k, v) in enumerate(fields):
        if k == 'Package':
            continue
        for li, line in enumerate(v.split('\n')):
            prefix, body = split_line(line, li)
            if body and body != '.':
                slots.append((fi, li))
    if not slots:
        fields.append(['X-Brk', 'some value'])
        slots = [(len(fields) - 1, 0)]
    # prefer one first line and one continuation line when both exist
    firsts = [s for s in slots if s[1] == 0]
    conts = [s for s in slots if s[1] > 0]
    n = r.choice([1, 1, 2, 2, 3])
    chosen = []
    for i in range(n):
        pool = (conts if (i + r.randrange(2)) % 2 else firsts) or slots
        chosen.append(r.choice(pool))
    if prefer_last and slots[-1][0] == len(fields) - 1 and slots[-1][1] == fields[-1][1].count('\n') and r.random() < 0.6:
        chosen[0] = slots[-1]          # the last line of a control file that has no final newline
    tight_at = r.randrange(n) if tight else -1
    for i, (fi, li) in enumerate(chosen):
        lines = fields[fi][1].split('\n')
        prefix, body = split_line(lines[li], li)
        c = r.choice(BRK_CHARS)
        # never directly behind an earlier insertion (that would turn the earlier one into a tight placement)
        spots = [q for q in range(1, len(body) + 1) if body[q - 1] not in BRK]
        if not spots:
            continue
        p = r.choice(spots)
        tail = body[p:] or r.choice(['z', 'end', '(x)', '#'])
        if i == tight_at:
            k = r.random()
            if k < 0.5:
                mid = c                                  # a<c>b
                tail = tail.lstrip(BLANKS)
            elif k < 0.75:
                mid = c + r.choice(BRK_CHARS) + ' '      # two in a row, then a blank
            else:
                mid = c + r.choice(BRK_CHARS)            # two in a row, tight
                tail = tail.lstrip(BLANKS)
        else:
            mid = c + r.choice([' ', ' ', ' ', '\t', '  '])
        head = body[:p]
        if not head.strip():
            head = head + 'w'
        lines[li] = prefix + head + mid + tail
        fields[fi][1] = '\n'.join(lines)
    return fields


STD_FIELDS = ['Package', 'Version', 'Architecture', 'Maintainer', 'Installed-Size', 'Depends', 'Pre-Depends',
              'Recommends', 'Suggests', 'Conflicts', 'Breaks', 'Replaces', 'Provides', 'Section', 'Priority',
              'Multi-Arch', 'Homepage', 'Built-Using', 'Source', 'Essential', 'Tag', 'Description', 'Conffiles']


def gen_fields(r, j):
    fields = [['Package', 'pkg%d' % j], ['Version', r.choice(['1.0-1', '2:0.9~rc1+dfsg-3', '0', '1.2.3'])],
              ['Architecture', r.choice(['all', 'amd64', 'any'])]]
    used = set(k.lower() for k, _ in fields)
    for _ in range(r.randint(0, 9)):
        k = r.random()
        if k < 0.6:
            name = r.choice(STD_FIELDS)
        elif k < 0.8:
            name = 'X-' + ''.join(r.choice('abcXYZ09-_.+') for _ in range(r.randint(1, 10)))
        else:
            name = r.choice(['x-lower', 'UPPER', 'with.dot', 'with_underscore', 'XB-Thing', 'a', '0num', 'Key+Plus',
                             'Vcs-Git', 'Original-Maintainer'])
        if name.lower() in used:
            continue
        used.add(name.lower())
        multi = name in ('Description', 'Conffiles', 'Tag') or r.random() < 0.2
        fields.append([name, gen_value(r, multi)])
    if 'description' not in used and r.random() < 0.8:
        fields.append(['Description', gen_value(r, True)])
    if r.random() < 0.5:
        r.shuffle(fields)
    return fields


def gen_pkg(r, j, cc, dc):
    case = {'kind': 'pkg', 'cc': cc, 'dc': dc}
    case['fields'] = gen_fields(r, j)
    case['ctl_final_nl'] = r.random() < 0.9
    k = r.random()
    if k < 0.08:
        chosen = []
    elif k < 0.16:
        chosen = list(SCRIPTS)
    else:
        chosen = [s for s in SCRIPTS if r.random() < 0.5]
    case['scripts'] = [[s, gen_script(r, s)] for s in chosen]
    extra = []
    for n in ['conffiles', 'triggers', 'templates', 'shlibs', 'symbols', 'postinst.orig', 'preinst~', 'config.bak',
              'Postinst', 'prerm ', 'md5sums.old', 'control.orig']:
        if r.random() < 0.12:
            extra.append([n, gen_content(r, big_ok=False)])
    case['extra'] = extra
    case['ctl_order'] = r.randrange(10 ** 6)
    names = []
    nfiles = r.choice([0, 1, 1, 2, 2, 3, 3, 4, 5, 6, 7])
    if nfiles and j % 3 == 0:
        names.append(FORCED[(j // 3) % len(FORCED)])
    tries = 0
    while len(names) < nfiles and tries < 50:
        tries += 1
        n = gen_name(r)
        if not conflicts(n, names):
            names.append(n)
    r.shuffle(names)
    big = [True]
    files = []
    for n in names:
        spec = gen_content(r, big_ok=big[0])
        if 'prng' in spec and spec['prng'][1] >= 20000:
            big[0] = False                 # at most one large file per package (time budget)
        files.append([n, spec])
    case['files'] = files
    links = []
    if names and r.random() < 0.25:
        ln = gen_name(r)
        if not conflicts(ln, names):
            links.append([ln, r.choice([names[0].split('/')[-1], '/' + names[0], 'nowhere', '../x'])])
    case['links'] = links
    case['dirs'] = r.random() < 0.5
    fmt = r.choice(['gnu', 'gnu', 'gnu', 'pax', 'ustar'])
    if fmt == 'ustar' and any(len(n.encode('utf-8')) > 90 for n in names + [l[0] for l in links]):
        fmt = 'gnu'
    case['tarfmt'] = fmt
    order = list(range(len(files)))
    if r.random() < 0.4:
        r.shuffle(order)
    case['md5'] = {'order': order, 'final_nl': r.random() < 0.85}
    case['level'] = r.choice([1, 1, 1, 6, 9])
    ar_order = ['info', 'control', 'data']
    for d in DISTRACTORS:
        if r.random() < 0.06:
            ar_order.append(d)
    if r.random() < 0.7:
        r.shuffle(ar_order)
    names_in_ar = [{'info': INFO, 'control': part_name('control', cc), 'data': part_name('data', dc)}.get(k, k)
                   for k in ar_order]
    style = 'gnu' if (r.random() < 0.4 and all(arwriter.fits(n, 'gnu') for n in names_in_ar)) else 'bare'
    hdr = []
    for _ in ar_order:
        k = r.random()
        if k < 0.3:
            hdr.append([0, 0, 0, 0o100644])
        elif k < 0.6:
            hdr.append([arwriter.MAX_MTIME, arwriter.MAX_ID, arwriter.MAX_ID, arwriter.MAX_MODE])
        else:
            hdr.append([r.randrange(2 ** 31), r.randrange(65536), r.randrange(65536), r.choice([0o100644, 0o644, 0o100755])])
    case['ar'] = {'order': ar_order, 'style': style, 'hdr': hdr}
    case['open'] = 'filename' if r.random() < 0.25 else 'fileobj'
    case['opseed'] = r.randrange(10 ** 6)
    # line-boundary look-alikes in control values; drawn last so that the rest of the description does not move
    k = r.random()
    if k < 0.18:
        inject_brk(r, case['fields'], prefer_last=not case['ctl_final_nl'])
    elif k < 0.22:
        inject_brk(r, case['fields'], tight=True, prefer_last=not case['ctl_final_nl'])
    # name-edge class and second-use class (drawn after everything else, for the same reason)
    add_edge_names(r, j, case)
    case['reuse'] = gen_reuse(r, case)
    # minimal-interface file objects (drawn last again): 40% of the fileobj= packages are read from one of FOBJ_KINDS
    k, pick = r.random(), r.randrange(len(FOBJ_KINDS))
    if case['open'] == 'fileobj' and k < 0.4:
        case['open'] = FOBJ_KINDS[pick]
    # close-then-use-again class (drawn last again): 45% of the packages carry 1..3 close steps among their queries
    case['close'] = gen_close(r)
    return case


CLOSE_HOWS = ['deb.close', 'control.close', 'data.close', 'parts', 'twice', 'with']


def gen_close(r, p=0.45):
    """-> [[position in permille of the shuffled query list, how, span (queries inside a `with` block)], ...]"""
    k, n = r.random(), r.choice([1, 1, 2, 3])
    out = []
    for _ in range(n):
        how = r.choice(CLOSE_HOWS + ['deb.close', 'with'])
        pos = r.choice([0, 1000, r.randrange(1001), r.randrange(200, 800), r.randrange(200, 800)])
        out.append([pos, how, r.randint(0, 12) if how == 'with' else 0])
    return out if k < p else []


def gen_multi(ctx, r, j, vstate):
    """several-readers class: 2 or 3 package descriptions (different packages; or the same one twice) whose readers
    are alive at the same time, and the schedule by which they are asked"""
    k = r.random()
    nreaders = 3 if k < 0.3 else 2
    same = 0.3 <= k < 0.45
    # compressions: the same part names in all readers (what a per-name cache would confuse) or different ones
    cc, dc = COMP[j % 5], COMP[(j // 5) % 5]
    pkgs = []
    for i in range(nreaders):
        if i and r.random() < 0.5:
            cc, dc = r.choice(COMP), r.choice(COMP)
        pkgs.append(assign_variants(gen_pkg(r, (j * ctx.nshards + ctx.shard) * 3 + i, cc, dc), vstate, offset=5 * ctx.shard + 2))
    if same:
        pkgs[1] = json.loads(json.dumps(pkgs[0]))
        pkgs[1]['qseed'] = pkgs[0]['opseed'] + 1        # same package (same bytes), other order of the queries
        pkgs[1]['reuse'] = gen_reuse(r, pkgs[1])
        pkgs[1]['close'] = gen_close(r)
    # the way of opening: all fileobj=, all filename=, or mixed (as drawn by gen_pkg)
    k = r.random()
    if k < 0.3:
        for c in pkgs:
            c['open'] = 'filename'
    elif k < 0.55:
        for c in pkgs:
            if c['open'] == 'filename':
                c['open'] = 'fileobj'
    # half of the multi cases make the first reader answer some queries before the next one is constructed
    sched = {'seed': r.randrange(10 ** 6), 'pre': r.choice([0, 0, 0, 1, 3, 8, 25]), 'burst': r.choice([1, 1, 2, 4, 9])}
    return {'kind': 'multi', 'pkgs': pkgs, 'same': bool(same), 'sched': sched}


# --- member-set enumerations ------------------------------------------------

def acceptable(names):
    s = set(names)
    return INFO in s and len(s.intersection(CTRL_NAMES)) == 1 and len(s.intersection(DATA_NAMES)) == 1


def enum_small_sequences():
    """every sequence (with repetition) of length <= 3 over the 11 part names"""
    for k in range(0, 4):
        for seq in itertools.product(PARTS11, repeat=k):
            yield list(seq)


def enum_focused_sets():
    """every set with 0..2 control candidates, 0..2 data candidates, with/without debian-binary, of size >= 4,
    in ALL orders (sizes < 4 are inside enum_small_sequences).  This is where 'too many candidates' is reached
    with everything else in order, e.g. data.tar + data.tar.xz in both relative orders."""
    def subsets(names):
        for k in range(0, 3):
            for c in itertools.combinations(names, k):
                yield list(c)
    for info in ([INFO], []):
        for cs in subsets(CTRL_NAMES):
            for ds in subsets(DATA_NAMES):
                base = info + cs + ds
                if len(base) >= 4:
                    for perm in itertools.permutations(base):
                        yield list(perm)


def gen_random_set(r):
    """near-valid multiset: a valid triple, then duplicates / siblings / distractors added, maybe one removed."""
    seq = [INFO, r.choice(CTRL_NAMES), r.choice(DATA_NAMES)]
    for _ in range(r.randint(1, 5)):
        k = r.random()
        if k < 0.35:
            seq.append(r.choice(seq))                       # duplicate of something present (same candidate)
        elif k < 0.6:
            seq.append(r.choice(DISTRACTORS))
        else:
            seq.append(r.choice(PARTS11))                   # may be a sibling => too many
    if r.random() < 0.3:
        victim = r.choice(seq)
        if r.random() < 0.5:
            seq = [s for s in seq if s != victim]           # drop every occurrence
        else:
            seq.remove(victim)
    r.shuffle(seq)
    return seq


LOOK_INFO = ['debian-binary~', 'Debian-binary', 'debian_binary', 'debian-binary.', 'debian-binar', 'debian.binary',
             'DEBIAN-BINARY', 'debian-binary2', 'debian-binary.gz']
LOOK_OPEN = ['fileobj', 'fileobj:rst', 'fileobj', 'fileobj:plain', 'fileobj', 'mmap' if _mmap is not None else 'fileobj',
             'fileobj:rstl', 'filename', 'fileobj', 'fileobj', 'fileobj']


def enum_lookalike_sets():
    """-> (label, members): member sets with look-alike part names, every member order of each"""
    perms = itertools.permutations
    for base, looks, others in (('control', LOOK_CTRL, DATA_NAMES), ('data', LOOK_DATA, CTRL_NAMES)):
        mine = CTRL_NAMES if base == 'control' else DATA_NAMES
        other_looks = LOOK_DATA if base == 'control' else LOOK_CTRL
        for i, n in enumerate(looks):
            # (a) a required part replaced by a look-alike; the other part in each of its five spellings
            for o in others:
                for p in perms([INFO, n, o]):
                    yield 'replaced', list(p)
            # (b) both parts replaced
            for p in perms([INFO, n, other_looks[(i * 7 + 3) % len(other_looks)]]):
                yield 'both-replaced', list(p)
            # (c) two look-alikes where one part should be
            for p in perms([INFO, n, looks[(i + 11) % len(looks)], others[i % 5]]) if i % 3 == 0 else ():
                yield 'two-look-alikes', list(p)
            # (d) look-alike next to the real part (complete set: either outcome, accepted => content served)
            for p in perms([INFO, n, mine[i % 5], others[(i // 5) % 5]]) if i % 2 == 0 else ():
                yield 'next-to-real-part', list(p)
            # (e) replaced, and a "_" distractor / a repeated member in the set
            for p in perms([INFO, n, others[(i + 2) % 5], DISTRACTORS[i % len(DISTRACTORS)]]) if i % 3 == 1 else ():
                yield 'replaced+distractor', list(p)
            for p in perms([INFO, n, others[(i + 3) % 5]]):
                yield 'replaced+repeated-member', list(p) + [p[i % 3]]
    # (f) blank-suffixed part names (GNU ar style only)
    for i, n in enumerate(LOOK_BLANK):
        others = DATA_NAMES if look_part(n) == 'control' else CTRL_NAMES
        o = [x for x in others if len(x) <= 15]
        for p in perms([INFO, n, o[i % len(o)]]):
            yield 'blank-suffixed', list(p)
        for p in perms([INFO, n]):
            yield 'blank-suffixed', list(p)           # defective under both readings: must be rejected
    # (g) debian-binary look-alikes in an otherwise complete set
    for i, n in enumerate(LOOK_INFO):
        for p in perms([n, CTRL_NAMES[i % 5], DATA_NAMES[(i // 2) % 5]]):
            yield 'info-look-alike', list(p)


def gen_random_look_set(r):
    """seeded larger look-alike sets: a valid triple with one or both parts replaced / accompanied by look-alikes,
    then duplicates and distractors, shuffled"""
    ctrl, data = r.choice(CTRL_NAMES), r.choice(DATA_NAMES)
    seq = [INFO, ctrl, data]
    k = r.random()
    if k < 0.35:
        seq[1] = r.choice(LOOK_CTRL)
    elif k < 0.70:
        seq[2] = r.choice(LOOK_DATA)
    elif k < 0.80:
        seq[1], seq[2] = r.choice(LOOK_CTRL), r.choice(LOOK_DATA)
    elif k < 0.90:
        seq.append(r.choice(LOOKALIKES))
    else:
        seq[0] = r.choice(LOOK_INFO)
    for _ in range(r.randint(0, 3)):
        k = r.random()
        if k < 0.3:
            seq.append(r.choice(seq))
        elif k < 0.55:
            seq.append(r.choice(DISTRACTORS))
        elif k < 0.85:
            seq.append(r.choice(LOOK_CTRL if look_part(seq[1]) else LOOK_DATA if look_part(seq[2]) else LOOKALIKES))
        else:
            seq.append(r.choice(PARTS11))
    r.shuffle(seq)
    return seq


_STD = {}
STD_CONTROL = [('Package', 'stdpkg'), ('Version', '1.0'), ('Description', 'std\n long text')]
STD_FILE = ('usr/share/std pkg/.x y', b'payload \x00\xff of the standard data part\n')


def STD_CONTROL_ENTRIES():
    ctl = control_text(STD_CONTROL)
    md5 = ('%s  %s\n' % (hashlib.md5(STD_FILE[1]).hexdigest(), STD_FILE[0])).encode()
    return [('', 'd', None, 0o755, 0), ('control', 'f', ctl, 0o644, 0), ('md5sums', 'f', md5, 0o644, 0),
            ('postinst', 'f', b'#!/bin/sh\n', 0o755, 0)]


def set_variants(names, k):
    """encoder variants for the part members of a set case: member at position p gets variant number k + p of its
    compression (light variants only); -> list parallel to names (None = encoder defaults / not a part)"""
    out = []
    for p, n in enumerate(names):
        if n.startswith('control.tar') or n.startswith('data.tar'):
            comp = n[n.index('.tar') + 4:].lstrip('.')
            lst = LIGHT_VARIANTS[comp]
            out.append(lst[(k + p) % len(lst)])
        else:
            out.append(None)
    return out


def std_blob(name, v=None):
    """tiny valid content behind every member name used by set cases; v = encoder variant of a part (or None)"""
    if look_part(name):                 # look-alike / blank-suffixed part name: see look_blob
        if name not in _STD:
            _STD[name] = look_blob(name)
        return _STD[name]
    if v is not None:
        base = name.lstrip('_')
        if not (base.startswith('control.tar') or base.startswith('data.tar')):
            return std_blob(name)
        key = (name, json.dumps(v, sort_keys=True))
        if key not in _STD:
            comp = base[base.index('.tar') + 4:].lstrip('.')
            if base.startswith('control.tar'):
                entries = STD_CONTROL_ENTRIES()
            else:
                entries = [('', 'd', None, 0o755, 0), (STD_FILE[0], 'f', STD_FILE[1], 0o644, 0)]
            blob, used, _ = build_part(comp, entries, 'gnu', 1, v)
            _STD[key] = (blob, used)
        return _STD[key][0]
    if name not in _STD:
        if name == INFO or name == '_debian-binary':
            _STD[name] = b'2.0\n'
        elif name.lstrip('_').startswith('control.tar'):
            comp = name.lstrip('_')[len('control.tar'):].lstrip('.')
            tar = mktar(STD_CONTROL_ENTRIES(), 'gnu')
            _STD[name] = compress(comp, tar)
        elif name.lstrip('_').startswith('data.tar'):
            comp = name.lstrip('_')[len('data.tar'):].lstrip('.')
            tar = mktar([('', 'd', None, 0o755, 0), (STD_FILE[0], 'f', STD_FILE[1], 0o644, 0)], 'gnu')
            _STD[name] = compress(comp, tar)
        else:
            _STD[name] = b'2.0\n' if 'binary' in name.lower() else b'distractor\n'
    return _STD[name]


# ---------------------------------------------------------------------------
# framework interface

def setup(ctx):
    ctx.extra['config_pairs_covered'] = set()
    ctx.extra['exhaustive_subspaces'] = [
        '(control compression x data compression): all 25 pairs of {none,gz,bz2,xz,lzma} every run',
        'member-name sequences with repetition of length 0..3 over the 11 part names: all 1464',
        'member sets with <=2 control and <=2 data candidates (with/without debian-binary), size>=4: all orders',
    ]
    ctx.extra['unicode_names_generated'] = int(UNICODE_OK)
    ctx.extra['edge_names_in_data_part'] = set()
    ctx.extra['edge_names_in_control_part'] = set()
    ctx.extra['exhaustive_subspaces'].append(
        'the %d listed edge names (".." inside a component, leading dots, blanks): each one as a data file and as a '
        'control-part member at least once per run, all three spellings' % len(EDGE))
    ctx.extra['exhaustive_subspaces'].append(
        'the listed encoder variants (%s): each one written for the control part and for the data part every run' % VARIANTS_TEXT)
    if ctx.tier == 'thorough':
        ctx.extra['dpkg_deb_crosscheck'] = {'packages': 0, 'rejected': 0}
        ctx.extra['encoder_variant_crosscheck'] = {'variants': 0, 'rejected': 0, 'tool-not-installed': 0}


def cases(ctx):
    # (1) enumerated member sets
    i = 0

    def with_variants(case, k):
        # encoder-variant class in the set cases: every third set has its part members written with non-default
        # encoder parameters (round robin over the light variants)
        if k % 3 == 1:
            var = set_variants(case['members'], k // 3 + ctx.shard)
            if any(var):
                case['var'] = var
        return case

    for seq in enum_small_sequences():
        if ctx.mine(i):
            yield with_variants({'kind': 'set', 'members': seq, 'style': 'gnu' if (i // ctx.nshards) % 2 else 'bare',
                                 'open': 'filename' if (i // ctx.nshards) % 7 == 3 else 'fileobj'}, i // ctx.nshards)
        i += 1
    for seq in enum_focused_sets():
        if ctx.mine(i):
            yield with_variants({'kind': 'set', 'members': seq, 'style': 'gnu' if (i // ctx.nshards) % 2 else 'bare',
                                 'open': 'filename' if (i // ctx.nshards) % 61 == 3 else 'fileobj'}, i // ctx.nshards)
        i += 1
    # (1b) look-alike part names: enumerated sets in all member orders, then seeded larger ones; the way the archive
    #      is opened rotates through BytesIO, filename= and the minimal-interface objects
    k = 0
    for label, seq in enum_lookalike_sets():
        if ctx.mine(i):
            style = 'gnu' if (k % 2 and all(arwriter.fits(n, 'gnu') for n in seq)) else 'bare'
            yield {'kind': 'set', 'members': seq, 'style': style, 'open': LOOK_OPEN[k % len(LOOK_OPEN)], 'look': label}
            k += 1
        i += 1
    r = ctx.rng('look-sets')
    for k in range(ctx.size(LOOK_SETS['quick'], LOOK_SETS['thorough'])):
        seq = gen_random_look_set(r)
        yield {'kind': 'set', 'members': seq, 'style': r.choice(['bare', 'gnu']), 'open': r.choice(LOOK_OPEN), 'look': 'seeded'}
    # (2) seeded larger multisets
    r = ctx.rng('sets')
    for k in range(ctx.size(RANDOM_SETS['quick'], RANDOM_SETS['thorough'])):
        yield with_variants({'kind': 'set', 'members': gen_random_set(r), 'style': r.choice(['bare', 'gnu']),
                             'open': 'filename' if r.random() < 0.03 else 'fileobj'}, k)
    # (3) packages: the 25 compression pairs are cycled (so each shard covers all of them), rest of the
    #     description is seeded
    n = ctx.size(PKGS['quick'], PKGS['thorough'])
    vstate = {}
    for j in range(n):
        r = ctx.rng('pkg', j)
        if j < 50 or r.random() < 0.5:
            cc, dc = COMP[j % 5], COMP[(j // 5) % 5]
        else:
            cc, dc = r.choice(COMP), r.choice(COMP)
        yield assign_variants(gen_pkg(r, j * ctx.nshards + ctx.shard, cc, dc), vstate, offset=5 * ctx.shard)
    # (3b) several DebFile objects alive at once (2 or 3 different packages, or one package twice), asked alternately
    for j in range(ctx.size(MULTI['quick'], MULTI['thorough'])):
        yield gen_multi(ctx, ctx.rng('multi', j), j, vstate)
    # (4) generator sanity against the real tools (thorough, shard 0 only; never a verdict input)
    if ctx.tier == 'thorough' and ctx.shard == 0 and shutil.which('dpkg-deb'):
        for j in range(60):
            r = ctx.rng('dpkgdeb', j)
            case = gen_pkg(r, j, r.choice(['', 'gz', 'xz']), COMP[j % 5])
            case['ar'] = {'order': ['info', 'control', 'data'], 'style': 'bare', 'hdr': []}
            # dpkg-deb validates the MEANING of control fields; the random values above are deb822-valid
            # but not policy-valid, so this sanity case carries a policy-valid paragraph
            case['fields'] = [['Package', 'pkg%d' % j], ['Version', '2:0.9~rc1+dfsg-3'], ['Architecture', 'all'],
                              ['Maintainer', 'Zo\u00eb \u00dcn\u00ef <z@example.org>'], ['Installed-Size', '12'],
                              ['Depends', 'libc6 (>= 2.34), foo | bar'], ['Section', 'utils'], ['Priority', 'optional'],
                              ['Description', 'short text\n long line one\n .\n  indented']]
            case['ctl_final_nl'] = True
            case['kind'] = 'dpkgdeb'
            yield case
    # (5) generator sanity of the encoder variants (thorough, shard 0 only; never a verdict input): every variant is
    #     decoded by the real tool of its format (gzip / bzip2 / xz / xz --format=lzma / tar), and single-stream
    #     variants are put into packages that dpkg-deb has to read
    if ctx.tier == 'thorough' and ctx.shard == 0:
        for comp in COMP:
            for v in VARIANTS[comp]:
                yield {'kind': 'toolcheck', 'comp': comp, 'v': v}
        if shutil.which('dpkg-deb'):
            j = 0
            for comp in COMP:
                for v in VARIANTS[comp]:
                    if v.get('cuts'):
                        continue            # dpkg-deb reads one stream per part
                    j += 1
                    r = ctx.rng('dpkgdeb-variant', j)
                    cc = ['', 'gz', 'xz'][j % 3]
                    case = gen_pkg(r, j, cc, comp)
                    if v.get('tar') == 'ustar' and not ustar_ok(part_names(case, 'data')):
                        continue
                    single = [w for w in VARIANTS[cc] if not w.get('cuts') and w.get('tar') != 'ustar']
                    case['dv'] = v
                    case['cv'] = single[(j // 3) % len(single)]
                    case['ar'] = {'order': ['info', 'control', 'data'], 'style': 'bare', 'hdr': []}
                    case['fields'] = [['Package', 'pkg%d' % j], ['Version', '1.0-1'], ['Architecture', 'all'],
                                      ['Maintainer', 'A B <a@example.org>'], ['Description', 'short text\n long line']]
                    case['ctl_final_nl'] = True
                    case['kind'] = 'dpkgdeb'
                    yield case


class Findings(list):
    """(mechanism key, message) pairs.  hist_fn (optional) describes the history the finding was made in (close steps
    made on this object before, other DebFile objects alive); it goes into the MESSAGE - the key stays the mechanism,
    so that the shrinker can drop the close steps / the other readers when the finding does not need them"""
    hist_fn = None

    def add(self, key, msg):
        self.append((key, msg + (self.hist_fn() if self.hist_fn else '')))


# --- file objects with a minimal interface ----------------------------------------------------------------------
# What the unchanged tree asks of fileobj= is read(n), seek(pos[, whence]) and tell() (ArFile.__collect_members,
# ArMember.from_file / read); the objects below offer exactly that, or that plus a little, and nothing else.

class ReadSeekTell(object):
    """read / seek / tell over a private BytesIO - no other method, no attribute"""
    __slots__ = ('_b',)

    def __init__(self, raw):
        self._b = io.BytesIO(raw)

    def read(self, size=-1):
        return self._b.read(size)

    def seek(self, offset, whence=0):
        return self._b.seek(offset, whence)

    def tell(self):
        return self._b.tell()


class ReadSeekTellReadline(ReadSeekTell):
    """... plus readline"""
    __slots__ = ()

    def readline(self, size=-1):
        return self._b.readline(size)


class PlainFile(ReadSeekTellReadline):
    """the usual METHODS of a binary file (read, readline, readlines, seek, tell, close, iteration, with) but none
    of the attributes seekable / readable / writable / name / closed / mode / fileno / readinto / getvalue"""
    __slots__ = ()

    def readlines(self, hint=-1):
        return self._b.readlines(hint)

    def close(self):
        pass

    def __iter__(self):
        return iter(self._b)

    def __enter__(self):
        return self

    def __exit__(self, *exc):
        return None


FOBJ_CLASSES = {'fileobj:rst': ReadSeekTell, 'fileobj:rstl': ReadSeekTellReadline, 'fileobj:plain': PlainFile}
FOBJ_KINDS = sorted(FOBJ_CLASSES) + (['mmap'] if _mmap is not None else [])
FOBJ_TEXT = {'fileobj:rst': 'an object with read/seek/tell only', 'fileobj:rstl': 'an object with read/seek/tell/readline only',
             'fileobj:plain': 'an object with the file methods but no seekable/readable/name/closed/mode attributes',
             'mmap': 'a read-only mmap.mmap of the package file'}


_install_new_floors()


_PATH_USERS = {}       # path -> number of live readers that were given this path (harness bookkeeping)


def open_deb(ctx, raw, how, cls=None, tag=''):
    """-> (opener, cleanup).  how: 'fileobj' (BytesIO), 'filename', 'fileobj:rst|rstl|plain' (minimal-interface
    wrappers), 'mmap' (read-only mmap of a real file).  cls: the class to instantiate (DebFile by default).
    tag: distinguishes the files of several readers that are alive at once (one path per reader)"""
    from debian import debfile
    cls = cls or debfile.DebFile
    if how in ('filename', 'mmap'):
        d = ctx.tmpdir() if not getattr(ctx, '_c07dir', None) else ctx._c07dir
        ctx._c07dir = d
        path = os.path.join(d, 'p%d%s.deb' % (os.getpid(), tag))

        def unlink():
            try:
                os.unlink(path)
            except OSError:
                pass

        def release():
            _PATH_USERS[path] = _PATH_USERS.get(path, 0) - 1
            if _PATH_USERS[path] <= 0:
                _PATH_USERS.pop(path, None)
                unlink()
        shared = False
        while _PATH_USERS.get(path, 0) > 0 and not shared:
            # a reader that is still alive uses this path (two readers on the same package): same bytes -> same file;
            # other bytes (hand-written case) -> another path, the live reader keeps its file
            try:
                with open(path, 'rb') as f:
                    shared = f.read() == raw
            except OSError:
                shared = False
            if not shared:
                path = path[:-4] + 'x.deb'
        if not shared:
            unlink()    # never write into a file that an earlier (failed) case may still have mapped
            with open(path, 'wb') as f:
                f.write(raw)
        _PATH_USERS[path] = _PATH_USERS.get(path, 0) + 1
        if how == 'filename':
            return (lambda: cls(filename=path)), release
        f = open(path, 'rb')
        mm = _mmap.mmap(f.fileno(), 0, access=_mmap.ACCESS_READ)

        def cleanup():
            try:
                mm.close()
            except (BufferError, ValueError):
                pass
            f.close()
            release()
        return (lambda: cls(fileobj=mm)), cleanup
    if how in FOBJ_CLASSES:
        return (lambda: cls(fileobj=FOBJ_CLASSES[how](raw))), (lambda: None)
    if how != 'fileobj':
        raise ValueError('unknown way to open a package: %r' % (how,))
    return (lambda: cls(fileobj=io.BytesIO(raw))), (lambda: None)


def outcome(fn):
    """('ok', value) or ('raise', ExceptionTypeName) - for spelling-consistency comparisons"""
    try:
        return ('ok', fn())
    except Exception as e:      # noqa - the outcome class is what is compared
        return ('raise', type(e).__name__)


def spellings(name):
    return [('bare', name), ('dot-slash', './' + name), ('slash', '/' + name)]


def brief(b, limit=60):
    if isinstance(b, (bytes, bytearray)):
        return '%d bytes %r%s' % (len(b), bytes(b[:limit]), '...' if len(b) > limit else '')
    return repr(b)[:200]


def check_pkg(ctx, case, stats):
    """Execute one package case; returns Findings.  `stats` is ctx (count/mon) or None (shrinking re-runs)."""
    out = Findings()
    for _ in pkg_steps(ctx, case, stats, out):
        pass
    return out


def open_class(opened):
    return 'filename' if opened == 'filename' else 'fileobj'


def pkg_steps(ctx, case, stats, out, role=None):
    """One package case as a generator: yields 'opened' once the DebFile exists, 'op' before every query / close
    step, 'ops-done' before the end-of-case comparisons and the final close.  check_pkg runs it to the end; check_multi
    keeps several of them (= several DebFile objects) alive and advances them alternately.  role (multi cases only):
    {'idx': number of this reader, 'alive': [number of OTHER DebFile objects alive now]} - kept up to date by the driver."""
    from debian import debfile

    raw, model = build_pkg(case)
    var_parts = [p for p in ('control', 'data') if model['variants'][p]]
    hist = {'closed': 0}        # number of close() / with-exit steps made on this object so far

    def others_alive():
        return role['alive'][0] if role else 0

    def history_text():
        bits = []
        if hist['closed']:
            bits.append('%d close step(s) %r were made on this object before' % (hist['closed'], hist.get('hows')))
        if others_alive():
            bits.append('%d other DebFile object(s) alive' % others_alive())
        return (' [' + '; '.join(bits) + ']') if bits else ''

    out.hist_fn = history_text

    def mon(name, n=1):
        if stats is not None:
            stats.mon(name, n)
            if name == 'M.query' and var_parts:
                stats.mon('M.var.query', n)     # a query judged on a package with a non-default encoder variant
            if name == 'M.query' and case.get('open') in FOBJ_KINDS:
                stats.mon('M.fobj.query', n)    # a query judged on a DebFile that reads from a minimal-interface object
            if name == 'M.query' and hist['closed']:
                stats.mon('M.close.query', n)   # a query judged on an object that was closed before
                stats.count('close:query-after-close:' + open_class(opened), n)
            if name == 'M.query' and others_alive():
                stats.mon('M.multi.query', n)   # a query judged while at least one other DebFile object is alive
                stats.count('multi:query-by-reader-%d' % (role['idx'] + 1), n)
                stats.count('multi:query:%s' % open_class(opened), n)
                if others_alive() >= 2:
                    stats.count('multi:query-with-two-others-alive', n)
                if hist['closed']:
                    stats.count('multi:query-after-close', n)

    def count(name, n=1):
        if stats is not None:
            stats.count(name, n)

    opened = case.get('open', 'fileobj')
    minimal = opened in FOBJ_KINDS
    opener, cleanup = open_deb(ctx, raw, opened, tag='-r%s' % role.get('tag', role['idx']) if role else '')
    count('open:' + opened)
    if minimal:
        # minimal-interface class: counted per object kind and compression of each part (floors: every kind meets
        # every compression of both parts)
        mon('M.fobj.pkg')
        count('fobj:%s:control:%s' % (opened, case['cc'] or 'none'))
        count('fobj:%s:data:%s' % (opened, case['dc'] or 'none'))
    count('ar-style:' + case['ar'].get('style', 'bare'))
    count('tarfmt:' + case.get('tarfmt', 'gnu'))
    count('config:%s/%s' % (case['cc'] or 'none', case['dc'] or 'none'))
    mon('M.pkg')
    # encoder-variant class: counted from what was actually written (a variant the generator had to give up because
    # the stdlib decoder does not give the tar bytes back is counted apart and never reaches a floor)
    has_variant = False
    for part in ('control', 'data'):
        vid = model['variants'][part]
        if vid:
            has_variant = True
            count('var:%s:%s' % (part, vid))
            count('var:%s:any' % part)
            comp = case['cc' if part == 'control' else 'dc']
            if comp:    # leading bytes of the part as written (gz: magic+CM+FLG, bz2: magic+level, xz: stream flags, lzma: props+dict size)
                head = model['part_head'][part]
                count('var-head:%s:%s' % (comp, {'gz': head[:4], 'bz2': head[:4], 'xz': head[6:8], 'lzma': head[:5]}[comp].hex()))
        elif case.get('cv' if part == 'control' else 'dv'):
            count('var-given-up:%s:%s' % (part, model['variants_given_up'][part]))
        else:
            count('var:%s:encoder-defaults' % part)
    if has_variant:
        mon('M.var.pkg')
    try:
        deb = opener()
    except debfile.DebError as e:
        out.add('wellformed-package-rejected', 'DebFile() raised DebError(%s) for control=%r data=%r ar order %r style %s'
                % (e, part_name('control', case['cc']), part_name('data', case['dc']), case['ar']['order'], case['ar'].get('style')))
        cleanup()
        return
    except Exception as e:
        out.add('constructor-raises/%s' % type(e).__name__, 'DebFile() raised %r on a well-formed package (control=%r data=%r)'
                % (e, part_name('control', case['cc']), part_name('data', case['dc'])))
        cleanup()
        return
    yield 'opened'

    files = model['files']
    scan = brk_scan(case['fields'])
    places = set(s[3] for s in scan)
    # 'judged': every look-alike character is directly followed by a blank; 'tight': some are not (ValueError out
    # of debcontrol() tolerated); 'edge': outside the domain (never generated; hand-written / replayed cases only)
    brk = ('edge' if 'edge' in places else 'tight' if 'tight' in places else 'judged') if scan else None
    sfx = '/value-with-non-LF-line-boundary-character' if brk else ''
    if brk:
        count('brk:pkg:' + brk)
    control_text_want = model['control_raw'].decode('utf-8')
    ops = [('control', 'deb', None), ('scripts', 'deb', None), ('md5', None, 'deb', None), ('md5', 'utf-8', 'deb', None)]
    # second use: further calls (either route) and the caller-side changes that follow them
    reuse = case.get('reuse') or []
    tail = []
    for fam, route, enc, muts in reuse:
        if fam == 'md5':
            ops.append(('md5', enc, route, muts))
            last = [('md5', enc, 'deb', None), ('md5', enc, 'part', None)]
        else:
            ops.append((fam, route, muts))
            last = [(fam, 'deb', None), (fam, 'part', None)]
        for t in last:
            if t not in tail:
                tail.append(t)
    calls = {}          # family -> number of calls made so far
    changed = set()     # families of which the caller changed a returned object
    held = []           # (family, object, call number): results the caller kept and did not change
    earlier = {}        # family -> objects returned so far (identity bookkeeping only)
    touched = []        # objects the caller changed (a reader that hands the same object out again aliases them)

    def second_use(fam, route, obj, muts, ok=True):
        """bookkeeping after a judged call; applies the caller-side changes.  ok: the result equalled the packed
        content when it was returned (only such results are kept for the end-of-case comparison)"""
        n = calls.get(fam, 0) + 1
        calls[fam] = n
        if n > 1:
            mon('M.reuse')
            count('reuse:%s:call-%s' % (fam.split(':')[0], '2' if n == 2 else '3+'))
            count('reuse:route:' + route)
            if fam in changed:
                mon('M.reuse.after-mutation')
                count('reuse:%s:after-caller-change' % fam.split(':')[0])
            if obj is not None:
                same = any(obj is e for e in earlier.get(fam, []))
                count('reuse:%s:%s' % (fam.split(':')[0], 'same-object-as-earlier' if same else 'fresh-object'))
        if obj is None:
            return
        earlier.setdefault(fam, []).append(obj)
        if not muts:
            if ok and reuse and not any(obj is h[1] for h in held) and not any(obj is t for t in touched):
                held.append((fam, obj, n))
            return
        for m in muts:
            keys = list(obj.keys())
            count('reuse:mut:' + m[0])
            if m[0] == 'clear':
                obj.clear()
            elif m[0] == 'add' or not keys:
                name, val = (m[1], m[2]) if m[0] == 'add' else ('added-instead', 'v')
                if fam == 'md5:None':
                    name = name.encode('utf-8')
                obj[name] = val.encode('latin-1') if fam == 'scripts' else val
            elif m[0] == 'set':
                obj[keys[m[1] % len(keys)]] = m[2].encode('latin-1') if fam == 'scripts' else m[2]
            elif m[0] == 'del':
                del obj[keys[m[1] % len(keys)]]
        changed.add(fam)
        touched.append(obj)
        held[:] = [h for h in held if h[1] is not obj]

    def use_sfx(fam):
        if fam in changed:
            return '/after-caller-changed-earlier-result'
        return '/repeated-call' if calls.get(fam) else ''

    cfiles = [(n, d) for n, d in model['cfiles'] if n != 'control']
    cedge = [i for i, (n, _) in enumerate(cfiles) if n not in SCRIPTS and n != 'md5sums' and name_classes(n)]
    for sp in spellings('control'):
        ops.append(('ctlraw', sp))
        ops.append(('ctltext', sp))
    for i in range(len(files)):
        for sp in spellings(files[i][0]):
            ops.append(('has', i, sp))
            ops.append(('content', i, sp))
    rr = random.Random(case.get('qseed', case.get('opseed', 0)))
    present = set(n for n, _ in files) | set(model['dirs']) | set(model['links'])
    absent = []
    others = [i for i in range(len(cfiles)) if i not in cedge]
    rr.shuffle(others)
    for i in cedge + others[:2]:
        for sp in spellings(cfiles[i][0]):
            ops.append(('chas', i, sp))
            ops.append(('ccontent', i, sp))
    ops.append(('iter', 'data'))
    ops.append(('iter', 'control'))
    cpresent = set(n for n, _ in model['cfiles'])
    cabsent = []
    for i in cedge:
        for cand in edge_neighbours(cfiles[i][0]):
            if cand not in cpresent and cand not in cabsent and valid_name(cand) \
                    and not any(p.startswith(cand + '/') for p in cpresent):
                cabsent.append(cand)
    rr.shuffle(cabsent)
    for cand in cabsent[:3]:
        ops.append(('absent', cand, 'control'))
    eabsent = []
    for n, _ in files:
        if '..' in n or n.startswith('.'):
            for cand in edge_neighbours(n):
                if cand not in present and cand not in eabsent and valid_name(cand) \
                        and not any(p.startswith(cand + '/') for p in present):
                    eabsent.append(cand)
    rr.shuffle(eabsent)
    for cand in eabsent[:4]:
        ops.append(('absent', cand, 'data'))
    for n, _ in files:
        for cand in (n + '~', n[:-1], 'x' + n, n.swapcase(), n.lstrip('.'), '.' + n, n.split('/')[-1], n + '/x',
                     n.replace(' ', ''), n.replace(' ', '  ', 1)):
            if cand and cand not in present and cand not in absent and valid_name(cand) \
                    and not any(p.startswith(cand + '/') for p in present):
                absent.append(cand)
    if not files:
        absent = ['nope', '.hidden', 'usr/bin/x y']
    rr.shuffle(absent)
    for cand in [c for c in absent if c not in eabsent[:4]][:6]:
        ops.append(('absent', cand, 'data'))
    for d in model['dirs'][:4] + model['links']:
        ops.append(('other', d))
    rr.shuffle(ops)
    # close-then-use-again class: close steps go between the shuffled queries (positions in permille of the shuffled
    # list, so that queries lie before AND behind them); a 'with' step takes the following `span` queries into the block
    closes = sorted(((min(1000, max(0, c[0])) * len(ops) // 1000, i, c) for i, c in enumerate(case.get('close') or [])),
                    reverse=True)
    for pos, _, c in closes:
        ops.insert(pos, ('close', c[1], c[2] if len(c) > 2 else 0))
    ops.extend(tail)        # after the shuffled part: every re-used family once more through both routes

    def run_op(op):
        kind = op[0]
        count('op:' + kind)
        try:
            if kind == 'control':
                mon('M.query')
                if brk == 'edge':
                    count('brk:out-of-domain:debcontrol-not-compared')
                    return
                if brk:
                    mon('M.brk.fields')
                route, muts = op[1], op[2]
                usfx = use_sfx('control')
                call = 'deb.debcontrol()' if route == 'deb' else 'deb.control.debcontrol()'
                try:
                    got = deb.debcontrol() if route == 'deb' else deb.control.debcontrol()
                except ValueError:
                    if brk != 'tight':
                        raise
                    # the unchanged tree's own validator (str.splitlines() in Deb822.validate_input) refuses the
                    # value while the paragraph is being built: tolerated for tight placements, never demanded
                    count('brk:tight:debcontrol-raised-ValueError')
                    second_use('control', route, None, None)
                    return
                if brk == 'tight':
                    count('brk:tight:debcontrol-returned')
                pairs = [(k, got[k]) for k in got.keys()]
                if pairs != model['fields']:
                    diff = [(a, b) for a, b in zip(pairs, model['fields']) if a != b][:2]
                    out.add('debcontrol-differs-from-packed-fields' + sfx + usfx,
                            '%s (call %d on this DebFile%s) gave %d fields, packed %d; first differences (got, packed): '
                            '%r; got keys %r' % (call, calls.get('control', 0) + 1,
                                                 ', caller changed an earlier result' if 'control' in changed else '',
                                                 len(pairs), len(model['fields']), diff, list(got.keys())))
                elif brk:
                    count('brk:fields-verbatim')
                second_use('control', route, got, muts, pairs == model['fields'])
            elif kind == 'scripts':
                mon('M.query')
                route, muts = op[1], op[2]
                usfx = use_sfx('scripts')
                got = deb.scripts() if route == 'deb' else deb.control.scripts()
                if got != model['scripts']:
                    out.add('scripts-differ-from-packed' + usfx,
                            '%s (call %d on this DebFile%s) keys %r, packed %r; differing: %r' % (
                                'deb.scripts()' if route == 'deb' else 'deb.control.scripts()', calls.get('scripts', 0) + 1,
                                ', caller changed an earlier result' if 'scripts' in changed else '',
                                sorted(got), sorted(model['scripts']),
                                [(k, brief(got.get(k)), brief(model['scripts'].get(k)))
                                 for k in sorted(set(got) | set(model['scripts'])) if got.get(k) != model['scripts'].get(k)][:2]))
                second_use('scripts', route, got, muts, got == model['scripts'])
            elif kind == 'md5':
                mon('M.query')
                enc, route, muts = op[1], op[2], op[3]
                fam = 'md5:%s' % enc
                usfx = use_sfx(fam)
                part = deb if route == 'deb' else deb.control
                got = part.md5sums(encoding=enc) if enc else part.md5sums()
                want = dict(((k.encode('utf-8') if enc is None else k), v) for k, v in model['md5'].items())
                if got != want:
                    out.add('md5sums-differ-from-packed' + usfx,
                            '%s.md5sums(encoding=%r) (call %d with this encoding on this DebFile%s): missing %r, '
                            'unexpected %r, wrong sums for %r' % (
                                'deb' if route == 'deb' else 'deb.control', enc, calls.get(fam, 0) + 1,
                                ', caller changed an earlier result' if fam in changed else '',
                                sorted(set(want) - set(got))[:3], sorted(set(got) - set(want))[:3],
                                [k for k in want if k in got and got[k] != want[k]][:3]))
                second_use(fam, route, got, muts, got == want)
            elif kind == 'ctlraw':
                mon('M.query')
                spk, sp = op[1]
                if not deb.control.has_file(sp):
                    out.add('control-member-not-found/%s-spelling' % spk, 'control.has_file(%r) is False' % sp)
                if brk:
                    mon('M.brk.bytes')
                got = deb.control.get_content(sp)
                if got != model['control_raw']:
                    out.add('control-content-differs' + sfx, 'control.get_content(%r) -> %s, packed %s' % (sp, brief(got), brief(model['control_raw'])))
            elif kind == 'ctltext':
                mon('M.query')
                spk, sp = op[1]
                if brk:
                    mon('M.brk.text')
                how = rr.randrange(3)
                if how == 0:
                    got = deb.control.get_content(sp, encoding='utf-8')
                else:
                    f = deb.control.get_file(sp, encoding='utf-8')
                    got = f.read() if how == 1 else ''.join(f.readlines())
                    f.close()
                count('ctltext:' + ['get_content', 'get_file.read', 'get_file.readlines-joined'][how])
                if got != control_text_want:
                    out.add('control-text-differs' + sfx,
                            'control text of %r (encoding=utf-8, via %s) -> %d chars %r, packed %d chars %r' % (
                                sp, ['get_content', 'get_file().read()', "''.join(get_file().readlines())"][how],
                                len(got) if got is not None else -1, got if got is None else got[:120],
                                len(control_text_want), control_text_want[:120]))
            elif kind == 'has':
                mon('M.query')
                spk, sp = op[2]
                if name_classes(files[op[1]][0]):
                    mon('M.edge.data')
                got = deb.data.has_file(sp)
                via = sp in deb.data
                if got is not True or via is not True:
                    out.add('packed-file-not-found/%s-spelling' % spk,
                            'data.has_file(%r) -> %r, (%r in data) -> %r; packed as ./%s' % (sp, got, sp, via, files[op[1]][0]))
            elif kind == 'content':
                mon('M.query')
                spk, sp = op[2]
                want = files[op[1]][1]
                if name_classes(files[op[1]][0]):
                    mon('M.edge.data')
                how = rr.randrange(3)
                if how == 0:
                    got = deb.data.get_content(sp)
                elif how == 1:
                    f = deb.data.get_file(sp)
                    got = f.read()
                    f.close()
                else:
                    got = deb.data[sp]
                if got != want:
                    out.add('file-content-differs/%s-spelling' % spk,
                            'data content of %r (via %s) -> %s, packed %s' % (
                                sp, ['get_content', 'get_file().read()', '__getitem__'][how], brief(got), brief(want)))
            elif kind == 'absent':
                mon('M.query')
                name = op[1]
                part = deb.control if op[2] == 'control' else deb.data
                psfx = '/control-part' if op[2] == 'control' else ''
                count('absent:' + op[2])
                res = [(spk, outcome(lambda sp=sp: part.has_file(sp))) for spk, sp in spellings(name)]
                if any(o != ('ok', False) for _, o in res):
                    out.add('never-packed-name-reported-present' + psfx,
                            '%s.has_file over spellings of absent %r -> %r' % (op[2], name, res))
                res = [(spk, outcome(lambda sp=sp: sp in part)) for spk, sp in spellings(name)]
                if any(o != ('ok', False) for _, o in res):
                    out.add('never-packed-name-reported-present' + psfx,
                            '(name in %s) over spellings of absent %r -> %r' % (op[2], name, res))
                res = [(spk, outcome(lambda sp=sp: part.get_content(sp))) for spk, sp in spellings(name)]
                if len(set(o for _, o in res)) != 1:
                    out.add('spellings-answered-differently' + psfx,
                            '%s.get_content over spellings of absent %r -> %r' % (op[2], name, res))
            elif kind == 'chas':
                mon('M.query')
                spk, sp = op[2]
                name = cfiles[op[1]][0]
                if name_classes(name):
                    mon('M.edge.control')
                got = deb.control.has_file(sp)
                via = sp in deb.control
                if got is not True or via is not True:
                    out.add('control-member-not-found/%s-spelling' % spk,
                            'control.has_file(%r) -> %r, (%r in control) -> %r; packed as ./%s' % (sp, got, sp, via, name))
            elif kind == 'ccontent':
                mon('M.query')
                spk, sp = op[2]
                name, want = cfiles[op[1]]
                if name_classes(name):
                    mon('M.edge.control')
                how = rr.randrange(3)
                if how == 0:
                    got = deb.control.get_content(sp)
                elif how == 1:
                    f = deb.control.get_file(sp)
                    got = f.read()
                    f.close()
                else:
                    got = deb.control[sp]
                if got != want:
                    out.add('control-member-content-differs/%s-spelling' % spk,
                            'control content of %r (via %s) -> %s, packed %s' % (
                                sp, ['get_content', 'get_file().read()', '__getitem__'][how], brief(got), brief(want)))
            elif kind == 'iter':
                mon('M.query')
                mon('M.iter')
                which = op[1]
                part = deb.control if which == 'control' else deb.data
                packed = dict(model['cfiles']) if which == 'control' else dict(files)
                nonfiles = set() if which == 'control' else set(model['dirs']) | set(model['links'])
                listed = list(iter(part))
                by_norm = {}
                for x in listed:
                    nx = x[2:] if x.startswith('./') else x[1:] if x.startswith('/') else x
                    if nx.endswith('/') and nx[:-1] in nonfiles:
                        nx = nx[:-1]
                    by_norm.setdefault(nx, x)
                missing = [n for n in packed if n not in by_norm]
                if missing:
                    out.add('packed-file-not-listed-by-iteration/%s-part' % which,
                            'iter(deb.%s) lists %r; packed files missing from it: %r' % (which, listed[:20], missing[:3]))
                phantom = [x for nx, x in by_norm.items() if nx not in packed and nx not in nonfiles and nx not in ('', '.')]
                if phantom:
                    out.add('never-packed-name-listed-by-iteration/%s-part' % which,
                            'iter(deb.%s) lists %r which were never packed (packed: %r)' % (which, phantom[:3], sorted(packed)[:20]))
                # a listed file must be found and readable under exactly the spelling that was listed
                cands = [n for n in packed if n in by_norm]
                rr.shuffle(cands)
                cands.sort(key=lambda n: not name_classes(n))
                for n in cands[:3]:
                    x = by_norm[n]
                    count('iter:fed-back')
                    if name_classes(n):
                        mon('M.edge.' + which)
                    if part.has_file(x) is not True or (x in part) is not True:
                        out.add('listed-name-not-found/%s-part' % which,
                                'iter(deb.%s) lists %r but has_file(%r) -> %r' % (which, x, x, part.has_file(x)))
                    else:
                        got = part.get_content(x)
                        if got != packed[n]:
                            out.add('listed-name-content-differs/%s-part' % which,
                                    '%s.get_content(%r) (spelling as listed by iteration) -> %s, packed %s'
                                    % (which, x, brief(got), brief(packed[n])))
            elif kind == 'other':
                # directories / symlinks: the statement only demands identical answers for the three spellings
                mon('M.query')
                name = op[1]
                res = [(spk, outcome(lambda sp=sp: deb.data.has_file(sp))) for spk, sp in spellings(name)]
                if len(set(o for _, o in res)) != 1:
                    out.add('spellings-answered-differently', 'has_file over spellings of non-file %r -> %r' % (name, res))
                res = [(spk, outcome(lambda sp=sp: deb.data.get_content(sp))) for spk, sp in spellings(name)]
                if len(set(o for _, o in res)) != 1:
                    out.add('spellings-answered-differently', 'get_content over spellings of non-file %r -> %r' % (name, res))
        except Exception as e:
            what = {'control': 'debcontrol', 'scripts': 'scripts', 'md5': 'md5sums', 'ctlraw': 'control-query',
                    'ctltext': 'control-text-query', 'has': 'data-has_file', 'content': 'data-content-query',
                    'chas': 'control-has_file', 'ccontent': 'control-member-query', 'iter': 'iteration'}.get(kind, kind)
            usfx = ''
            if kind in ('control', 'scripts', 'md5'):
                fam = kind if kind != 'md5' else 'md5:%s' % op[1]
                usfx = use_sfx(fam)
                calls[fam] = calls.get(fam, 0) + 1
            out.add('%s-raises/%s%s%s' % (what, type(e).__name__, sfx if kind in ('control', 'ctlraw', 'ctltext') else '', usfx),
                    '%r raised %r' % (op, e))

    def do_close(how):
        """close()-family step; the object is used again afterwards.  Established on the unchanged tree for fileobj=
        (all kinds) and filename= and all 25 compression pairs: every query answers after it exactly as before."""
        count('close:how:' + how)
        count('close:open:' + opened)
        count('close:%s:control:%s' % (open_class(opened), case['cc'] or 'none'))
        count('close:%s:data:%s' % (open_class(opened), case['dc'] or 'none'))
        mon('M.close')
        if how == 'deb.close':
            deb.close()
        elif how == 'control.close':
            deb.control.close()
        elif how == 'data.close':
            deb.data.close()
        elif how == 'parts':
            deb.data.close()
            deb.control.close()
        elif how == 'twice':
            deb.close()
            deb.close()
        else:
            raise ValueError('unknown close step %r' % (how,))

    i = 0
    while i < len(ops):
        op = ops[i]
        i += 1
        if op[0] != 'close':
            yield 'op'
            run_op(op)
            continue
        yield 'op'
        how = op[1]
        count('op:close')
        try:
            if how == 'with':
                # `with deb:` around the next `span` queries (DebFile has __enter__/__exit__ on the unchanged tree;
                # DebPart / ArFile / ArMember have not - nothing is asked of them); afterwards the object is used again
                count('close:how:with')
                count('close:open:' + opened)
                count('close:%s:control:%s' % (open_class(opened), case['cc'] or 'none'))
                count('close:%s:data:%s' % (open_class(opened), case['dc'] or 'none'))
                mon('M.close')
                inside = [o for o in ops[i:i + max(0, op[2])] if o[0] != 'close']
                i += len(inside)
                with deb:
                    for o in inside:
                        yield 'op'
                        count('close:query-inside-with')
                        run_op(o)
            else:
                do_close(how)
            hist['closed'] += 1
            hist.setdefault('hows', []).append(how)
        except Exception as e:      # noqa - close() / with must not raise on an object that is in order
            out.add('close-raises/%s/mid-history' % type(e).__name__, 'close step %r raised %r' % (how, e))
    yield 'ops-done'
    # results the caller kept without changing them: still the packed content?
    for fam, obj, n in held:
        mon('M.held')
        try:
            if fam == 'control':
                ok = [(k, obj[k]) for k in obj.keys()] == model['fields']
            elif fam == 'scripts':
                ok = obj == model['scripts']
            else:
                enc = fam.split(':', 1)[1]
                ok = obj == dict(((k.encode('utf-8') if enc == 'None' else k), v) for k, v in model['md5'].items())
        except Exception as e:      # noqa
            ok = False
        if not ok:
            out.add('earlier-result-changed-by-later-calls/%s' % fam.split(':')[0],
                    'the object returned by call %d of %s, not touched by the caller, no longer equals the packed content '
                    'at the end of the case (%d calls in all): %s' % (n, fam, calls.get(fam, 0), repr(obj)[:300]))
    try:
        deb.close()
    except Exception as e:
        out.add('close-raises/%s' % type(e).__name__, repr(e))
    del deb
    cleanup()
    if minimal and not role:
        # the container layer on its own: ArFile(fileobj=<same kind of object>) must list the members that were
        # written and give their bytes back through read()
        from debian import arfile
        mon('M.fobj.ar')
        opener, cleanup = open_deb(ctx, raw, opened, cls=arfile.ArFile)
        try:
            af = opener()
            want_names = [n for n, _ in model['ar_members']]
            if af.getnames() != want_names:
                out.add('arfile-member-names-differ/minimal-file-object',
                        'ArFile(fileobj=%s).getnames() -> %r, written %r' % (FOBJ_TEXT[opened], af.getnames(), want_names))
            else:
                for m, (n, data) in zip(af.getmembers(), model['ar_members']):
                    got = m.read()
                    if got != data:
                        out.add('arfile-member-content-differs/minimal-file-object',
                                'ArFile(fileobj=%s): member %r read() -> %s, written %s' % (FOBJ_TEXT[opened], n, brief(got), brief(data)))
                        break
            del af
        except Exception as e:
            out.add('arfile-raises/%s/minimal-file-object' % type(e).__name__, 'ArFile(fileobj=%s): %r' % (FOBJ_TEXT[opened], e))
        cleanup()


def check_set(ctx, case, stats):
    from debian import debfile
    out = Findings()
    names = case['members']
    style = case.get('style', 'bare')
    blank = [n for n in names if is_blank_name(n)]
    look = [n for n in names if look_part(n) and not is_blank_name(n)]
    strict = True
    if blank:
        # a name with a blank behind it exists only in the GNU style ("name /"); the writer is told not to refuse it
        style, strict = 'gnu', False
    elif style == 'gnu' and not all(arwriter.fits(n, 'gnu') for n in names):
        style = 'bare'
    var = case.get('var') or []
    var = [var[i] if i < len(var) else None for i in range(len(names))]
    raw = arwriter.build_ar([(n, std_blob(n, v)) for n, v in zip(names, var)], style=style, strict=strict)
    want = acceptable(names)
    # a repeated identical name is ONE candidate (so it never makes a set defective), but the statement does not
    # promise that an archive with repeated members is readable either: for those, DebError is tolerated too.
    dup = len(set(names)) != len(names)
    # look-alike names are never candidates: a set whose only "control" / "data" member is a look-alike lacks that
    # part and must be rejected AT CONSTRUCTION.  Where the statement is silent either outcome is tolerated:
    #  - a complete set with a look-alike member next to the real parts (dpkg gives up on unknown members, the
    #    unchanged tree ignores them);
    #  - a blank-suffixed part name, unless the set is defective both when the name is read as written and when it
    #    is read as the supported name.
    twin = bool(look) and want
    blank_decides = bool(blank) and (want or acceptable([n.strip() for n in names]))
    either = twin or blank_decides
    how = case.get('open', 'fileobj')
    if stats is not None:
        stats.mon('M.accept')
        if want and dup:
            stats.count('set:acceptable-with-repeated-member(either-outcome)')
        stats.count('set:size=%d' % min(len(names), 6))
        stats.count('set:acceptable' if want else 'set:defective')
        if any(var):
            stats.count('set:with-encoder-variants')
            stats.count('set:with-encoder-variants:' + ('acceptable' if want else 'defective'))
        stats.count('ar-style:' + style)
        stats.count('open:' + how)
        s = set(names)
        for plain, sibs, others in (('data.tar', DATA_NAMES, CTRL_NAMES), ('control.tar', CTRL_NAMES, DATA_NAMES)):
            mine = s.intersection(sibs)
            if plain in mine and len(mine) >= 2:
                stats.count('set:plain+compressed-sibling')
                if len(mine) == 2 and INFO in s and len(s.intersection(others)) == 1:
                    other = (mine - {plain}).pop()
                    first = 'plain-first' if names.index(plain) < names.index(other) else 'compressed-first'
                    stats.count('set:sibling-decides:' + first)
        look_info = [n for n in names if n != INFO and 'binary' in n.lower() and not n.startswith('_')]
        if look or blank or look_info or case.get('look'):
            stats.mon('M.look')
            stats.count('look:class:' + case.get('look', 'unlabelled'))
            if look_info and INFO not in s:
                stats.count('look:must-reject:debian-binary-look-alike')
            if either:
                stats.count('look:either-outcome-tolerated:' + ('complete-set-plus-look-alike' if twin else 'blank-suffixed-name'))
            elif not want:
                stats.mon('M.look.must-reject')
                for n in set(look):
                    stats.count('look:must-reject:name:' + n)
                for n in set(blank):
                    stats.count('look:must-reject:blank-suffixed-name')
                if INFO in s and look:
                    # the sets the class is about: everything in order except that a look-alike stands where a part should
                    nc, nd = len(s.intersection(CTRL_NAMES)), len(s.intersection(DATA_NAMES))
                    if nc <= 1 and nd <= 1 and nc + nd >= 1:
                        stats.mon('M.look.replaced-part')
                        stats.count('look:replaced:' + ('both' if nc + nd == 0 else 'control' if nc == 0 else 'data'))
                        stats.count('look:replaced:open:' + how)
                        stats.count('look:replaced:first-member:' + ('look-alike' if names[0] in look else 'other'))
                        stats.count('look:replaced:last-member:' + ('look-alike' if names[-1] in look else 'other'))
        if how in FOBJ_KINDS:
            stats.mon('M.fobj.set')
    lsfx = '/look-alike-part-name' if look else '/blank-suffixed-part-name' if blank else ''
    opener, cleanup = open_deb(ctx, raw, how)
    try:
        try:
            deb = opener()
        except debfile.DebError as e:
            if stats is not None:
                stats.mon('M.reject')
            if want and not dup and not either:
                out.add('acceptable-member-set-rejected', 'members %r (one candidate per part) rejected: DebError(%s)' % (names, e))
            return out
        except Exception as e:
            if want or either:
                out.add('constructor-raises/%s' % type(e).__name__, 'members %r%s: %r' % (
                    names, ' (acceptance or DebError are both tolerated for this set, nothing else)' if either and not want else '', e))
            else:
                out.add('defective-set-rejected-with-wrong-exception/%s' % type(e).__name__,
                        'members %r must be rejected with DebError, got %r' % (names, e))
            return out
        if not want and not either:
            s = set(names)
            why = ('no debian-binary' if INFO not in s else
                   'control candidates %r, data candidates %r' % (sorted(s.intersection(CTRL_NAMES)), sorted(s.intersection(DATA_NAMES))))
            nc, nd = len(s.intersection(CTRL_NAMES)), len(s.intersection(DATA_NAMES))
            key = ('missing-debian-binary' if INFO not in s else 'missing-part' if (nc == 0 or nd == 0) else 'too-many-candidates')
            later = ''
            if look or blank:
                # for the witness only: what the accepted object does when it is asked
                later = '; the object was constructed, and then debcontrol() -> %r, data.has_file(%r) -> %r' % (
                    outcome(lambda: sorted(deb.debcontrol().keys())), STD_FILE[0], outcome(lambda: deb.data.has_file(STD_FILE[0])))
                why += ' (%r only look like part names)' % sorted(set(look + blank))
            out.add('defective-set-accepted/' + key + lsfx, 'members %r accepted although %s%s' % (names, why, later))
            return out
        # accepted, as it must be (or may be): the chosen parts must serve the standard content
        if stats is not None:
            stats.mon('M.accepted-served')
            if any(var):
                stats.mon('M.var.accepted-served')
            if look or blank:
                stats.count('look:accepted-and-served')
        try:
            got = deb.debcontrol()
            if [(k, got[k]) for k in got.keys()] != STD_CONTROL:
                out.add('debcontrol-differs-from-packed-fields', 'members %r: debcontrol() -> %r' % (names, dict(got)))
            if deb.scripts() != {'postinst': b'#!/bin/sh\n'}:
                out.add('scripts-differ-from-packed', 'members %r: scripts() -> %r' % (names, deb.scripts()))
            for spk, sp in spellings(STD_FILE[0]):
                if deb.data.has_file(sp) is not True:
                    out.add('packed-file-not-found/%s-spelling' % spk, 'members %r: has_file(%r) False' % (names, sp))
                elif deb.data.get_content(sp) != STD_FILE[1]:
                    out.add('file-content-differs/%s-spelling' % spk, 'members %r: get_content(%r) differs' % (names, sp))
            deb.close()
        except Exception as e:
            out.add('accepted-set-query-raises/%s%s' % (type(e).__name__, lsfx), 'members %r: %r' % (names, e))
        return out
    finally:
        deb = None
        cleanup()


def check_multi(ctx, case, stats):
    """Several DebFile objects alive at once.  Every reader is a pkg_steps generator (= one package description, one
    DebFile, its own shuffled queries / second uses / close steps, judged against ITS OWN packing description); the
    driver constructs them one after the other, keeps all of them alive and advances them alternately."""
    out = Findings()
    pkgs = case['pkgs']
    n = len(pkgs)
    sched = case.get('sched') or {}
    rs = random.Random(sched.get('seed', 0))
    burst = max(1, sched.get('burst', 1))
    state = ['new'] * n             # new -> open (constructed, being asked) -> waiting (all asked, object kept) -> done
    # two readers on the same package given by file name read the same path
    tags = [0 if (case.get('same') and i == 1) else i for i in range(n)]
    roles = [{'idx': i, 'tag': tags[i], 'alive': [0]} for i in range(n)]
    outs = [Findings() for _ in range(n)]
    gens = [pkg_steps(ctx, pkgs[i], stats, outs[i], roles[i]) for i in range(n)]

    def count(name, k=1):
        if stats is not None:
            stats.count(name, k)

    def refresh():
        for i in range(n):
            roles[i]['alive'][0] = sum(1 for j in range(n) if j != i and state[j] in ('open', 'waiting'))

    def advance(i):
        try:
            ev = next(gens[i])
        except StopIteration:
            ev = None
            state[i] = 'done'
        else:
            if ev == 'opened':
                state[i] = 'open'
            elif ev == 'ops-done':
                state[i] = 'waiting'
        refresh()
        return ev

    if stats is not None:
        stats.mon('M.multi')
        count('multi:readers=%d' % n)
        count('multi:same-package' if case.get('same') else 'multi:different-packages')
        opens = set(open_class(c.get('open', 'fileobj')) for c in pkgs)
        count('multi:open:' + ('mixed' if len(opens) > 1 else 'all-' + opens.pop()))
        names = [(part_name('control', c['cc']), part_name('data', c['dc'])) for c in pkgs]
        shared = any(names[i][k] == names[j][k] for i in range(n) for j in range(i) for k in (0, 1))
        differ = any(names[i][k] != names[j][k] for i in range(n) for j in range(i) for k in (0, 1))
        if shared:
            count('multi:some-part-name-shared-between-readers')
        if differ:
            count('multi:some-part-name-differs-between-readers')
    try:
        # reader 1 is constructed (and may answer `pre` queries) before reader 2 exists
        advance(0)
        pre = sched.get('pre', 0)
        for _ in range(pre + 1 if pre else 0):
            if state[0] != 'open':
                break
            advance(0)
            count('multi:step-of-first-reader-before-second-constructed')
        if pre:
            count('multi:first-reader-asked-before-second-constructed')
        else:
            count('multi:first-reader-asked-only-after-second-constructed')
        for i in range(1, n):
            advance(i)
        last = None
        while any(st == 'open' for st in state):
            ready = [i for i in range(n) if state[i] == 'open']
            others = [i for i in ready if i != last]
            i = rs.choice(others or ready)
            if last is not None and i != last:
                count('multi:switch-between-readers')
            last = i
            for _ in range(rs.randint(1, burst)):
                if advance(i) != 'op':
                    break
            if state[i] == 'waiting' and rs.random() < 0.5:
                # this reader is finished (end-of-case comparisons, close(), object dropped) while the others go on
                count('multi:reader-closed-while-others-are-still-asked')
                advance(i)
        order = [i for i in range(n) if state[i] == 'waiting']
        rs.shuffle(order)
        for i in order:
            advance(i)
    finally:
        for g in gens:
            g.close()
    for i in range(n):
        c = pkgs[i]
        for key, msg in outs[i]:
            out.append((key, 'reader %d of %d%s (Package %s, %s + %s, %s): %s' % (
                i + 1, n, ' on the same package' if case.get('same') and i < 2 else '',
                dict((k, v) for k, v in c['fields']).get('Package'), part_name('control', c['cc']),
                part_name('data', c['dc']), c.get('open', 'fileobj'), msg)))
    return out


# --- shrinking (only on a violation; every candidate is re-executed and kept only if the same mechanism fires)

def _multi_candidates(case):
    pkgs = case['pkgs']
    if len(pkgs) > 2:
        for i in range(len(pkgs)):
            yield dict(case, pkgs=pkgs[:i] + pkgs[i + 1:], same=bool(case.get('same') and i > 1))
    sched = case.get('sched') or {}
    if sched.get('pre'):
        yield dict(case, sched=dict(sched, pre=0))
    if sched.get('burst', 1) != 1:
        yield dict(case, sched=dict(sched, burst=1))
    if not case.get('same'):
        for i, c in enumerate(pkgs):
            for key in ('reuse', 'close', 'extra', 'links'):
                if c.get(key):
                    yield dict(case, pkgs=pkgs[:i] + [dict(c, **{key: []})] + pkgs[i + 1:])
        for i, c in enumerate(pkgs):
            for cand in _shrink_candidates(c):
                yield dict(case, pkgs=pkgs[:i] + [cand] + pkgs[i + 1:])
    else:
        for key in ('reuse', 'close', 'extra', 'links'):
            if any(c.get(key) for c in pkgs):
                yield dict(case, pkgs=[dict(c, **{key: []}) for c in pkgs])


def shrink_multi(ctx, case, key, budget=40):
    cur = case
    progress = True
    while progress and budget > 0:
        progress = False
        for cand in _multi_candidates(cur):
            budget -= 1
            if budget <= 0:
                break
            try:
                f = check_multi(ctx, cand, None)
            except Exception:
                continue
            if any(k == key for k, _ in f):
                cur = cand
                progress = True
                break
    return cur


def _shrink_candidates(case):
    def variant(**kw):
        c = dict(case)
        c.update(kw)
        return c
    files = case['files']
    if len(files) > 1:
        for i in range(len(files)):
            yield variant(files=[files[i]], md5={'order': [0], 'final_nl': case['md5'].get('final_nl', True)}, links=[])
        for i in range(len(files)):
            rest = files[:i] + files[i + 1:]
            yield variant(files=rest, md5={'order': list(range(len(rest))), 'final_nl': case['md5'].get('final_nl', True)}, links=[])
    if len(files) == 1:
        yield variant(files=[], md5={'order': [], 'final_nl': True}, links=[])
    if case.get('links'):
        yield variant(links=[])
    if case.get('extra'):
        yield variant(extra=[])
        if len(case['extra']) > 1:
            for e in case['extra']:
                yield variant(extra=[e])
    closes = case.get('close') or []
    if closes:
        yield variant(close=[])
        if len(closes) > 1:
            for c in closes:
                yield variant(close=[c])
        for c in closes:
            if c[1] not in ('deb.close', 'with'):
                yield variant(close=[[c[0], 'deb.close', 0]])
    reuse = case.get('reuse') or []
    if reuse:
        yield variant(reuse=[])
        if len(reuse) > 1:
            for i in range(len(reuse)):
                yield variant(reuse=[reuse[i]])
            for i in range(len(reuse)):
                yield variant(reuse=reuse[:i] + reuse[i + 1:])
        for i, (fam, route, enc, muts) in enumerate(reuse):
            if len(muts) > 1:
                for m in muts:
                    yield variant(reuse=reuse[:i] + [[fam, route, enc, [m]]] + reuse[i + 1:])
    if case.get('scripts'):
        yield variant(scripts=[])
        for s in case['scripts']:
            yield variant(scripts=[s])
    if case.get('dirs'):
        yield variant(dirs=False)
    if len(case['fields']) > 1:
        yield variant(fields=[['Package', 'p']])
        for i in range(len(case['fields'])):
            yield variant(fields=[case['fields'][i]])
    for k, v in case['fields']:
        if '\n' in v and any(c in BRK for c in v):
            for li, line in enumerate(v.split('\n')):
                if any(c in BRK for c in line):        # the line with the look-alike character alone
                    yield variant(fields=[[k, split_line(line, li)[1]]])
    if case.get('tarfmt', 'gnu') != 'gnu':
        yield variant(tarfmt='gnu')
    if case.get('open', 'fileobj') != 'fileobj':      # filename= / minimal-interface object / mmap -> BytesIO
        yield variant(open='fileobj')
        if case.get('open') in FOBJ_KINDS and case.get('open') != 'fileobj:rst':
            yield variant(open='fileobj:rst')
    ar = case['ar']
    if ar['order'] != ['info', 'control', 'data'] or ar.get('hdr') or ar.get('style') != 'bare':
        yield variant(ar={'order': ['info', 'control', 'data'], 'style': 'bare', 'hdr': []})
        yield variant(ar={'order': [k for k in ar['order'] if k in ('info', 'control', 'data')], 'style': ar.get('style', 'bare'), 'hdr': []})
    for i, (n, spec) in enumerate(files):
        if spec != {'lit': 'x'}:
            f2 = list(files)
            f2[i] = [n, {'lit': 'x'}]
            yield variant(files=f2)
    if case.get('level', 1) != 1:
        yield variant(level=1)
    if case.get('cv') or case.get('dv'):        # non-default encoder parameters -> the encoder's defaults
        yield variant(cv=None, dv=None)
        if case.get('cv') and case.get('dv'):
            yield variant(cv=None)
            yield variant(dv=None)
        for vk in ('cv', 'dv'):
            v = case.get(vk)
            if v and (v.get('cuts') or v.get('per')):     # several streams -> one
                yield variant(**{vk: dict((k, x) for k, x in v.items() if k not in ('cuts', 'per'))})
    if case['cc'] or case['dc']:
        yield variant(cc='', dc='', cv=None, dv=None)
        if case['cc'] and case['dc']:
            yield variant(cc='', cv=None)
            yield variant(dc='', dv=None)
    if not case.get('ctl_final_nl', True):
        yield variant(ctl_final_nl=True)
    if not case['md5'].get('final_nl', True):
        yield variant(md5={'order': case['md5'].get('order'), 'final_nl': True})


def shrink_pkg(ctx, case, key, budget=60):
    cur = case
    progress = True
    while progress and budget > 0:
        progress = False
        for cand in _shrink_candidates(cur):
            budget -= 1
            if budget <= 0:
                break
            try:
                f = check_pkg(ctx, cand, None)
            except Exception:
                continue
            if any(k == key for k, _ in f):
                cur = cand
                progress = True
                break
    return cur


def shrink_set(ctx, case, key):
    cur = case
    if cur.get('var'):
        cand = dict((k, v) for k, v in cur.items() if k != 'var')
        if any(k == key for k, _ in check_set(ctx, cand, None)):
            cur = cand
    progress = True
    while progress:
        progress = False
        for i in range(len(cur['members'])):
            # first with BytesIO, then with the way of opening the case came with (a witness may need its file object)
            for how in ['fileobj'] + ([cur['open']] if cur.get('open', 'fileobj') != 'fileobj' else []):
                cand = dict(cur, members=cur['members'][:i] + cur['members'][i + 1:], open=how)
                if cur.get('var'):
                    cand['var'] = cur['var'][:i] + cur['var'][i + 1:]
                if any(k == key for k, _ in check_set(ctx, cand, None)):
                    cur = cand
                    progress = True
                    break
            if progress:
                break
    if cur.get('open', 'fileobj') != 'fileobj':
        cand = dict(cur, open='fileobj')
        if any(k == key for k, _ in check_set(ctx, cand, None)):
            cur = cand
    return cur


MAX_SHRINKS = 16        # per shard: later witnesses are recorded as they were generated (bounds the time of a failing run)


def report(ctx, case, findings, shrinker):
    seen = set()
    for key, msg in findings:
        if key in seen:
            continue
        seen.add(key)
        small = case
        shrinks = getattr(ctx, '_c07_shrinks', 0)
        if ctx.viol_count[key] < 3 and not ctx.replay and shrinks < MAX_SHRINKS:
            ctx._c07_shrinks = shrinks + 1
            try:
                small = shrinker(ctx, case, key)
                if small is not case:
                    again = [m for k, m in {'set': check_set, 'multi': check_multi}.get(case['kind'], check_pkg)(ctx, small, None) if k == key]
                    if again:
                        msg = again[0]
                    else:
                        small = case
            except Exception:
                small = case
        if small.get('open') in FOBJ_KINDS:
            msg += ' [the package is read from fileobj=%s]' % FOBJ_TEXT[small['open']]
        if small.get('kind') == 'pkg':
            msg += variant_text(small)
        elif any(small.get('var') or []):
            msg += ' [part members written with encoder parameters %s]' % json.dumps(small['var'], sort_keys=True, ensure_ascii=True)
        ctx.violation(key, msg, small)


def run_case(ctx, case):
    kind = case['kind']
    if kind == 'pkg':
        describe_pkg(ctx, case)
        findings = check_pkg(ctx, case, ctx)
        if case['files'] and case['scripts']:
            ctx.nontrivial(case)
        report(ctx, case, findings, shrink_pkg)
    elif kind == 'multi':
        for c in case['pkgs']:
            describe_pkg(ctx, c)
        findings = check_multi(ctx, case, ctx)
        if all(c['files'] and c['scripts'] for c in case['pkgs']):
            ctx.nontrivial(case)
        report(ctx, case, findings, shrink_multi)
    elif kind == 'set':
        findings = check_set(ctx, case, ctx)
        report(ctx, case, findings, shrink_set)
    elif kind == 'dpkgdeb':
        dpkg_sanity(ctx, case)
    elif kind == 'toolcheck':
        tool_sanity(ctx, case)
    else:
        raise ValueError('unknown case kind %r' % kind)


def describe_pkg(ctx, case):
    """workload bookkeeping of one package description (counters that do not depend on what the library answers)"""
    ctx.extra.setdefault('config_pairs_covered', set())
    if not isinstance(ctx.extra['config_pairs_covered'], set):
        ctx.extra['config_pairs_covered'] = set(ctx.extra['config_pairs_covered'])
    ctx.extra['config_pairs_covered'].add('%s/%s' % (case['cc'] or 'none', case['dc'] or 'none'))
    for n, _ in case['files']:
        comps = n.split('/')
        if any(c.startswith('.') for c in comps):
            ctx.count('name:leading-dot')
        if n.startswith('.'):
            ctx.count('name:leading-dot-first-component')
        if ' ' in n:
            ctx.count('name:space')
        if len(comps) > 1:
            ctx.count('name:subdir')
        if len(n.encode('utf-8')) > 100:
            ctx.count('name:longer-than-100')
        if not n.isascii():
            ctx.count('name:non-ascii')
    for part, names in (('data', [n for n, _ in case['files']]),
                        ('control', [n for n, _ in case.get('extra', [])])):
        for n in names:
            for cls in name_classes(n):
                if cls != 'trailing-dot' or part == 'control':
                    ctx.count('edge:%s:%s' % (part, cls))
            if n in EDGE:
                ctx.count('edge:%s:listed-name' % part)
                ctx.extra.setdefault('edge_names_in_%s_part' % part, set()).add(n)
    reuse = case.get('reuse') or []
    if reuse:
        ctx.count('reuse:pkg')
        if any(m for _, _, _, m in reuse):
            ctx.count('reuse:pkg:with-caller-change')
        for fam, route, enc, muts in reuse:
            ctx.count('reuse:planned:%s' % fam)
            ctx.count('reuse:planned-route:%s' % route)
            if muts:
                ctx.count('reuse:planned-change:%s' % fam)
    ctx.count('files=%d' % min(len(case['files']), 8))
    ctx.count('scripts=%d' % len(case['scripts']))
    scan = brk_scan(case['fields'])
    if scan:
        ctx.count('brk:pkg')
        if not case.get('ctl_final_nl', True) and any(
                fi == len(case['fields']) - 1 and li == case['fields'][fi][1].count('\n') for fi, li, _, _ in scan):
            ctx.count('brk:line:last-without-final-newline')
        for fi, li, name, place in scan:
            ctx.count('brk:char:' + name)
            ctx.count('brk:place:' + place)
            ctx.count('brk:line:' + ('continuation' if li else
                                     'first-of-multi-line' if '\n' in case['fields'][fi][1] else 'single-line'))
    closes = case.get('close') or []
    if closes:
        ctx.count('close:pkg')
        ctx.count('close:pkg:' + open_class(case.get('open', 'fileobj')))
        ctx.count('close:pkg:steps=%d' % min(len(closes), 4))


def dpkg_sanity(ctx, case):
    """Generator sanity only: do the real tools read what the harness writes?  A failure here says the GENERATOR
    is off (=> inconclusive), never that the library is."""
    raw, model = build_pkg(case)
    d = ctx.tmpdir()
    path = os.path.join(d, 'x.deb')
    with open(path, 'wb') as f:
        f.write(raw)
    stat = ctx.extra.setdefault('dpkg_deb_crosscheck', {'packages': 0, 'rejected': 0})
    stat['packages'] += 1
    if case.get('cv') or case.get('dv'):
        stat['packages-with-encoder-variants'] = stat.get('packages-with-encoder-variants', 0) + 1
    env = dict(os.environ, LC_ALL='C.UTF-8')
    p1 = subprocess.run(['dpkg-deb', '-f', path, 'Package'], stdout=subprocess.PIPE, stderr=subprocess.PIPE, env=env)
    p2 = subprocess.run(['dpkg-deb', '--fsys-tarfile', path], stdout=subprocess.PIPE, stderr=subprocess.PIPE, env=env)
    ok = p1.returncode == 0 and p2.returncode == 0
    if ok:
        want_pkg = dict(model['fields'])['Package']
        ok = p1.stdout.decode('utf-8', 'replace').strip() == want_pkg
        try:
            with tarfile.open(fileobj=io.BytesIO(p2.stdout), mode='r:') as t:
                for n, data in model['files']:
                    if t.extractfile('./' + n).read() != data:
                        ok = False
        except Exception:
            ok = False
    if shutil.which('ar'):
        p3 = subprocess.run(['ar', 't', path], stdout=subprocess.PIPE, stderr=subprocess.PIPE, env=env)
        names = p3.stdout.decode().split('\n')[:-1]
        if p3.returncode != 0 or names != [INFO, part_name('control', case['cc']), part_name('data', case['dc'])]:
            ok = False
    if (case.get('cv') and not model['variants']['control']) or (case.get('dv') and not model['variants']['data']):
        ok = False      # the variant was given up by the generator guard: nothing was shown about it
    if not ok:
        stat['rejected'] += 1
        ctx.inconclusive.append('generator sanity: dpkg-deb/ar disagree with the harness-built package (cc=%r dc=%r%s): %s %s'
                                % (case['cc'], case['dc'], variant_text(case), p1.stderr.decode('utf-8', 'replace')[:200],
                                   p2.stderr.decode('utf-8', 'replace')[:200]))
    shutil.rmtree(d, ignore_errors=True)


TOOLS = {'gz': ['gzip', '-dc'], 'bz2': ['bzip2', '-dc'], 'xz': ['xz', '--format=xz', '-dc'],
         'lzma': ['xz', '--format=lzma', '-dc'], '': ['tar', '-tf', '-']}


def tool_sanity(ctx, case):
    """Generator sanity only: does the real decoder of the format read a part written with this encoder variant?
    A failure says the GENERATOR is off (=> inconclusive), never that the library is.  Tool not installed: skipped."""
    comp, v = case['comp'], case['v']
    stat = ctx.extra.setdefault('encoder_variant_crosscheck', {'variants': 0, 'rejected': 0, 'tool-not-installed': 0})
    cmd = TOOLS[comp]
    if not shutil.which(cmd[0]):
        stat['tool-not-installed'] += 1
        return
    entries = STD_CONTROL_ENTRIES() + [('usr/share/blob', 'f', random.Random(7).randbytes(30000), 0o644, 0),
                                       ('usr/share/x y', 'f', b'ab\n' * 4000, 0o644, 0)]
    blob, used, given = build_part(comp, entries, 'gnu', 1, v)
    stat['variants'] += 1
    ok = used is not None
    err = ''
    if ok:
        tar = mktar(entries, v.get('tar', 'gnu'), eof=v.get('eof'))
        p = subprocess.run(cmd, input=blob, stdout=subprocess.PIPE, stderr=subprocess.PIPE, env=dict(os.environ, LC_ALL='C.UTF-8'))
        err = p.stderr.decode('utf-8', 'replace')[:200]
        if comp:
            ok = p.returncode == 0 and p.stdout == tar
        else:
            ok = p.returncode == 0 and len(p.stdout.decode('utf-8', 'replace').splitlines()) == len(entries)
    if not ok:
        stat['rejected'] += 1
        ctx.inconclusive.append('generator sanity: %s does not read a %s part written with encoder variant %r (%s): %s'
                                % (cmd[0], comp or 'tar', v.get('id'), 'stdlib round trip failed' if used is None else 'tool', err))


def conclusive(tier, counters, monitor_evals, extra):
    pairs = extra.get('config_pairs_covered', [])
    if len(pairs) < 25:
        return 'only %d of the 25 (control x data) compression pairs were exercised' % len(pairs)
    for part in ('data', 'control'):
        seen = set(extra.get('edge_names_in_%s_part' % part, []))
        missing = [n for n in EDGE if n not in seen]
        if missing:
            return 'edge names never packed into the %s part: %r' % (part, missing[:5])
    return None


LEVEL_TEXT = ('Runtime monitoring: 2e3 (quick) / 1.2e5 (thorough) harness-assembled .deb packages (own ar writer + stdlib '
              'tarfile; all 25 control x data compression pairs every run; permuted member order; fileobj= and filename= '
              'mode) are read back through the live DebFile and every answer - debcontrol(), scripts(), md5sums() with '
              'bytes and text keys, has_file/get_content/get_file/in/[] under the spellings name, ./name, /name, plus '
              'never-packed names - is compared with the packing description; ~2e4 (quick) / ~2.2e5 (thorough) member-name '
              'sequences (complete enumerations of the small ones) are checked against the acceptance predicate, '
              'demanding DebError and nothing else for defective ones.  Three of four parts are written with one of ~110 '
              'non-default but valid encoder parameter sets (lzma lc/lp/pb/dictionary/presets/known size; xz checks, filter '
              'chains, several streams; gzip header fields, levels, several members; bzip2 levels/streams; GNU/PAX/USTAR tar), '
              'each one for both parts every run.  45% of the packages are closed (close() of the file / a part / twice / `with`) '
              'in the middle of their queries and asked again; 200 (quick) / 9e3 (thorough) cases keep 2-3 DebFile objects on '
              'different packages (or one package twice) alive at once and ask them alternately.  Held-on-observed, not a proof.')
LEVEL_NOTE = ('Trusted: CPython tarfile/gzip/bz2/lzma, vp.models.arwriter (cross-checked with dpkg-deb and ar in the thorough '
              'tier), the packing description as the model.  Corrupt/truncated archives, GNU long ar names and non-"./" tar '
              'member spellings are outside the statement and not generated.')
TECHNIQUE = ('runtime monitoring: boundary oracle M (packing model vs. answers of the live DebFile on harness-built packages; '
             'acceptance predicate vs. DebFile() on enumerated member sets); the deciding monitors are M.query and M.accept')
