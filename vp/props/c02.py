"""C02 - Deb822 paragraphs survive dump -> re-parse in every input form.

Deciding monitor M (boundary, history + model): the harness owns a MODEL
document D - a list of paragraphs, each an ordered list of (name, first line,
continuation lines).  It builds real ``Deb822`` objects through ``__setitem__``,
lets the library ``dump()`` them, joins the dumps with blank lines and feeds the
result back through EVERY input-form class

    {str, bytes, list of lines with '\\n', list of lines without, io.StringIO, io.BytesIO,
     REAL text file objects that carry a declared encoding - io.TextIOWrapper over the encoded bytes and
     files on disk opened in text mode, encoding utf-8 / iso-8859-1 / latin-1 / cp1252 / utf-16 (always
     the encoding the bytes were written in, so the decoded text is identical to the str form) -
     and a real file on disk opened 'rb'}
  x {plain, PGP clearsign armour (single paragraph only; also via Dsc / Changes)}
  x {no comments, comment lines interleaved at random line boundaries}
  x {no leading blank lines, 1..3 leading blank lines}

and compares names / order / values of what comes back with D itself
(value = first line trimmed of blanks/tabs + the continuation lines verbatim).
Nothing of the library is used to compute the expectation.

A violation key names WHAT differed and in WHICH form class it is confined
(e.g. ``first-line-not-trimmed/all-forms``,
``continuation-line-lost/comments=1``), never an input.

"uni" class (extension): every fifth random document and a second enumerated grid
carry valid Unicode that a careless decoder or line splitter treats differently -
text that is not in a Unicode normal form (decomposed sequences, singletons, Hangul
jamo, compatibility characters) and characters whose UTF-8 (cp1252, UTF-16) form
holds a byte that is a line boundary or a blank in Latin-1 (0x85, 0xA0; 0x0A/0x0D in
UTF-16).  The oracle is unchanged - the model document, code point for code point -
and ``uni:<class>:<api>:<form>`` counters (with floors) say which (class x API x
input form) cells saw such values.

OUTPUT ROUTES (extension): every paragraph of EVERY case is written through every output route of the library -
``dump()`` returning str, ``dump(fd)`` into io.BytesIO (with and without an explicit encoding), ``dump(fd,
text_mode=True)`` into io.StringIO, ``str(p)``, ``bytes(p)``, ``dump(fd)`` into REAL files opened 'wb' (default buffer
of io.DEFAULT_BUFFER_SIZE, unbuffered, odd buffer sizes; the file already holds a pad of 0..8193 bytes so that the
writer's buffer is at an arbitrary fill level), ``dump(fd, text_mode=True)`` into a real file opened 'w' and into an
io.TextIOWrapper - and ``get_as_string`` is read per field.  Routes are grouped by the text they produced: the group of
the case's rotating primary route is re-read through the whole form grid as before; the text of every OTHER group (on
the unchanged tree there is none: all routes agree) is re-read too (four containers x API) and judged against the same
model, key ``<what>/output-route=<routes>``.  A difference in TEXT alone is counted, not judged (the statement speaks
of what comes back from re-parsing).

"big" class (extension): documents with LARGE content - a field whose dumped entry is exactly 4096 / 8191 / 8192 /
8193 / 16384 / 65536 bytes (and random sizes around multiples of 8192) as one long line, as thousands of short
continuation lines, as medium lines, or as one very long continuation line, placed alone / first / between / last
among small hostile fields and in multi-paragraph documents; 200+ fields in one paragraph; single lines of 10k..100k+
characters; values of 1000+ continuation lines.  Big texts are generated from compact, seeded specs kept in the case
(replay files stay small) and consist of numbered tokens (w0 w1 ... / c0 c1 ...), so loss, duplication and reordering
are unambiguous; about two thirds carry multi-byte characters (a chunk boundary inside a character).  Big documents go
through every output route and a rotating THIRD of the form grid (every case: two plain cells + one armoured cell,
half of the in-memory containers per cell + the rotating real-file forms); ``big:<class>:route:<route>``,
``big:<class>:form:<form>`` and ``big:<class>:api:<api>`` counters, measured on the text the library really dumped,
carry floors.

"asm" class (extension): MULTI-PARAGRAPH DOCUMENTS WRITTEN PARAGRAPH BY PARAGRAPH, the way programs write them - documents of 2..5
paragraphs; per paragraph the text of ONE output route followed by the customary single separator newline:
``str(p) + '\\n'``, ``p.dump() + '\\n'``, ``bytes(p) + b'\\n'`` concatenated; ``p.dump(fd)`` (with / without encoding=) +
``fd.write(b'\\n')`` into ONE shared io.BytesIO or real binary file (default / no / odd buffers, a pad already written);
``p.dump(fd, text_mode=True)`` + ``fd.write('\\n')`` into ONE shared io.StringIO, real text file or io.TextIOWrapper;
``print(p, file=fd)``; ``'\\n'.join(str(p) ...)``, ``'\\n'.join(p.dump() ...)``, ``b'\\n'.join(bytes(p) ...)``; and MIXED documents
(every paragraph through a route drawn afresh - dump(fd), fd.write(bytes(p)), fd.write(str(p).encode()), ... - into one shared
binary / text stream).  Nothing is cut into lines and re-joined by the harness here: the text the program would have on disk is
re-read WHOLE through every input form x {Deb822, Dsc, Changes}.iter_paragraphs and must give the model document - the same
NUMBER of paragraphs, the same fields in the same order with the same values.  A route whose paragraph text lacks its final
newline merges paragraphs; that shows as ``paragraph-count-differs/assembled-by=<routes>``.  That every paragraph text ends in
exactly one newline is ESTABLISHED per part (``asm:part-ends-in-exactly-one-newline:<part>`` against ``asm:part-ending-other:<part>``
- 0 on the unchanged tree), not judged by itself.  Assembly routes are grouped by the text they wrote (unchanged tree: two texts
- with / without the separator after the last paragraph); ``asm:<route>:<API>`` counters carry floors per (route x API).

"mv" class (extension): Dsc / Changes SHAPED DOCUMENTS.  (1) STRUCTURED (multivalued) fields - Files, Checksums-Sha1 / -Sha256 /
-Sha512 - are part of the documents, written in every LAYOUT: all items on continuation lines (the usual one), the same with a
blank / tab left on the field line, ONE item on a continuation line, the FIRST item on the field line followed by further items
on continuation lines (with / without a trailing blank on the field line), a single item on the field line (with / without
trailing blanks); items separated by single blanks, tabs, several blanks.  For Deb822 such a field is ordinary text (judged as
everywhere); for Dsc / Changes - constructor (single paragraphs, clearsigned AND plain) and iter_paragraphs (all documents) -
the value is compared as the LIST OF ITEM LINES it was written with (item = its whitespace-separated tokens, cut to the columns
of the class), whatever the class exposes: a list of record mappings and a single mapping (one item on the field line) are both
normalised to the item list.  Every third Dsc / Changes form is then DUMPED by the class (rotating output routes) and read again
through the same API: the item lists (and all other fields) must still be the model's; the dumped layout itself is never judged.
(2) ordinary text fields (Changes, Description, ...) whose lines MENTION PGP armour words - 'see -----END PGP SIGNATURE-----
below', an indented marker, a marker followed / preceded by text - in clearsigned and plain documents, every input form incl.
the whole document as ONE str / bytes object, every API: only real armour lines (the marker alone, column 0) delimit anything.
``mv:<layout>:<API>``, ``mv:redump:<layout>:<class>``, ``armorword:<position>:<plain|armour>``, ``armorword:<plain|armour>:<API>``
counters carry floors; keys ``structured-item-lost/...``, ``structured-item-on-the-field-line-lost/...``,
``structured-item-altered/...``, ``after-dump-and-re-parse:<kind>/...``.
"""
import io
import os
import random
import re
import unicodedata
import warnings

from .. import core

PROP = 'C02'
LEVEL = 'exploration'
RULE = ('Model documents of 1..4 paragraphs x 1..6 fields: names over policy-valid printable ASCII (no colon, not '
        'starting with # or -, distinct case-insensitively; names whose FIRST character is a digit or a punctuation '
        'character occur in about every second document and are additionally enumerated: every admissible first '
        'character x {first field, after a single-line field, after a multi-line value}); first lines over a hostile '
        'alphabet (colon, #, tab, dash, non-ASCII, leading/trailing blanks, empty, armour-marker look-alikes); continuation '
        'lines starting with space or tab with non-blank content (Key: value shaped, #-leading, armour-marker look-alikes, '
        'trailing tabs).  Each random document gets a character profile (any Unicode / latin-1 only / cp1252 only / pure '
        'ASCII) so that non-ASCII documents that ARE encodable in the 8-bit encodings, and pure-ASCII ones, both occur '
        'regularly.  Plus a small enumerated grid hostile-first-line x hostile-continuation-set.  Every document is dumped by '
        'the library and re-read through all input-form classes: 6 in-memory containers + real text file objects with a '
        'declared encoding (io.TextIOWrapper and files on disk opened in text mode; utf-8, iso-8859-1/latin-1, cp1252, '
        'utf-16 - every cell of the form grid sees each encoding, through one of the two kinds, alternating) + a real '
        'binary file, x plain/armour x comments x leading blanks x API (Deb822, iter_paragraphs, Dsc, Changes).  A document '
        'is non-trivial when it has >= 1 multi-line value, or a value starting with ":" or "#", or >= 2 paragraphs; '
        'distinct by the content of the model document.  "uni" class: every 5th random document (own profile any / '
        'latin-1 / cp1252) draws about every second atom of its values from 61 sequences that are valid Unicode but not in '
        'NFC / NFD / NFKC / NFKD (e + U+0301, A + U+030A, marks in non-canonical order, U+1E9B U+0323, OHM / ANGSTROM / KELVIN '
        'SIGN, U+037E, U+0387, U+0340, U+0958, CJK compatibility ideographs incl. U+2F800, Hangul jamo sequences and '
        'precomposed syllables, fi ligature, micro sign, full-width letters/digits, circled/roman numerals, superscripts, '
        'precomposed Latin) or whose UTF-8 form holds the byte 0x85 (U+0105 U+0445 U+00C5 U+2005 U+0145 U+2045 U+4E05 '
        'U+1F605 U+0A85) or 0xA0 (U+0420 U+00E0 U+00A0 U+2020 U+3060 U+0820 U+1F4A0 U+0120), whose cp1252 form is 0x85 '
        '(U+2026) or whose UTF-16 form holds 0x0A / 0x0D / 0x85 (U+010A U+0D0A U+0A0A U+200A U+850A U+0A85); one such '
        'atom per paragraph is put last on its line (directly before the line end).  Second enumerated grid: every atom x '
        '{first line, continuation line} x {start, middle, end, whole text of the line} (blank atoms: middle only), six '
        'per single-paragraph document, grouped by what latin-1 / cp1252 can hold, + per atom a two-paragraph document '
        'with the atom last before and first after the paragraph boundary.  "uni" documents also get comment lines and a '
        'Comment: armour header (signature block) carrying such atoms.  All of them go through the same dump -> every '
        'form -> compare-with-the-model path; the whole document is given as ONE str and as ONE bytes object to Deb822() '
        '(single paragraphs) and to iter_paragraphs (all), besides lists of lines and file objects.  OUTPUT ROUTES: every '
        'paragraph of every document is written through every output route - dump() returning str, dump(fd) into BytesIO '
        '(with / without explicit encoding), dump(fd, text_mode=True) into StringIO, str(p), bytes(p), dump(fd) into real '
        'files opened "wb" (default buffer, unbuffered, odd buffer sizes 2..65536; a pad of 0..8193 bytes already written), '
        'dump(fd, text_mode=True) into a real file opened "w" and into a TextIOWrapper - and get_as_string is read per '
        'field; routes are grouped by the text they produced, the group of the rotating primary route is re-read through the '
        'form grid, the text of every other group through 4 containers x API, all against the model.  "big" class (72 quick '
        '/ 3600 thorough random + an enumerated grid): a field whose dumped entry is exactly 4096 / 8191 / 8192 / 8193 / '
        '16384 / 65536 bytes (x alone / first / between / last among small hostile fields x long line / thousands of '
        'short continuation lines / medium lines / one long continuation line), random sizes around k*8192 and 3000..20000, '
        'two big entries, 200..1200 fields with unsorted numbered names, single lines of 10k..140k characters, values of '
        '1000..6000 continuation lines, alone and inside multi-paragraph documents; ASCII / latin-1 / multi-byte contents; '
        'numbered tokens so that loss, duplication and reordering are unambiguous.  A big document goes through every output '
        'route and a rotating third of the form grid (two plain cells differing in comments AND leading blanks, one armoured '
        'cell; half of the in-memory containers per cell + the real-file forms of the cell).  "asm" class (160 quick / 9000 thorough '
        'random + an enumerated grid): documents of 2..5 paragraphs (same generators and character profiles, every 4th with "uni" '
        'atoms) WRITTEN PARAGRAPH BY PARAGRAPH through 15 assembly routes - per paragraph the text of one output route + the single '
        'separator newline: str(p)+"\\n", p.dump()+"\\n", bytes(p)+b"\\n" concatenated; p.dump(fd) / p.dump(fd, encoding=) + '
        'fd.write(b"\\n") into ONE shared BytesIO / real binary file (default, no, odd buffers; pad of 0..8193 bytes); p.dump(fd, '
        'text_mode=True) + fd.write("\\n") into ONE shared StringIO / real text file / TextIOWrapper; print(p, file=fd); '
        '"\\n".join(str(p)...), "\\n".join(p.dump()...), b"\\n".join(bytes(p)...); mixed-binary / mixed-text (the route of every '
        'paragraph drawn afresh among dump(fd), dump(fd, encoding=), fd.write(bytes(p)), fd.write(str(p).encode()), '
        'fd.write(p.dump().encode()) resp. dump(fd, text_mode=True), fd.write(str(p)), fd.write(p.dump()), print(p, file=fd)).  '
        'Enumerated grid: 14 shapes of the LAST field of a paragraph (single line, empty, trailing blanks, multi-line with / without '
        'trailing blanks, starting ":" / "#", non-ASCII, armour-marker look-alikes) x 4 shapes of the first field of the next '
        'paragraph x 2..5 paragraphs, + a last field whose dumped entry is exactly 4096 / 8191 / 8192 / 8193 bytes.  The assembly '
        'routes are grouped by the text they wrote; every distinct text is re-read WHOLE (not cut into lines by the harness) through '
        'str, bytes, lists of lines with / without newlines, StringIO, BytesIO, a real binary file and a real text file with a '
        'declared encoding (each text through every second of these, alternating) x Deb822 / Dsc / Changes .iter_paragraphs and '
        'compared with the model: same number of paragraphs, same fields, order, values.  "mv" class (72 quick / 5600 thorough random '
        '+ two enumerated grids; every 9th ordinary random document is left out to pay for it): Dsc / Changes shaped documents of 1..3 '
        'paragraphs - 1..5 text fields with realistic names (Format, Source, Changes, Description, Package-List ...) and the usual hostile '
        'values + 1..3 STRUCTURED fields (Files with 3 or 5 tokens per item, Checksums-Sha1 / -Sha256 / -Sha512 with 3; names also in '
        'other capitalisations) of 1..5 numbered items (digest, size, [section, priority,] file name; about every 8th item carries a '
        'hostile token: ":" "K:" "#x" "-----BEGIN" non-ASCII ...) in the layouts cont / cont-blank-on-field-line / single-cont / '
        'single-cont-blank-on-field-line / mixed (first item on the field line + continuation lines) / mixed-trailing-blank / single '
        '/ single-trailing-blank, tokens separated by single blanks, tabs, several blanks, item lines with trailing blanks; every second '
        'document has text fields whose first line or continuation lines MENTION armour words (12 first-line and 14 continuation-line '
        'spellings: marker as the whole value, at the start / in the middle / at the end of a line, indented, dash-escaped, quoted, two '
        'markers in one line).  Enumerated: every layout x every structured field x place in the paragraph (quick: one place, rotating) '
        '+ two/three-paragraph documents per layout; every armour-word spelling as first line and as continuation line, first / between '
        '/ last in a paragraph that also holds a structured field, + two-paragraph documents with the mention at the paragraph boundary.  '
        'An "mv" document is built as a Deb822 paragraph (the structured value assigned as text), written through every output route, '
        'and re-read through iter_paragraphs, Deb822, Dsc, Changes (constructor: single paragraphs, clearsigned AND plain), '
        'Dsc.iter_paragraphs, Changes.iter_paragraphs; single paragraphs through two plain + two armoured cells holding all four '
        'comments x leading-blank combinations, half of the in-memory containers per cell + the rotating real-file forms.  Deb822 / '
        'iter_paragraphs are judged on the text value as everywhere; Dsc / Changes on the list of items (tokens cut to the columns of '
        'the class: Dsc Files 3, Changes Files 5, Checksums-* 3); every third Dsc / Changes form is dumped by the class (dump() / '
        'dump(fd) / dump(fd, text_mode) / str() / bytes(), rotating) and read again through the same API from a rotating in-memory '
        'container, and compared with the same expectation.')
ASSUMPTIONS = [
    'domain: field names are printable ASCII 33..126 without colon, not starting with "#" or "-", distinct case-insensitively '
    'within a paragraph, and - outside the "mv" class - not one of the structured fields of Dsc/Changes (files, checksums-*)',
    'domain: values contain no line-breaking controls other than the "\\n" that separates their lines (no CR, VT, FF, '
    'FS/GS/RS, NEL, U+2028/2029 - str.splitlines() would cut there) and no Unicode blanks other than space/tab at the edges '
    'of a first line; continuation lines start with space or tab and contain at least one non-blank character',
    'clearsign armour is applied to single paragraphs only; armour marker lines may carry trailing blanks/tabs and a CR '
    '(what _gpgre tolerates); no dash-escaping (names never start with "-")',
    'python-apt is not used (use_apt_pkg stays False); the encoding= argument of the library is left at its default '
    '(UTF-8) throughout; bytes-typed forms are always UTF-8; strict= is left at its default',
    'Dsc/Changes constructors are exercised on clearsigned text only, except in the "mv" class (plain text too)',
    'text file objects with a declared encoding are always opened with the encoding their bytes were written in (the '
    'decoded text equals the str form; a file opened with the WRONG encoding is outside the statement); a form is only '
    'run when the whole input text is encodable in that encoding (otherwise counted as skip:unencodable:<enc>); '
    'TextIOWrapper newline= is drawn from {None, "", "\\n"} once per case, disk files use the default (universal '
    'newlines: only the CR that marker lines may carry before their LF is affected)',
    'Dsc/Changes given a text file object with a declared non-UTF-8 encoding are judged like every other form (they used to '
    'return mojibake: _gpg_multivalued.__init__ re-encoded the lines with the file\'s encoding but the parser decoded them as '
    'UTF-8 - repaired in /repo by fix 0288b25, see known_findings.json)',
    'GUARD (under-demand, "uni" class): Unicode blanks other than space/tab (U+00A0, U+2005, U+200A ...) are generated only '
    'strictly INSIDE the text of a first line or continuation line, between non-blank characters (at the edges the '
    'statement\'s "trimmed" / "non-blank text" is silent on them; a document that has one at an edge of a continuation '
    'line\'s text is not judged); every other "uni" atom is a non-blank, non-line-breaking character and may stand anywhere '
    'in a value, code point for code point (no normal form is assumed or applied by the oracle - unicodedata is used only '
    'to CLASSIFY a document for the uni:* counters)',
    'the uni:<class>:<api>:<form> counters classify a document by its VALUES (not by decorations): not-nfc / not-nfd = the '
    'value text changes under NFC / NFD, compat = NFKC differs from NFC, byte85 / byteA0 = the UTF-8 form of the values holds '
    'that byte; uni:filebytes:* = the bytes of the text FILE in its declared encoding hold 0x85 / 0xA0 (8-bit encodings) or '
    '0x0A / 0x0D / 0x85 inside a character (utf-16).  No floor where the cell is empty by construction: not-nfc x 8-bit text '
    'file (latin-1 / cp1252 hold no combining marks or singletons), Dsc/Changes x utf-16 text file (unjudged, see below)',
    'GUARD (under-demand): Dsc/Changes on a text file whose declared encoding is not ASCII-compatible (utf-16) are executed on a '
    'sample and only COUNTED (unjudged:gpg-api-on-non-utf8-text-file:*): the gpg-aware classes search the armour markers in the '
    'encoded BYTES, and the quantifier speaks of printable/UTF-8 values; Deb822(f) and iter_paragraphs(f) are judged for utf-16 too',
    'output routes: every route is a way of "dumping" in the sense of the statement, so the text of EVERY route must re-read as '
    'the model; binary routes are decoded as UTF-8 (the encoding of the object / the explicit encoding= argument; bytes(p) uses '
    'the object\'s encoding, UTF-8); files for the text routes are opened with encoding="utf-8" by the harness (the caller\'s job '
    'with text_mode=True - also under the ASCII-locale ambient) and are read back in binary; the harness closes every file before '
    'reading it back (nothing is demanded of what is on disk before close/flush)',
    'GUARD (under-demand): two output routes that give DIFFERENT TEXTS which both re-read as the model are not a violation (the '
    'statement speaks of what comes back from dump -> re-parse, not of the bytes of the dump); such a case is counted as '
    'unjudged:output-route-text-differs-but-re-reads-as-the-model (0 on the unchanged tree: all routes agree)',
    'GUARD (under-demand): get_as_string(name) is compared with the ASSIGNED value modulo the trimming of blanks/tabs at the '
    'edges of the first line only (the one normalisation the statement allows); whether dump() ends in a newline is not judged '
    '(dumps are cut into lines and re-joined by the harness)',
    '"big" class: sizes are those of the dumped ENTRY ("Name: value" + newline, UTF-8 bytes) as measured on the text the library '
    'wrote; the generators aim at exact sizes using the documented dump layout, the size-class counters (and their floors) use '
    'the measurement; big contents stay inside the same domain as all other values (in_domain() is applied to the expanded '
    'document); the reduced form grid of big documents is a COST bound, not a domain restriction',
    '"asm" class: a document is written the way the statement\'s "multi-paragraph documents read with iter_paragraphs" are produced '
    'by programs: paragraph text of one output route + ONE separator newline after every paragraph (the "+nl" / shared-stream '
    'routes; the document then ends in a blank line, which iter_paragraphs must tolerate like the blank lines between paragraphs) '
    'or "\\n".join over the paragraph texts (no separator after the last).  get_as_string assembled by hand is not a route.  Binary '
    'assemblies are UTF-8; files are opened by the harness with encoding="utf-8" for the text routes and closed before being read '
    'back.  No armour, no comments, no leading blank lines are added (the text is re-read exactly as written)',
    '"asm" class: that the text of ONE paragraph ends in exactly one newline is established (counted per part: '
    'asm:part-ends-in-exactly-one-newline:* with floors, asm:part-ending-other:* = 0 on the unchanged tree), NOT judged: the '
    'statement speaks of what comes back from re-reading, so a route that wrote two newlines (an extra blank line between '
    'paragraphs re-reads the same) is not accused; a route that wrote none merges paragraphs and is caught by the re-read',
    '"asm" class: Dsc.iter_paragraphs / Changes.iter_paragraphs are judged on these plain (unsigned) multi-paragraph documents for '
    'every input form except the one below; field names exclude the structured fields of Dsc/Changes as everywhere',
    'Dsc.iter_paragraphs(f) / Changes.iter_paragraphs(f) for a text file object f that declares an 8-bit encoding (latin-1, cp1252) '
    'are judged like every other form (this cell exposed a genuine defect on the then-unchanged tree - iter_paragraphs names '
    'encoding="utf-8" explicitly and the subclass constructor decoded the re-encoded lines with it - repaired by fix 70d1757; see '
    'known_findings.json); for an ASCII-incompatible declared encoding (utf-16) they are executed on a sample and only COUNTED '
    '(unjudged:gpg-api-iter_paragraphs-on-non-utf8-text-file:*), as for the constructor forms; Deb822.iter_paragraphs(f) is judged '
    'for every encoding',
    '"mv" class, domain of a structured field value: at least one item; blank and tab are the only blanks in it (so that '
    '"whitespace-separated" is unambiguous); an item = one non-blank line (the field line counts when it holds text); a '
    'blank-only field line holds no item',
    '"mv" class GUARD (under-demand), comparison of a structured field read by Dsc / Changes: the value is compared as the LIST OF '
    'ITEMS, each item = its tokens CUT to the number of columns the file format gives the class (Dsc: Files 3, Checksums-* 3; '
    'Changes: Files 5, Checksums-* 3 - a model-side table; established on the unchanged tree: surplus tokens are dropped, an item '
    'with fewer tokens gives a shorter record); the exposed value is normalised first - a list of record mappings -> one item per '
    'record (the record\'s values in the record\'s own order), a single mapping (what the unchanged tree gives for one item on '
    'the field line) -> a one-item list, a str -> the tokens of its non-blank lines (compared uncut); which of the three a class '
    'chooses is counted (mv:exposed-as:*), never judged and never floored; column NAMES are never looked at',
    '"mv" class GUARD (under-demand), second round: an object is dumped again only when every item of every structured field has at '
    'least the columns of the class (otherwise the class holds incomplete records and its dump() raises KeyError by design - counted '
    'as mv:redump-not-applicable:*); the dumped LAYOUT is never judged (the unchanged tree normalises to continuation lines / one '
    'item on the field line), only what the same API reads back from it; binary routes without encoding= are used only for objects '
    'whose encoding is UTF-8 (an object read from a text file that declares an 8-bit encoding carries that encoding and writes it - '
    'by design, established on the unchanged tree)',
    '"mv" class: a COMMENT-ONLY block that stands between blank lines (in front of the first paragraph, or between two paragraphs) '
    'is no paragraph and does not end the document: judged for Dsc / Changes through the constructor on lines and iter_paragraphs on '
    'lines and str (this exposed a genuine defect of the gpg-aware classes on the then-unchanged tree, repaired by fix e84cae2; see '
    'known_findings.json); the generated "mv" documents themselves keep one blank line between paragraphs',
    '"mv" class: Dsc / Changes (constructor and iter_paragraphs) on a text file that declares an ASCII-incompatible encoding '
    '(utf-16) are not judged, as everywhere; armour is applied to single paragraphs only, as everywhere',
    '"mv" class COST bound: single paragraphs run two plain and two armoured cells of the form grid (all four comments x '
    'leading-blank combinations between them, alternating from case to case) and half of the in-memory containers per cell; '
    'the second round runs for every third Dsc / Changes form',
    'armour-word mentions: a line MENTIONS a marker when "-----BEGIN PGP <what>-----" / "-----END PGP <what>-----" occurs in the '
    'text of a first line or of a continuation line; such a line never starts in column 0 with the marker (a first line follows '
    '"Name: ", a continuation line starts with a blank), so it is ordinary value text by the statement; comment lines that quote '
    'a marker ("#-----BEGIN ...") are interleaved as everywhere',
    '"asm" class COST bound: each distinct text of a document is re-read through every second input form (which half alternates '
    'with the text and the case; every text through all three APIs); mixed-* routes are named in a mechanism key only when no '
    'single-route assembly wrote the same text',
]
ANCHORS = ['debian.deb822:Deb822._internal_parser',
           'debian.deb822:Deb822._skip_useless_lines',
           'debian.deb822:Deb822.split_gpg_and_payload',
           'debian.deb822:Deb822.gpg_stripped_paragraph',
           'debian.deb822:Deb822._dump_format',
           'debian.deb822:Deb822.dump',
           'debian.deb822:Deb822._dump_fd_b',
           'debian.deb822:Deb822._dump_fd_t',
           'debian.deb822:Deb822.iter_paragraphs',
           'debian.deb822:Deb822.validate_input',
           'debian.deb822:_gpg_multivalued.__init__',
           'debian.deb822:_AutoDecoder.decode']
MUST_REACH = ['debian.deb822:Deb822._internal_parser',
              'debian.deb822:Deb822._skip_useless_lines',
              'debian.deb822:Deb822.split_gpg_and_payload',
              'debian.deb822:Deb822._dump_format',
              'debian.deb822:Deb822.dump',
              'debian.deb822:Deb822.iter_paragraphs',
              'debian.deb822:_gpg_multivalued.__init__',
              'debian.deb822:_AutoDecoder.decode']

DOCS = {'quick': 2450, 'thorough': 160000}      # random documents (TOTAL over shards); + the enumerated grids
DOCS_SKIP = 9                                   # ... of which every DOCS_SKIP-th ORDINARY one is left out (pays for the "mv" class; "uni" documents all stay)
UNI_EVERY = 5                                   # one random document in UNI_EVERY is a "uni" document

FLOORS = {
    'quick': {
        # ~50% of the minimum a run on the current tree measures over VERIF_SEED 0..3 (measured with 3000 random documents;
        # with the 2450 of today the floors are 52-62% of that minimum; the two that came out above were lowered)
        'nontrivial': 1900,
        'monitors': {'M': 230000, 'M.armour': 130000, 'M.binfile': 14000, 'M.comments': 110000, 'M.encfile': 44000,
                     'M.lead': 110000, 'M.uni': 120000},
        'counters': {'feat:first-trailing-blank': 7000, 'feat:first-starts-colon': 1000,
                     'feat:first-starts-hash': 990, 'feat:cont-starts-hash': 2800, 'feat:cont-trailing-blank': 9900,
                     'feat:cont-keyvalue-shaped': 2400, 'feat:cont-marker-lookalike': 760, 'feat:nonascii': 5800,
                     'feat:multi-line-value': 7100, 'feat:marker-trailing-blank-or-cr': 24000,
                     'feat:name-starts-digit': 850, 'feat:name-starts-punct': 2700, 'api:Dsc': 31000,
                     'api:Changes': 31000, 'api:Deb822': 67000, 'api:iter_paragraphs': 98000, 'dump:str': 490,
                     'dump:fd_b': 490, 'dump:fd_b_enc': 490, 'dump:fd_t': 490, 'doc:paragraphs>=2': 730,
                     'form:tw': 22000, 'form:tf': 22000, 'enc:utf-8': 7100, 'enc:UTF-8': 7000,
                     'enc:iso-8859-1': 4500, 'enc:latin-1': 4400, 'enc:cp1252': 11000, 'enc:utf-16': 10000,
                     'enc-nonascii:utf-8': 4400, 'enc-nonascii:UTF-8': 4400, 'enc-nonascii:iso-8859-1': 1700,
                     'enc-nonascii:latin-1': 1800, 'enc-nonascii:cp1252': 6100, 'enc-nonascii:utf-16': 6400,
                     'enc-ascii:utf-16': 3300, 'enc-ascii:cp1252': 4900, 'enc-ascii:iso-8859-1': 2500,
                     'enc-ascii:latin-1': 2400, 'encfile-api:Deb822': 14000, 'encfile-api:iter_paragraphs': 20000,
                     'gpgapi-encfile:utf-8': 4100, 'gpgapi-encfile:non-utf-8': 6100, 'doc:uni': 360,
                     'feat:uni-armour-comment-header': 150, 'feat:uni-byte85': 270, 'feat:uni-byteA0': 280,
                     'feat:uni-compat': 300, 'feat:uni-cont-line-ends-in-byte-85': 160,
                     'feat:uni-cont-line-ends-in-byte-A0': 190, 'feat:uni-cont-line-inner-unicode-blank': 220,
                     'feat:uni-cont-line-not-nfc': 700, 'feat:uni-first-line-ends-in-byte-85': 110,
                     'feat:uni-first-line-ends-in-byte-A0': 160, 'feat:uni-first-line-inner-unicode-blank': 170,
                     'feat:uni-first-line-not-nfc': 510, 'feat:uni-not-nfc': 180, 'feat:uni-not-nfd': 1200,
                     'uni:filebytes:8bit:85:Changes': 18, 'uni:filebytes:8bit:85:Deb822': 36,
                     'uni:filebytes:8bit:85:Dsc': 18, 'uni:filebytes:8bit:85:iter_paragraphs': 87,
                     'uni:filebytes:8bit:A0:Changes': 83, 'uni:filebytes:8bit:A0:Deb822': 160,
                     'uni:filebytes:8bit:A0:Dsc': 83, 'uni:filebytes:8bit:A0:iter_paragraphs': 340,
                     'uni:filebytes:utf-16:0A-0D-85:Deb822': 180,
                     'uni:filebytes:utf-16:0A-0D-85:iter_paragraphs': 390}},
    'thorough': {
        # ~50% of what a thorough run on the current tree measures (seed 0)
        'nontrivial': 77000,
        'monitors': {'M': 8100000, 'M.armour': 4300000, 'M.binfile': 500000, 'M.comments': 4000000,
                     'M.encfile': 1500000, 'M.lead': 4000000, 'M.uni': 5400000},
        'counters': {'feat:first-trailing-blank': 360000, 'feat:first-starts-colon': 56000,
                     'feat:first-starts-hash': 51000, 'feat:cont-starts-hash': 140000,
                     'feat:cont-trailing-blank': 520000, 'feat:cont-keyvalue-shaped': 120000,
                     'feat:cont-marker-lookalike': 39000, 'feat:nonascii': 290000, 'feat:multi-line-value': 350000,
                     'feat:marker-trailing-blank-or-cr': 820000, 'feat:name-starts-digit': 46000,
                     'feat:name-starts-punct': 140000, 'api:Dsc': 1000000, 'api:Changes': 1000000,
                     'api:Deb822': 2200000, 'api:iter_paragraphs': 3700000, 'dump:str': 20000, 'dump:fd_b': 20000,
                     'dump:fd_b_enc': 20000, 'dump:fd_t': 20000, 'doc:paragraphs>=2': 45000, 'form:tw': 750000,
                     'form:tf': 750000, 'enc:utf-8': 250000, 'enc:UTF-8': 250000, 'enc:iso-8859-1': 120000,
                     'enc:latin-1': 120000, 'enc:cp1252': 380000, 'enc:utf-16': 360000, 'enc-nonascii:utf-8': 200000,
                     'enc-nonascii:UTF-8': 200000, 'enc-nonascii:iso-8859-1': 71000, 'enc-nonascii:latin-1': 70000,
                     'enc-nonascii:cp1252': 270000, 'enc-nonascii:utf-16': 290000, 'enc-ascii:utf-16': 65000,
                     'enc-ascii:cp1252': 94000, 'enc-ascii:iso-8859-1': 47000, 'enc-ascii:latin-1': 46000,
                     'encfile-api:Deb822': 450000, 'encfile-api:iter_paragraphs': 730000,
                     'gpgapi-encfile:utf-8': 130000, 'gpgapi-encfile:non-utf-8': 170000, 'doc:uni': 16000,
                     'feat:uni-armour-comment-header': 7200, 'feat:uni-byte85': 13000, 'feat:uni-byteA0': 14000,
                     'feat:uni-compat': 15000, 'feat:uni-cont-line-ends-in-byte-85': 8500,
                     'feat:uni-cont-line-ends-in-byte-A0': 11000, 'feat:uni-cont-line-inner-unicode-blank': 16000,
                     'feat:uni-cont-line-not-nfc': 36000, 'feat:uni-first-line-ends-in-byte-85': 6800,
                     'feat:uni-first-line-ends-in-byte-A0': 8900, 'feat:uni-first-line-inner-unicode-blank': 10000,
                     'feat:uni-first-line-not-nfc': 25000, 'feat:uni-not-nfc': 9000, 'feat:uni-not-nfd': 59000,
                     'uni:filebytes:8bit:85:Changes': 1400, 'uni:filebytes:8bit:85:Deb822': 2900,
                     'uni:filebytes:8bit:85:Dsc': 1400, 'uni:filebytes:8bit:85:iter_paragraphs': 6000,
                     'uni:filebytes:8bit:A0:Changes': 5000, 'uni:filebytes:8bit:A0:Deb822': 10000,
                     'uni:filebytes:8bit:A0:Dsc': 5000, 'uni:filebytes:8bit:A0:iter_paragraphs': 19000,
                     'uni:filebytes:utf-16:0A-0D-85:Deb822': 11000,
                     'uni:filebytes:utf-16:0A-0D-85:iter_paragraphs': 21000}},
}

# uni:<class>:<api>:<form> floors (same rule), one number per form GROUP: the six in-memory containers, the real binary
# file, text file utf-8 (tw and tf each), text file 8-bit (tw and tf each), text file utf-16 (tw and tf each).  0 = the
# cell is empty by construction (see ASSUMPTIONS).  Without them a run whose "uni" documents never reach some
# (class x API x input form) cell would be reported as held.
UNI_CLASSES = ('not-nfc', 'not-nfd', 'compat', 'byte85', 'byteA0')
UNI_FORM_GROUPS = (('str', 'bytes', 'lines_nl', 'lines_nonl', 'textio', 'bytesio'), ('binfile',), ('tw:utf-8', 'tf:utf-8'),
                   ('tw:8bit', 'tf:8bit'), ('tw:utf-16', 'tf:utf-16'))
UNI_FLOORS = {
    'quick': {
        'not-nfc': {'Deb822': (570, 280, 140, 0, 140), 'iter_paragraphs': (1000, 520, 260, 0, 260),
                    'Dsc': (280, 140, 71, 0, 0), 'Changes': (280, 140, 71, 0, 0)},
        'not-nfd': {'Deb822': (3900, 1900, 990, 1100, 990), 'iter_paragraphs': (5500, 2800, 1400, 1500, 1400),
                    'Dsc': (1900, 990, 490, 580, 0), 'Changes': (1900, 990, 490, 580, 0)},
        'compat': {'Deb822': (900, 450, 220, 150, 220), 'iter_paragraphs': (1600, 830, 410, 250, 410),
                   'Dsc': (450, 220, 110, 75, 0), 'Changes': (450, 220, 110, 75, 0)},
        'byte85': {'Deb822': (750, 370, 180, 91, 180), 'iter_paragraphs': (1400, 740, 370, 190, 370),
                   'Dsc': (370, 180, 94, 45, 0), 'Changes': (370, 180, 94, 45, 0)},
        'byteA0': {'Deb822': (780, 390, 190, 120, 190), 'iter_paragraphs': (1500, 770, 380, 230, 380),
                   'Dsc': (390, 190, 98, 64, 0), 'Changes': (390, 190, 98, 64, 0)},
    },
    'thorough': {
        'not-nfc': {'Deb822': (29000, 14000, 7200, 0, 7200), 'iter_paragraphs': (50000, 25000, 12000, 0, 12000),
                    'Dsc': (14000, 7200, 3600, 0, 0), 'Changes': (14000, 7200, 3600, 0, 0)},
        'not-nfd': {'Deb822': (170000, 87000, 43000, 46000, 43000), 'iter_paragraphs': (320000, 160000, 81000, 82000, 81000),
                    'Dsc': (87000, 43000, 21000, 23000, 0), 'Changes': (87000, 43000, 21000, 23000, 0)},
        'compat': {'Deb822': (49000, 24000, 12000, 8000, 12000), 'iter_paragraphs': (86000, 43000, 21000, 13000, 21000),
                   'Dsc': (24000, 12000, 6200, 4000, 0), 'Changes': (24000, 12000, 6200, 4000, 0)},
        'byte85': {'Deb822': (41000, 20000, 10000, 5400, 10000), 'iter_paragraphs': (75000, 37000, 18000, 10000, 18000),
                   'Dsc': (20000, 10000, 5100, 2700, 0), 'Changes': (20000, 10000, 5100, 2700, 0)},
        'byteA0': {'Deb822': (45000, 22000, 11000, 7100, 11000), 'iter_paragraphs': (81000, 40000, 20000, 12000, 20000),
                   'Dsc': (22000, 11000, 5600, 3500, 0), 'Changes': (22000, 11000, 5600, 3500, 0)},
    },
}
for _tier, _table in UNI_FLOORS.items():
    for _cls, _apis in _table.items():
        for _api, _row in _apis.items():
            for _forms, _floor in zip(UNI_FORM_GROUPS, _row):
                if _floor:
                    for _f in _forms:
                        FLOORS[_tier]['counters']['uni:%s:%s:%s' % (_cls, _api, _f)] = _floor

CONTAINERS = ('str', 'bytes', 'lines_nl', 'lines_nonl', 'textio', 'bytesio')
# real file objects.  'tw:<enc>' = io.TextIOWrapper(io.BytesIO(text.encode(enc)), encoding=enc),
# 'tf:<enc>' = open(path, 'r', encoding=enc) on a file holding text.encode(enc), 'binfile' = open(path, 'rb') (UTF-8).
# One slot per encoding family; the spelling of the encoding (it becomes the object's .encoding attribute) and the
# kind (tw / tf) alternate over the cells of the form grid and over cases.
ENC_SLOTS = (('utf-8', 'UTF-8'), ('iso-8859-1', 'latin-1'), ('cp1252', 'cp1252'), ('utf-16', 'utf-16'))
UTF8_SPELLINGS = frozenset(['utf-8', 'UTF-8'])
ASCII_COMPATIBLE_8BIT = frozenset(['iso-8859-1', 'latin-1', 'cp1252'])
TW_NEWLINES = (None, None, '', '\n')
UNJUDGED_SAMPLE = 8          # the unjudged Dsc/Changes forms are executed (and counted) for 1 case in 8
DUMP_MODES = ('str', 'fd_b', 'fd_b_enc', 'fd_t')
# every output route of a paragraph (the first four are the rotating PRIMARY routes of a case, as before)
ROUTES = DUMP_MODES + ('str()', 'bytes()', 'file_wb', 'file_wb_unbuffered', 'file_wb_oddbuf', 'file_wt', 'tw_t')
ODD_BUFFERS = (2, 16, 512, 4096, 8191, 8193, 65536)
FILE_PADS = (0, 0, 0, 1, 7, 100, 4095, 4096, 8191, 8192, 8193)
BIG_DOCS = {'quick': 72, 'thorough': 3600}       # random "big" documents (TOTAL over shards); + the enumerated big grid
BIG_SIZES = (4096, 8191, 8192, 8193, 16384, 65536)
BIG_PLACES = ('alone', 'first', 'mid', 'last')
BIG_SHAPES = ('line', 'lines', 'first+lines', 'long-cont')
BIG_TAGS = ('entry>=8192', 'entry>=65536', 'fields>=200', 'line>=10000', 'conts>=1000')
# Floors of the OUTPUT-ROUTE / "big" extension.  Rule: ~50% of the minimum measured on the current tree over VERIF_SEED 0..3
# (thorough: seed 0); a QUARTER where that minimum is below 40 (small counts of expensive documents vary more from seed to
# seed).  Per size class (measured on the text the library really dumped): 'paragraphs' is the floor of big:<class> AND of every
# big:<class>:route:<route> counter (every paragraph goes through every output route - a run in which large entries did not
# reach some route is INCONCLUSIVE); 'api' = (iter_paragraphs, Deb822, Dsc, Changes); 'form' = one number per form group of
# UNI_FORM_GROUPS (in-memory containers, real binary file, text file utf-8, 8-bit, utf-16).
BIG_API_ORDER = ('iter_paragraphs', 'Deb822', 'Dsc', 'Changes')
BIG_FLOORS = {
    'quick': {
        'entry>=8192': {'paragraphs': 43, 'armour': 620, 'comments': 660, 'api': (590, 490, 140, 140), 'form': (120, 130, 65, 59, 51)},
        'entry>=65536': {'paragraphs': 3, 'armour': 100, 'comments': 100, 'api': (91, 86, 23, 23), 'form': (22, 9, 4, 3, 3)},
        'fields>=200': {'paragraphs': 2, 'armour': 36, 'comments': 36, 'api': (50, 26, 4, 4), 'form': (4, 4, 2, 1, 2)},
        'line>=10000': {'paragraphs': 6, 'armour': 210, 'comments': 240, 'api': (190, 170, 49, 49), 'form': (43, 43, 9, 5, 5)},
        'conts>=1000': {'paragraphs': 3, 'armour': 71, 'comments': 81, 'api': (88, 60, 8, 8), 'form': (8, 8, 4, 3, 1)},
        'line>=100000': {'paragraphs': 1},
    },
    'thorough': {
        'entry>=8192': {'paragraphs': 1300, 'armour': 16000, 'comments': 19000, 'api': (17000, 13000, 3900, 3900),
                        'form': (3900, 4000, 1900, 1900, 1400)},
        'entry>=65536': {'paragraphs': 200, 'armour': 2500, 'comments': 3100, 'api': (2700, 2000, 600, 600), 'form': (600, 600, 290, 310, 220)},
        'fields>=200': {'paragraphs': 290, 'armour': 3800, 'comments': 4400, 'api': (3900, 3000, 910, 910), 'form': (870, 910, 420, 410, 340)},
        'line>=10000': {'paragraphs': 570, 'armour': 7400, 'comments': 8500, 'api': (7700, 5900, 1700, 1700), 'form': (1700, 1700, 860, 890, 640)},
        'conts>=1000': {'paragraphs': 280, 'armour': 3700, 'comments': 4400, 'api': (3800, 2900, 880, 880), 'form': (850, 890, 440, 470, 310)},
        'line>=100000': {'paragraphs': 49},
    },
}
BIG_FLAT_FLOORS = {
    'quick': {'counters': {'big:class:long-line': 3, 'big:class:many-conts': 2, 'big:class:many-fields': 2, 'big:class:threshold': 40,
                           'big:entry-bytes=16384': 2, 'big:entry-bytes=4096': 3, 'big:entry-bytes=65536': 2,
                           'big:entry-bytes=8191': 2, 'big:entry-bytes=8192': 2, 'big:entry-bytes=8193': 2,
                           'big:entry-bytes=k*8192+-2': 1, 'big:paragraph-bytes>=8192': 48, 'big:place:alone': 6,
                           'big:place:between': 7, 'big:place:first': 5, 'big:place:last': 6, 'doc:big': 63},
              'route': 3100,                       # every route:<route> counter (paragraphs written through that route)
              'monitors': {'M.big': 1900, 'M.get_as_string': 11000}},
    'thorough': {'counters': {'big:class:long-line': 340, 'big:class:many-conts': 270, 'big:class:many-fields': 290,
                              'big:class:threshold': 900, 'big:entry-bytes=16384': 90, 'big:entry-bytes=4096': 100,
                              'big:entry-bytes=65536': 7, 'big:entry-bytes=8191': 81, 'big:entry-bytes=8192': 120,
                              'big:entry-bytes=8193': 120, 'big:entry-bytes=k*8192+-2': 230, 'big:paragraph-bytes>=8192': 1400,
                              'big:place:alone': 320, 'big:place:between': 420, 'big:place:first': 400, 'big:place:last': 350,
                              'doc:big': 1800},
                 'route': 160000,
                 'monitors': {'M.big': 54000, 'M.get_as_string': 670000}},
}
for _tier, _table in BIG_FLOORS.items():
    _c = FLOORS[_tier]['counters']
    _c.update(BIG_FLAT_FLOORS[_tier]['counters'])
    FLOORS[_tier]['monitors'].update(BIG_FLAT_FLOORS[_tier]['monitors'])
    for _rt in ROUTES:
        if BIG_FLAT_FLOORS[_tier]['route']:
            _c['route:%s' % _rt] = BIG_FLAT_FLOORS[_tier]['route']
    for _tag, _row in _table.items():
        if _row.get('paragraphs'):
            _c['big:%s' % _tag] = _row['paragraphs']
            for _rt in ROUTES:
                _c['big:%s:route:%s' % (_tag, _rt)] = _row['paragraphs']
        for _k in ('armour', 'comments'):
            if _row.get(_k):
                _c['big:%s:%s' % (_tag, _k)] = _row[_k]
        for _api, _floor in zip(BIG_API_ORDER, _row.get('api', ())):
            if _floor:
                _c['big:%s:api:%s' % (_tag, _api)] = _floor
        for _forms, _floor in zip(UNI_FORM_GROUPS, _row.get('form', ())):
            if _floor:
                for _f in _forms:
                    _c['big:%s:form:%s' % (_tag, _f)] = _floor
# --- "asm" class: multi-paragraph documents WRITTEN PARAGRAPH BY PARAGRAPH ------------------------------------------
# The way programs write a document: per paragraph the text of ONE output route followed by the customary single separator
# newline, into a str / bytes value or a shared stream; or '\n'.join(...) over the paragraph texts.
ASM_DOCS = {'quick': 160, 'thorough': 9000}     # random "asm" documents (TOTAL over shards); + the enumerated asm grid
ASM_BIN_PARTS = ('dump(fd)', 'dump(fd,encoding)', 'write(bytes(p))', 'write(str(p).encode())', 'write(dump().encode())')
ASM_TEXT_PARTS = ('dump(fd,text_mode)', 'write(str(p))', 'write(dump())', 'print(p,file=fd)')
# route -> (kind, unit, part): kind 'value' (text + separator concatenated / joined by the caller) or 'stream' (ONE shared
# stream for the whole document; the part is written, then the separator newline); part None = drawn per paragraph
ASM_ROUTES = {
    'str()+nl': ('value', 'text', 'str'), 'dump()+nl': ('value', 'text', 'dump'), 'bytes()+nl': ('value', 'bytes', 'bytes'),
    'join-str()': ('join', 'text', 'str'), 'join-dump()': ('join', 'text', 'dump'), 'join-bytes()': ('join', 'bytes', 'bytes'),
    'fd_b-shared': ('stream', 'bytes', 'dump(fd)'), 'fd_b_enc-shared': ('stream', 'bytes', 'dump(fd,encoding)'),
    'file_wb-shared': ('stream', 'bytes', 'dump(fd)'), 'fd_t-shared': ('stream', 'text', 'dump(fd,text_mode)'),
    'file_wt-shared': ('stream', 'text', 'dump(fd,text_mode)'), 'tw_t-shared': ('stream', 'text', 'dump(fd,text_mode)'),
    'print()-shared': ('stream', 'text', 'print(p,file=fd)'),
    'mixed-binary': ('stream', 'bytes', None), 'mixed-text': ('stream', 'text', None),
}
ASM_ROUTE_ORDER = ('str()+nl', 'dump()+nl', 'bytes()+nl', 'fd_b-shared', 'fd_b_enc-shared', 'fd_t-shared', 'file_wb-shared',
                   'file_wt-shared', 'tw_t-shared', 'print()-shared', 'join-str()', 'join-dump()', 'join-bytes()',
                   'mixed-binary', 'mixed-text')
ASM_APIS = ('Deb822', 'Dsc', 'Changes')           # <cls>.iter_paragraphs
ASM_ENCS = ('utf-8', 'UTF-8', 'iso-8859-1', 'latin-1', 'cp1252', 'utf-16', 'utf-8', 'utf-16')
ASM_LAST_SHAPES = ('empty-value', 'single-line', 'single-line-trailing-blank', 'multi-line', 'multi-line-trailing-blank')
# Floors of the "asm" extension (documents written paragraph by paragraph).  Same rule: ~50% of the minimum measured on the current
# tree over VERIF_SEED 0..3 (thorough: seed 0), a quarter where that minimum is below 40.  'route_api' is the floor of EVERY
# asm:<assembly route>:<API> counter (re-reads of the text that route wrote, through <API>.iter_paragraphs): a run in which some
# (route x API) cell was not exercised is INCONCLUSIVE.
ASM_FLOORS = {
    'quick': {'route_api': 450,
              'counters': {'doc:asm': 110, 'api:Deb822.iter_paragraphs': 900, 'api:Dsc.iter_paragraphs': 900,
                           'api:Changes.iter_paragraphs': 900,
                           'asm:form:str': 330, 'asm:form:bytes': 330, 'asm:form:lines_nl': 330, 'asm:form:lines_nonl': 330,
                           'asm:form:textio': 330, 'asm:form:bytesio': 330, 'asm:form:binfile': 330, 'asm:form:tw:utf-8': 130,
                           'asm:form:tf:utf-8': 130, 'asm:form:tw:8bit': 5, 'asm:form:tf:8bit': 5, 'asm:form:tw:utf-16': 5,
                           'asm:form:tf:utf-16': 5,
                           'asm:last-field:empty-value': 10, 'asm:last-field:single-line': 60,
                           'asm:last-field:single-line-trailing-blank': 55, 'asm:last-field:multi-line': 88,
                           'asm:last-field:multi-line-trailing-blank': 110,
                           'asm:paragraphs=2': 38, 'asm:paragraphs=3': 29, 'asm:paragraphs=4': 8, 'asm:paragraphs=5': 8,
                           'asm:part-ends-in-exactly-one-newline:str()': 680, 'asm:part-ends-in-exactly-one-newline:dump()': 680,
                           'asm:part-ends-in-exactly-one-newline:bytes()': 680, 'asm:part-ends-in-exactly-one-newline:dump(fd)': 760,
                           'asm:part-ends-in-exactly-one-newline:dump(fd,encoding)': 400,
                           'asm:part-ends-in-exactly-one-newline:dump(fd,text_mode)': 740,
                           'asm:part-ends-in-exactly-one-newline:print(p,file=fd)': 320,
                           'asm:part-ends-in-exactly-one-newline:write(bytes(p))': 60,
                           'asm:part-ends-in-exactly-one-newline:write(str(p).encode())': 60,
                           'asm:part-ends-in-exactly-one-newline:write(dump().encode())': 60,
                           'asm:part-ends-in-exactly-one-newline:write(str(p))': 60,
                           'asm:part-ends-in-exactly-one-newline:write(dump())': 60},
              'monitors': {'M.asm': 2700}},
    'thorough': {'route_api': 18000,
                 'counters': {'doc:asm': 4500, 'api:Deb822.iter_paragraphs': 36000, 'api:Dsc.iter_paragraphs': 36000,
                              'api:Changes.iter_paragraphs': 36000,
                              'asm:form:str': 13000, 'asm:form:bytes': 13000, 'asm:form:lines_nl': 13000, 'asm:form:lines_nonl': 13000,
                              'asm:form:textio': 13000, 'asm:form:bytesio': 13000, 'asm:form:binfile': 13000,
                              'asm:form:tw:utf-8': 5700, 'asm:form:tf:utf-8': 5700, 'asm:form:tw:8bit': 390, 'asm:form:tf:8bit': 390,
                              'asm:form:tw:utf-16': 540, 'asm:form:tf:utf-16': 540,
                              'asm:last-field:empty-value': 430, 'asm:last-field:single-line': 1700,
                              'asm:last-field:single-line-trailing-blank': 2900, 'asm:last-field:multi-line': 3000,
                              'asm:last-field:multi-line-trailing-blank': 5400,
                              'asm:paragraphs=2': 1900, 'asm:paragraphs=3': 1300, 'asm:paragraphs=4': 630, 'asm:paragraphs=5': 660,
                              'asm:part-ends-in-exactly-one-newline:str()': 27000, 'asm:part-ends-in-exactly-one-newline:dump()': 27000,
                              'asm:part-ends-in-exactly-one-newline:bytes()': 27000, 'asm:part-ends-in-exactly-one-newline:dump(fd)': 30000,
                              'asm:part-ends-in-exactly-one-newline:dump(fd,encoding)': 16000,
                              'asm:part-ends-in-exactly-one-newline:dump(fd,text_mode)': 30000,
                              'asm:part-ends-in-exactly-one-newline:print(p,file=fd)': 12000,
                              'asm:part-ends-in-exactly-one-newline:write(bytes(p))': 2500,
                              'asm:part-ends-in-exactly-one-newline:write(str(p).encode())': 2500,
                              'asm:part-ends-in-exactly-one-newline:write(dump().encode())': 2500,
                              'asm:part-ends-in-exactly-one-newline:write(str(p))': 2500,
                              'asm:part-ends-in-exactly-one-newline:write(dump())': 2500},
                 'monitors': {'M.asm': 108000}},
}
for _tier, _table in ASM_FLOORS.items():
    FLOORS[_tier]['counters'].update(_table['counters'])
    FLOORS[_tier]['monitors'].update(_table['monitors'])
    if _table['route_api']:
        for _rt in ASM_ROUTE_ORDER:
            for _api in ASM_APIS:
                FLOORS[_tier]['counters']['asm:%s:%s' % (_rt, _api)] = _table['route_api']
STRUCTURED = frozenset(['files', 'checksums-sha1', 'checksums-sha256', 'checksums-sha512'])
# --- "mv" class: Dsc / Changes shaped documents - STRUCTURED (multivalued) fields + text that mentions PGP armour words ----------
# The item format of the structured fields (model side; what the file formats say): number of whitespace-separated tokens of one
# item line that the class reads as one record.
MV_COLUMNS = {'Dsc': {'files': 3, 'checksums-sha1': 3, 'checksums-sha256': 3, 'checksums-sha512': 3},
              'Changes': {'files': 5, 'checksums-sha1': 3, 'checksums-sha256': 3, 'checksums-sha512': 3}}
GPG_APIS = ('Dsc', 'Changes', 'Dsc.iter_paragraphs', 'Changes.iter_paragraphs')
MV_APIS = ('iter_paragraphs', 'Deb822') + GPG_APIS
MV_DOCS = {'quick': 72, 'thorough': 5600}       # random "mv" documents (TOTAL over shards); + the enumerated mv / armour-word grids
MV_FIELDS = (('files', 3), ('files', 5), ('checksums-sha1', 3), ('checksums-sha256', 3), ('checksums-sha512', 3))
MV_SPELLINGS = {'files': ('Files', 'Files', 'Files', 'files', 'FILES'),
                'checksums-sha1': ('Checksums-Sha1', 'Checksums-Sha1', 'checksums-sha1', 'Checksums-SHA1'),
                'checksums-sha256': ('Checksums-Sha256', 'Checksums-Sha256', 'CHECKSUMS-SHA256', 'checksums-Sha256'),
                'checksums-sha512': ('Checksums-Sha512', 'Checksums-Sha512', 'Checksums-SHA512')}
MV_DIGEST = {'files': 32, 'checksums-sha1': 40, 'checksums-sha256': 64, 'checksums-sha512': 128}
MV_LAYOUTS = ('cont', 'cont-blank-on-field-line', 'single-cont', 'single-cont-blank-on-field-line', 'mixed', 'mixed-trailing-blank',
              'single', 'single-trailing-blank')
MV_SEPS = (' ', ' ', ' ', ' ', '\t', '  ', ' \t', '\t\t', '     ', '\t ')
MV_REDUMP_EVERY = 3          # every third Dsc / Changes form of an "mv" case is dumped again and re-parsed
MV_REDUMP_ROUTES = ('str', 'fd_b', 'str()', 'fd_t', 'bytes()', 'fd_b_enc')
MV_REDUMP_ROUTES_EXPLICIT = ('str', 'fd_b_enc', 'str()', 'fd_t')      # text routes + the binary route with encoding='utf-8' spelled out
ARMOR_FIRST = ['see -----END PGP SIGNATURE----- below', 'see -----END PGP SIGNATURE-----', '-----BEGIN PGP SIGNED MESSAGE----- was here',
               'x -----BEGIN PGP SIGNATURE-----', '-----END PGP SIGNATURE-----', '-----BEGIN PGP SIGNED MESSAGE-----',
               '- -----BEGIN PGP SIGNED MESSAGE-----', 'a -----BEGIN PGP SIGNED MESSAGE----- b -----END PGP SIGNATURE----- c',
               '-----END PGP MESSAGE-----', 'key: -----BEGIN PGP PUBLIC KEY BLOCK-----', '-----BEGIN PGP SIGNATURE-----',
               'no -----END PGP SIGNED MESSAGE-----']
ARMOR_CONT = [' see -----END PGP SIGNATURE----- below', ' -----BEGIN PGP SIGNED MESSAGE-----', '\t-----END PGP SIGNATURE-----',
              ' . -----BEGIN PGP SIGNATURE-----', ' x-----END PGP SIGNATURE-----', '  -----BEGIN PGP SIGNATURE-----  ',
              ' -----END PGP SIGNATURE----- x', ' * fix "-----BEGIN PGP SIGNED MESSAGE-----" handling', ' - -----BEGIN PGP SIGNATURE-----',
              '\t\t-----BEGIN PGP SIGNED MESSAGE-----\t', ' -----END PGP SIGNED MESSAGE-----', ' -----BEGIN PGP SIGNATURE-----',
              ' see -----BEGIN PGP SIGNED MESSAGE-----', ' -----END PGP SIGNATURE-----']
ARMOR_MARK = re.compile(r'-----(?:BEGIN|END) PGP [^-]+-----')
ARMOR_POSITIONS = ('first-whole', 'first-start', 'first-mid', 'first-end', 'cont-whole', 'cont-start', 'cont-mid', 'cont-end')
# Floors of the "mv" extension (Dsc / Changes shaped documents: structured fields in every layout, armour-word mentions).  GENERATED
# from evidence files: ~50% of the minimum measured on the current tree over VERIF_SEED 0..3 (thorough: seed 0), a quarter (at least 1)
# where that minimum is below 40.  mv:<layout>:<API> = forms of documents holding a structured field in that layout, read through
# that API; mv:redump:<layout>:<class> = second rounds (dump by the class + re-read); armorword:<position>:<plain|armour> /
# armorword:<plain|armour>:<API> / armorword:whole-document-as-one-<str|bytes>:<API> = forms of documents whose text fields mention
# armour words.  A run that never exercises one of these cells is INCONCLUSIVE, not held.  No floors on mv:exposed-as:* (how a class
# exposes a structured field is its choice) and mv:redump-not-applicable:*.
MV_FLOORS = {
    'quick': {
        'counters': {'armorword:armour:Changes': 180, 'armorword:armour:Changes.iter_paragraphs': 180,
                     'armorword:armour:Deb822': 200, 'armorword:armour:Dsc': 180,
                     'armorword:armour:Dsc.iter_paragraphs': 180, 'armorword:armour:iter_paragraphs': 200,
                     'armorword:cont-end:armour': 260, 'armorword:cont-end:plain': 620, 'armorword:cont-mid:armour':
                     140, 'armorword:cont-mid:plain': 300, 'armorword:cont-start:armour': 59,
                     'armorword:cont-start:plain': 120, 'armorword:cont-whole:armour': 510,
                     'armorword:cont-whole:plain': 1000, 'armorword:doc-with:cont-end': 5,
                     'armorword:doc-with:cont-mid': 2, 'armorword:doc-with:cont-start': 1,
                     'armorword:doc-with:cont-whole': 8, 'armorword:doc-with:first-end': 3,
                     'armorword:doc-with:first-mid': 2, 'armorword:doc-with:first-start': 1,
                     'armorword:doc-with:first-whole': 5, 'armorword:first-end:armour': 300,
                     'armorword:first-end:plain': 450, 'armorword:first-mid:armour': 150, 'armorword:first-mid:plain':
                     270, 'armorword:first-start:armour': 31, 'armorword:first-start:plain': 93,
                     'armorword:first-whole:armour': 260, 'armorword:first-whole:plain': 610,
                     'armorword:plain:Changes': 180, 'armorword:plain:Changes.iter_paragraphs': 450,
                     'armorword:plain:Deb822': 200, 'armorword:plain:Dsc': 180, 'armorword:plain:Dsc.iter_paragraphs':
                     450, 'armorword:plain:iter_paragraphs': 500, 'armorword:whole-document-as-one-bytes:Changes': 38,
                     'armorword:whole-document-as-one-bytes:Changes.iter_paragraphs': 67,
                     'armorword:whole-document-as-one-bytes:Deb822': 38, 'armorword:whole-document-as-one-bytes:Dsc':
                     38, 'armorword:whole-document-as-one-bytes:Dsc.iter_paragraphs': 67,
                     'armorword:whole-document-as-one-bytes:iter_paragraphs': 67,
                     'armorword:whole-document-as-one-str:Changes': 38,
                     'armorword:whole-document-as-one-str:Changes.iter_paragraphs': 67,
                     'armorword:whole-document-as-one-str:Deb822': 38, 'armorword:whole-document-as-one-str:Dsc': 38,
                     'armorword:whole-document-as-one-str:Dsc.iter_paragraphs': 67,
                     'armorword:whole-document-as-one-str:iter_paragraphs': 67, 'doc:mv': 70,
                     'mv:cont-blank-on-field-line:Changes': 110,
                     'mv:cont-blank-on-field-line:Changes.iter_paragraphs': 170, 'mv:cont-blank-on-field-line:Deb822':
                     120, 'mv:cont-blank-on-field-line:Dsc': 110, 'mv:cont-blank-on-field-line:Dsc.iter_paragraphs':
                     170, 'mv:cont-blank-on-field-line:iter_paragraphs': 190, 'mv:cont:Changes': 330,
                     'mv:cont:Changes.iter_paragraphs': 580, 'mv:cont:Deb822': 370, 'mv:cont:Dsc': 330,
                     'mv:cont:Dsc.iter_paragraphs': 580, 'mv:cont:iter_paragraphs': 650, 'mv:doc-with-layout:cont':
                     30, 'mv:doc-with-layout:cont-blank-on-field-line': 4, 'mv:doc-with-layout:mixed': 6,
                     'mv:doc-with-layout:mixed-trailing-blank': 5, 'mv:doc-with-layout:single': 4,
                     'mv:doc-with-layout:single-cont': 5, 'mv:doc-with-layout:single-cont-blank-on-field-line': 5,
                     'mv:doc-with-layout:single-trailing-blank': 5, 'mv:mixed-trailing-blank:Changes': 150,
                     'mv:mixed-trailing-blank:Changes.iter_paragraphs': 210, 'mv:mixed-trailing-blank:Deb822': 170,
                     'mv:mixed-trailing-blank:Dsc': 150, 'mv:mixed-trailing-blank:Dsc.iter_paragraphs': 210,
                     'mv:mixed-trailing-blank:iter_paragraphs': 230, 'mv:mixed:Changes': 130,
                     'mv:mixed:Changes.iter_paragraphs': 230, 'mv:mixed:Deb822': 140, 'mv:mixed:Dsc': 130,
                     'mv:mixed:Dsc.iter_paragraphs': 230, 'mv:mixed:iter_paragraphs': 250, 'mv:redump-route:bytes()':
                     170, 'mv:redump-route:fd_b': 160, 'mv:redump-route:fd_b_enc': 230, 'mv:redump-route:fd_t': 220,
                     'mv:redump-route:str': 210, 'mv:redump-route:str()': 200, 'mv:redump:Changes': 200,
                     'mv:redump:Changes.iter_paragraphs': 310, 'mv:redump:Dsc': 260, 'mv:redump:Dsc.iter_paragraphs':
                     440, 'mv:redump:cont-blank-on-field-line:Changes': 86, 'mv:redump:cont-blank-on-field-line:Dsc':
                     87, 'mv:redump:cont:Changes': 190, 'mv:redump:cont:Dsc': 310,
                     'mv:redump:mixed-trailing-blank:Changes': 93, 'mv:redump:mixed-trailing-blank:Dsc': 100,
                     'mv:redump:mixed:Changes': 84, 'mv:redump:mixed:Dsc': 120,
                     'mv:redump:single-cont-blank-on-field-line:Changes': 87,
                     'mv:redump:single-cont-blank-on-field-line:Dsc': 100, 'mv:redump:single-cont:Changes': 65,
                     'mv:redump:single-cont:Dsc': 120, 'mv:redump:single-trailing-blank:Changes': 61,
                     'mv:redump:single-trailing-blank:Dsc': 93, 'mv:redump:single:Changes': 55,
                     'mv:redump:single:Dsc': 95, 'mv:separator:several-blanks': 52, 'mv:separator:tab': 78,
                     'mv:single-cont-blank-on-field-line:Changes': 140,
                     'mv:single-cont-blank-on-field-line:Changes.iter_paragraphs': 200,
                     'mv:single-cont-blank-on-field-line:Deb822': 160, 'mv:single-cont-blank-on-field-line:Dsc': 140,
                     'mv:single-cont-blank-on-field-line:Dsc.iter_paragraphs': 200,
                     'mv:single-cont-blank-on-field-line:iter_paragraphs': 220, 'mv:single-cont:Changes': 120,
                     'mv:single-cont:Changes.iter_paragraphs': 220, 'mv:single-cont:Deb822': 140,
                     'mv:single-cont:Dsc': 120, 'mv:single-cont:Dsc.iter_paragraphs': 220,
                     'mv:single-cont:iter_paragraphs': 240, 'mv:single-trailing-blank:Changes': 110,
                     'mv:single-trailing-blank:Changes.iter_paragraphs': 190, 'mv:single-trailing-blank:Deb822': 120,
                     'mv:single-trailing-blank:Dsc': 110, 'mv:single-trailing-blank:Dsc.iter_paragraphs': 190,
                     'mv:single-trailing-blank:iter_paragraphs': 210, 'mv:single:Changes': 100,
                     'mv:single:Changes.iter_paragraphs': 180, 'mv:single:Deb822': 110, 'mv:single:Dsc': 100,
                     'mv:single:Dsc.iter_paragraphs': 180, 'mv:single:iter_paragraphs': 200,
                     'mv:source:armour-word-grid': 5, 'mv:source:layout-grid': 23, 'mv:source:random': 36},
        'monitors': {'M.armorword': 3100, 'M.mv': 4300, 'M.mv.redump': 1200}},
    'thorough': {
        'counters': {'armorword:armour:Changes': 9700, 'armorword:armour:Changes.iter_paragraphs': 9700,
                     'armorword:armour:Deb822': 10000, 'armorword:armour:Dsc': 9700,
                     'armorword:armour:Dsc.iter_paragraphs': 9700, 'armorword:armour:iter_paragraphs': 10000,
                     'armorword:cont-end:armour': 14000, 'armorword:cont-end:plain': 33000,
                     'armorword:cont-mid:armour': 6900, 'armorword:cont-mid:plain': 16000,
                     'armorword:cont-start:armour': 3600, 'armorword:cont-start:plain': 8900,
                     'armorword:cont-whole:armour': 29000, 'armorword:cont-whole:plain': 62000,
                     'armorword:doc-with:cont-end': 560, 'armorword:doc-with:cont-mid': 280,
                     'armorword:doc-with:cont-start': 150, 'armorword:doc-with:cont-whole': 1000,
                     'armorword:doc-with:first-end': 400, 'armorword:doc-with:first-mid': 170,
                     'armorword:doc-with:first-start': 87, 'armorword:doc-with:first-whole': 600,
                     'armorword:first-end:armour': 10000, 'armorword:first-end:plain': 23000,
                     'armorword:first-mid:armour': 4200, 'armorword:first-mid:plain': 10000,
                     'armorword:first-start:armour': 2100, 'armorword:first-start:plain': 5100,
                     'armorword:first-whole:armour': 15000, 'armorword:first-whole:plain': 35000,
                     'armorword:plain:Changes': 9700, 'armorword:plain:Changes.iter_paragraphs': 26000,
                     'armorword:plain:Deb822': 10000, 'armorword:plain:Dsc': 9700,
                     'armorword:plain:Dsc.iter_paragraphs': 26000, 'armorword:plain:iter_paragraphs': 29000,
                     'armorword:whole-document-as-one-bytes:Changes': 2000,
                     'armorword:whole-document-as-one-bytes:Changes.iter_paragraphs': 3800,
                     'armorword:whole-document-as-one-bytes:Deb822': 2000,
                     'armorword:whole-document-as-one-bytes:Dsc': 2000,
                     'armorword:whole-document-as-one-bytes:Dsc.iter_paragraphs': 3800,
                     'armorword:whole-document-as-one-bytes:iter_paragraphs': 3800,
                     'armorword:whole-document-as-one-str:Changes': 2000,
                     'armorword:whole-document-as-one-str:Changes.iter_paragraphs': 3800,
                     'armorword:whole-document-as-one-str:Deb822': 2000, 'armorword:whole-document-as-one-str:Dsc':
                     2000, 'armorword:whole-document-as-one-str:Dsc.iter_paragraphs': 3800,
                     'armorword:whole-document-as-one-str:iter_paragraphs': 3800, 'doc:mv': 2800,
                     'mv:cont-blank-on-field-line:Changes': 5400,
                     'mv:cont-blank-on-field-line:Changes.iter_paragraphs': 11000,
                     'mv:cont-blank-on-field-line:Deb822': 6000, 'mv:cont-blank-on-field-line:Dsc': 5400,
                     'mv:cont-blank-on-field-line:Dsc.iter_paragraphs': 11000,
                     'mv:cont-blank-on-field-line:iter_paragraphs': 13000, 'mv:cont:Changes': 17000,
                     'mv:cont:Changes.iter_paragraphs': 33000, 'mv:cont:Deb822': 19000, 'mv:cont:Dsc': 17000,
                     'mv:cont:Dsc.iter_paragraphs': 33000, 'mv:cont:iter_paragraphs': 37000,
                     'mv:doc-with-layout:cont': 1700, 'mv:doc-with-layout:cont-blank-on-field-line': 630,
                     'mv:doc-with-layout:mixed': 600, 'mv:doc-with-layout:mixed-trailing-blank': 600,
                     'mv:doc-with-layout:single': 640, 'mv:doc-with-layout:single-cont': 630,
                     'mv:doc-with-layout:single-cont-blank-on-field-line': 640,
                     'mv:doc-with-layout:single-trailing-blank': 610, 'mv:mixed-trailing-blank:Changes': 5100,
                     'mv:mixed-trailing-blank:Changes.iter_paragraphs': 11000, 'mv:mixed-trailing-blank:Deb822': 5700,
                     'mv:mixed-trailing-blank:Dsc': 5100, 'mv:mixed-trailing-blank:Dsc.iter_paragraphs': 11000,
                     'mv:mixed-trailing-blank:iter_paragraphs': 12000, 'mv:mixed:Changes': 5500,
                     'mv:mixed:Changes.iter_paragraphs': 11000, 'mv:mixed:Deb822': 6100, 'mv:mixed:Dsc': 5500,
                     'mv:mixed:Dsc.iter_paragraphs': 11000, 'mv:mixed:iter_paragraphs': 12000,
                     'mv:redump-route:bytes()': 7500, 'mv:redump-route:fd_b': 7500, 'mv:redump-route:fd_b_enc': 9600,
                     'mv:redump-route:fd_t': 9600, 'mv:redump-route:str': 9600, 'mv:redump-route:str()': 9600,
                     'mv:redump:Changes': 9900, 'mv:redump:Changes.iter_paragraphs': 14000, 'mv:redump:Dsc': 11000,
                     'mv:redump:Dsc.iter_paragraphs': 17000, 'mv:redump:cont-blank-on-field-line:Changes': 4400,
                     'mv:redump:cont-blank-on-field-line:Dsc': 5700, 'mv:redump:cont:Changes': 13000,
                     'mv:redump:cont:Dsc': 17000, 'mv:redump:mixed-trailing-blank:Changes': 3900,
                     'mv:redump:mixed-trailing-blank:Dsc': 5500, 'mv:redump:mixed:Changes': 4400,
                     'mv:redump:mixed:Dsc': 5500, 'mv:redump:single-cont-blank-on-field-line:Changes': 4600,
                     'mv:redump:single-cont-blank-on-field-line:Dsc': 5800, 'mv:redump:single-cont:Changes': 4500,
                     'mv:redump:single-cont:Dsc': 5700, 'mv:redump:single-trailing-blank:Changes': 4200,
                     'mv:redump:single-trailing-blank:Dsc': 5400, 'mv:redump:single:Changes': 4500,
                     'mv:redump:single:Dsc': 5900, 'mv:separator:several-blanks': 2900, 'mv:separator:tab': 4400,
                     'mv:single-cont-blank-on-field-line:Changes': 5700,
                     'mv:single-cont-blank-on-field-line:Changes.iter_paragraphs': 12000,
                     'mv:single-cont-blank-on-field-line:Deb822': 6300, 'mv:single-cont-blank-on-field-line:Dsc':
                     5700, 'mv:single-cont-blank-on-field-line:Dsc.iter_paragraphs': 12000,
                     'mv:single-cont-blank-on-field-line:iter_paragraphs': 13000, 'mv:single-cont:Changes': 5600,
                     'mv:single-cont:Changes.iter_paragraphs': 12000, 'mv:single-cont:Deb822': 6200,
                     'mv:single-cont:Dsc': 5600, 'mv:single-cont:Dsc.iter_paragraphs': 12000,
                     'mv:single-cont:iter_paragraphs': 13000, 'mv:single-trailing-blank:Changes': 5100,
                     'mv:single-trailing-blank:Changes.iter_paragraphs': 11000, 'mv:single-trailing-blank:Deb822':
                     5600, 'mv:single-trailing-blank:Dsc': 5100, 'mv:single-trailing-blank:Dsc.iter_paragraphs':
                     11000, 'mv:single-trailing-blank:iter_paragraphs': 12000, 'mv:single:Changes': 5800,
                     'mv:single:Changes.iter_paragraphs': 12000, 'mv:single:Deb822': 6400, 'mv:single:Dsc': 5800,
                     'mv:single:Dsc.iter_paragraphs': 12000, 'mv:single:iter_paragraphs': 13000,
                     'mv:source:armour-word-grid': 5, 'mv:source:layout-grid': 63, 'mv:source:random': 2800},
        'monitors': {'M.armorword': 170000, 'M.mv': 170000, 'M.mv.redump': 53000}},
}
for _tier, _table in MV_FLOORS.items():
    FLOORS[_tier]['counters'].update(_table['counters'])
    FLOORS[_tier]['monitors'].update(_table['monitors'])
    FLOORS[_tier]['counters']['api:Dsc.iter_paragraphs'] = FLOORS[_tier]['counters']['api:Changes.iter_paragraphs'] = \
        {'quick': 2200, 'thorough': 90000}[_tier]            # ("asm" + "mv" classes together)

# ---------------------------------------------------------------------------
# workload generators (model side; no library code)

# names whose first character is a digit or punctuation (policy-valid: anything in 33..126 but ':', not starting '#'/'-')
ODD_START_NAMES = ['3rd-Party', '$x', '+a', '.b', '/c', '(d', '*e', '0ad', '9', '_u', '~t', '@home', '%p', '=eq', '?q',
                   '[k]', '{m}', '|', '"q', "'s", '&and', ')', ',', ';s', '<lt', '>gt', '\\b', '^c', '`t', '!bang', '2-F',
                   '7zip', '.', '+', '1', '$Id$', '(c)', '*']
REAL_NAMES = ['Package', 'Version', 'Description', 'Depends', 'X-Foo', 'Foo_Bar', 'x!y', 'b9', 'A', 'Maintainer',
              'Hash', 'Source', 'Binary', 'Format', 'X-Comment', 'Vcs-Git', 'a', 'Z9_', 'x-----BEGIN', 'PGP',
              'Tag', 'Built-Using', '0', '!', 'X#Y', 'a-']
NAME_CHARS = [chr(c) for c in range(33, 127) if chr(c) != ':']
VAL_ATOMS = list('ab:# \t-.,=()é漢{}') + ['xyz', '1.0', '>=', '<<', '|', '$', '@', '%', '~', '/', '"', "'",
                                                         '\\', '[', ']', ';', 'ü', '€', '+']
FIRST_SPECIAL = ['', ':', '#', ':x', '#x', ': x', '# x', 'Key: value', 'K:', '-----BEGIN PGP SIGNED MESSAGE-----',
                 '-----BEGIN PGP SIGNATURE-----', '-----END PGP SIGNATURE-----', '.', '- x', '::', '#:', ':#',
                 'a: b: c', 'Hash: SHA256', '=abcd', 'a  b', 'a\tb', 'é', '漢字 x', 'x #y', 'x :y']
CONT_SPECIAL = ['.', '#x', '# comment', '#', 'Key: value', 'K:', ':', ': x', '-----BEGIN PGP SIGNATURE-----',
                '-----END PGP SIGNATURE-----', '-----BEGIN PGP SIGNED MESSAGE-----', 'Hash: SHA256', '=abcd',
                'a: b', 'x', '- item', 'été', '漢', 'a  b', 'a\tb', 'Package: foo', '#K: v']
LEADS = [' ', ' ', ' ', '\t', '  ', ' \t', '\t ']
TRAILS = ['', '', '', ' ', '\t', '  ', '\t\t', ' \t ']
PADS_L = ['', '', '', ' ', '  ', '\t', ' \t']
PADS_R = ['', '', '', ' ', '  ', '\t', '\t ', ' \t']
COMMENTS = ['#', '# c', '#c', '#K: v', '#\tx', '# -----BEGIN PGP SIGNATURE-----', '#-----END PGP SIGNATURE-----',
            '#-----BEGIN PGP SIGNED MESSAGE-----', '# é', '## x', '#:', '# Key: value ', '#\t']
MARK_TRAILS = ['', '', ' ', '\t', '  ', '\r', ' \r', '\t \r', ' \t']

# --- "uni" class: valid Unicode that a careless decoder / line splitter treats differently ----------------------
# (1) text that is NOT in (some) Unicode normal form - it must come back code point for code point
UNI_NONNORMAL = [
    'e\u0301', 'A\u030a', 'q\u0307\u0323', '\u1e9b\u0323',                       # decomposed / non-canonical mark order
    '\u2126', '\u212b', '\u212a', '\u037e', '\u0387', '\u1f71', '\u0340', '\u0344', '\u0958',   # singletons, exclusions
    '\uf900', '\uf91d', '\ufa10', '\U0002f800',                                      # CJK compatibility ideographs
    '\u1112\u1161\u11ab', '\u1100\u1161', '\ud55c', '\uac01',                        # Hangul jamo / precomposed syllables
    '\ufb01', '\xb5', '\uff21', '\uff42\uff43', '\uff11', '\u2460', '\xbd', '\u2163', '\u01c4', '\u3392',
    '\xaa', '\xb2', '\u2122', '\u2026',                                              # compatibility characters
    '\xe9', '\xc5', '\u0178', '\u0160', '\u017e']                                    # precomposed (not NFD)
# (2) characters whose UTF-8 form holds a byte that is a line boundary / blank in Latin-1 (0x85 NEL, 0xA0 NBSP); the
# cp1252 byte 0x85 is U+2026 (above); a few whose UTF-16 form holds a 0x0A / 0x0D / 0x85 byte
UNI_BYTE85 = ['\u0105', '\u0445', '\xc5', '\u2005', '\u0145', '\u2045', '\u4e05', '\U0001f605', '\u0a85']
UNI_BYTEA0 = ['\u0420', '\xe0', '\xa0', '\u2020', '\u3060', '\u0820', '\U0001f4a0', '\u0120']
UNI_UTF16 = ['\u010a', '\u0d0a', '\u0a0a', '\u200a', '\u850a']
UNI_ALL = []
for _a in UNI_NONNORMAL + UNI_BYTE85 + UNI_BYTEA0 + UNI_UTF16:
    if _a not in UNI_ALL:
        UNI_ALL.append(_a)


def _encodable(a, enc):
    try:
        a.encode(enc)
        return True
    except UnicodeEncodeError:
        return False


UNI_PROFILES = ('any', 'any', 'any', 'latin1', 'cp1252')
UNI_BY_PROFILE = {'any': UNI_ALL,
                  'latin1': [a for a in UNI_ALL if _encodable(a, 'latin-1')],
                  'cp1252': [a for a in UNI_ALL if _encodable(a, 'cp1252')]}
NORMAL_FORMS = ('NFC', 'NFD', 'NFKC', 'NFKD')


def is_blank_atom(a):
    return any(ch.isspace() for ch in a)


def tame_edges(line):
    """GUARD: Unicode blanks other than space/tab stay strictly INSIDE the text of a line (see ASSUMPTIONS)."""
    body = line.strip(' \t')
    if not body or not (body[0].isspace() or body[-1].isspace()):
        return line
    at = line.index(body)
    fixed = ('x' if body[0].isspace() else '') + body + ('x' if body[-1].isspace() else '')
    return line[:at] + fixed + line[at + len(body):]


def gen_name(r, used):
    for _ in range(100):
        k = r.random()
        if k < 0.5:
            n = r.choice(REAL_NAMES)
        elif k < 0.65:
            n = r.choice(ODD_START_NAMES)
        else:
            n = ''.join(r.choice(NAME_CHARS) for _ in range(r.randint(1, 8)))
        if n[0] in '#-':
            n = r.choice('xA9_') + n
        low = n.lower()
        if low in used or low in STRUCTURED:
            continue
        used.add(low)
        return n
    n = 'F%d' % len(used)
    used.add(n.lower())
    return n


def gen_first(r, atoms=VAL_ATOMS):
    k = r.random()
    if k < 0.25:
        core_ = r.choice(FIRST_SPECIAL)
    elif k < 0.33:
        core_ = r.choice(':#') + ''.join(r.choice(atoms) for _ in range(r.randint(0, 5)))
    else:
        core_ = ''.join(r.choice(atoms) for _ in range(r.randint(0, 9)))
    return r.choice(PADS_L) + core_ + r.choice(PADS_R)


def gen_cont(r, atoms=VAL_ATOMS):
    k = r.random()
    if k < 0.35:
        body = r.choice(CONT_SPECIAL)
    elif k < 0.45:
        body = '#' + ''.join(r.choice(atoms) for _ in range(r.randint(0, 5)))
    else:
        body = ''
        while not body.strip(' \t'):
            body = ''.join(r.choice(atoms) for _ in range(r.randint(1, 9)))
    return r.choice(LEADS) + body + r.choice(TRAILS)


def gen_paragraph(r, atoms=VAL_ATOMS):
    used = set()
    para = []
    for _ in range(r.randint(1, 6)):
        name = gen_name(r, used)
        first = gen_first(r, atoms)
        conts = [gen_cont(r, atoms) for _ in range(r.choice([0, 0, 0, 1, 1, 2, 3, 5]))]
        para.append([name, first, conts])
    return para


# character profiles: the same generator, with the non-ASCII atoms mapped into what the 8-bit encodings can hold
PROFILES = ('any', 'any', 'latin1', 'latin1', 'cp1252', 'cp1252', 'ascii')
PROFILE_MAP = {
    'any': {},
    'latin1': {'\u6f22': '\xdf', '\u5b57': '\xf1', '\u20ac': '\xa3'},                 # ss, n-tilde, pound
    'cp1252': {'\u6f22': '\u0152', '\u5b57': '\u017e', '\xfc': '\u201c'},             # OE, z-caron, left double quote
    'ascii': {'\xe9': 'e', '\xfc': 'u', '\u6f22': 'K', '\u5b57': 'J', '\u20ac': 'E'},
}
PROFILE_TABLES = dict((k, str.maketrans(v)) for k, v in PROFILE_MAP.items())


def gen_doc(r):
    n = r.choice([1, 1, 1, 2, 2, 3, 4])
    doc = [gen_paragraph(r) for _ in range(n)]
    table = PROFILE_TABLES[r.choice(PROFILES)]
    return [[[name, first.translate(table), [c.translate(table) for c in conts]] for name, first, conts in para]
            for para in doc]


def grid_docs():
    """Small enumerated grid: every hostile first line x every hostile continuation set, one field."""
    firsts = ['', 'v', 'v ', ' v', '\tv\t', 'v \t', ':', ':v', '#', '#v', ' #v ', 'a: b', 'a:b ', '  ',
              '-----BEGIN PGP SIGNATURE-----', 'é ', 'x\t#y', '.']
    contsets = [[], [' x'], ['\tx'], [' x\t'], [' x '], ['  x'], [' #x'], [' # c', ' y'], ['\t#'], [' K: v'], [' K:'],
                [' .', ' x'], [' -----BEGIN PGP SIGNATURE-----'], [' -----END PGP SIGNATURE-----', ' x'],
                [' -----BEGIN PGP SIGNED MESSAGE-----', ' Hash: SHA256'], [' é\t'], [' a', ' b', ' c '], [' :']]
    i = 0
    for f in firsts:
        for cs in contsets:
            yield i, [[['Field', f, list(cs)]]]
            i += 1
            yield i, [[['Package', 'p', []], ['X-f', f, list(cs)], ['Last', 'z', []]]]
            i += 1
    # multi-paragraph: the hostile field last / first in its paragraph (paragraph boundary adjacency)
    for f in firsts[:8]:
        for cs in contsets[:10]:
            yield i, [[['A', '1', []], ['B', f, list(cs)]], [['C', f, list(cs)], ['D', '2', []]]]
            i += 1
    # every admissible FIRST character of a field name (all of 33..126 but ':', '#', '-'), alone and as a prefix:
    # as first field of the document, after a single-line field, after a multi-line value (last); values carry
    # latin-1-encodable non-ASCII text so that the 8-bit text-file forms see these documents too
    for c in NAME_CHARS:
        if c in '#-':
            continue
        yield i, [[[c, 'v\xe9', [' w']], ['Mid', '1', []], [c + 'n-' + c, '', ['\tz', ' y\xfc']], [c + '3', c, []]]]
        i += 1


def gen_uni_doc(r):
    """A random document whose values draw about every second atom from the "uni" lists.  -> (doc, profile)"""
    profile = r.choice(UNI_PROFILES)
    uni = UNI_BY_PROFILE[profile]
    atoms = VAL_ATOMS + uni * max(1, 40 // len(uni))
    table = PROFILE_TABLES['any' if profile == 'any' else profile]
    n = r.choice([1, 1, 1, 2, 2, 3, 4])
    doc = []
    for _ in range(n):
        para = gen_paragraph(r, atoms)
        # one more deliberate placement per paragraph: an atom as the LAST character of the last line of a field
        # (byte 0x85 / 0xA0 directly before the line end) or as the whole text of a continuation line
        field = para[r.randrange(len(para))]
        a = r.choice([x for x in uni if not is_blank_atom(x)])
        if field[2] and r.random() < 0.6:
            field[2][r.randrange(len(field[2]))] = r.choice(LEADS) + r.choice(['', 'ab', 'K: v ']) + a
        else:
            field[1] = r.choice(PADS_L) + r.choice(['', 'ab', 'x ']) + a + r.choice(PADS_R)
        doc.append([[nm, tame_edges(f.translate(table)), [tame_edges(c.translate(table)) for c in cs]]
                    for nm, f, cs in para])
    return doc, profile


UNI_SPOTS = ('start', 'mid', 'end', 'whole')


def uni_place(atom, spot):
    return {'start': atom + 'ab', 'mid': 'a' + atom + 'b', 'end': 'ab' + atom, 'whole': atom}[spot]


def uni_grid_docs():
    """Enumerated: every "uni" atom x {first line, continuation line} x {start, mid, end, whole line text} (blank atoms:
    mid only), six such fields per single-paragraph document (all four APIs and the armoured forms see them), grouped
    so that the atoms the 8-bit encodings can hold sit in documents those encodings can hold entirely; plus, per atom,
    a two-paragraph document with the atom last before / first after the paragraph boundary.
    Yields (index, doc, profile)."""
    groups = {'latin1': [], 'cp1252': [], 'any': []}
    for a in UNI_ALL:
        g = 'latin1' if _encodable(a, 'latin-1') else ('cp1252' if _encodable(a, 'cp1252') else 'any')
        spots = ('mid',) if is_blank_atom(a) else UNI_SPOTS
        for where in ('first', 'cont'):
            for spot in spots:
                groups[g].append((a, where, spot))
    i = 0
    for g in ('latin1', 'cp1252', 'any'):
        combos = groups[g]
        for at in range(0, len(combos), 6):
            para = [['Package', 'p', []]] if (at // 6) % 2 else []
            for k, (a, where, spot) in enumerate(combos[at:at + 6]):
                j = at + k
                text = uni_place(a, spot)
                if where == 'first':
                    first = PADS_L[j % len(PADS_L)] + text + PADS_R[(j // 2) % len(PADS_R)]
                    conts = [' z'] if j % 3 == 0 else []
                else:
                    line = LEADS[j % len(LEADS)] + text + TRAILS[(j // 3) % len(TRAILS)]
                    first = ('', 'v', '')[j % 3]
                    conts = ([line], [line, ' z'], [' y', line], ['\ty', line, ' z\t'])[(j // 2) % 4]
                para.append(['F%d' % k, first, conts])
            yield i, [para], g
            i += 1
    for n, a in enumerate(UNI_ALL):
        if is_blank_atom(a):
            continue
        g = 'latin1' if _encodable(a, 'latin-1') else ('cp1252' if _encodable(a, 'cp1252') else 'any')
        if n % 2:
            p1 = [['A', '1', []], ['B', 'ab' + a, []]]
        else:
            p1 = [['A', 'ab' + a, [' x', (' ', '\t')[n % 3 == 0] + 'cd' + a]]]
        p2 = [['C', a + 'ab', [' ' + a]], ['D', '2', []]]
        yield i, [p1, p2], g
        i += 1


# --- "big" class: LARGE content, kept in the case as compact seeded specs -------------------------------------------
# A compact document is a document in which
#   * a first line may be        {'line': [nbytes, seed, alpha, head]}
#   * a continuation item may be {'line': [nbytes, seed, alpha, head, lead]}  (ONE line: lead + head + text) or
#                                {'lines': {'seed', 'alpha', 'w': [lo, hi], 'n' | 'bytes'}}  (MANY lines)
#   * a field item may be        {'fields': [n, seed, alpha]}  (n small fields with distinct, unsorted names)
# expand_doc() turns it into a plain document (model side only; deterministic: random.Random(str) and nothing else).
BIG_SEPS = {'ascii': [' ', ' ', ' ', '  ', '\t', ':', ': ', ',', ', ', '#', ' #', '=', '-', '.', ' K: ', '/', '(', ')', ' -----']}
BIG_SEPS['latin1'] = BIG_SEPS['ascii'] + ['\xe9', ' \xfc', '\xdf ', '\xe9\xe8', ' \xa3 ']
BIG_SEPS['mixed'] = BIG_SEPS['ascii'] + ['\xe9', '漢', '\xfc ', ' €', '\xe9漢字', '\U0001f605', ' ą']
BIG_ALPHAS = ('ascii', 'latin1', 'mixed', 'mixed')
BIG_FILL = 'abcdefghijklmnopqrstuvwxyzABCXYZ0123456789_+~'
CONT_HEADS = ['', '', '', '', '#', '# ', 'K: ', ':', '.', '- ', '-----BEGIN PGP SIGNATURE-----', 'Package: ', '=']


def _big_text(rr, nbytes, alpha, tag='w'):
    """One line of exactly `nbytes` bytes of UTF-8: numbered tokens joined by hostile separators; no line break, no blank
    at either end."""
    if nbytes <= 0:
        return ''
    seps = BIG_SEPS[alpha]
    parts, size, i = [], 0, 0
    while True:
        piece = (rr.choice(seps) if parts else '') + '%s%d' % (tag, i)
        if rr.random() < 0.5:
            k = rr.randrange(len(BIG_FILL))
            piece += (BIG_FILL[k:] + BIG_FILL)[:rr.randint(1, 60)]
        b = len(piece) if piece.isascii() else len(piece.encode('utf-8'))
        if size + b > nbytes:
            if not parts and nbytes > len(tag):
                parts.append(('%s%d' % (tag, i))[:nbytes])          # (the id of a short line must not be padded away)
                size = len(parts[0])
            break
        parts.append(piece)
        size += b
        i += 1
    parts.append('x' * (nbytes - size))
    return ''.join(parts)


def big_line(spec):
    nbytes, seed, alpha = spec[0], spec[1], spec[2]
    head = spec[3] if len(spec) > 3 else ''
    lead = spec[4] if len(spec) > 4 else ''
    rr = random.Random('C02-bigline/%s' % seed)
    return lead + head + _big_text(rr, nbytes - len(lead) - len(head), alpha)


def big_lines(spec):
    """Continuation lines c0, c1, ... (lead blank/tab, hostile heads, trailing blanks); with 'bytes': sum(len(utf8)+1)
    over the lines is exactly that number."""
    rr = random.Random('C02-biglines/%s' % spec['seed'])
    alpha, (lo, hi) = spec['alpha'], spec['w']
    n, budget = spec.get('n'), spec.get('bytes')
    out, total, i = [], 0, 0
    while n is None or i < n:
        head = rr.choice(CONT_HEADS)
        tag = 'c%d.' % i
        line = rr.choice(LEADS) + head + _big_text(rr, max(len(tag) + 1, rr.randint(lo, hi) - len(head)), alpha, tag) \
            + rr.choice(TRAILS)
        cost = len(line.encode('utf-8')) + 1
        if budget is not None and total + cost > budget:
            rest = budget - total
            if rest >= 3:
                out.append(' ' + 'z' * (rest - 2))
            elif rest and out:
                out[-1] += 'x' * rest
            break
        out.append(line)
        total += cost
        i += 1
        if budget is not None and total == budget:
            break
    return out


def big_fields(spec):
    """n small fields with distinct names that are NOT in sorted order; the number in a name identifies the field."""
    n, seed, alpha = spec
    rr = random.Random('C02-bigfields/%s' % seed)
    nums = list(range(n))
    rr.shuffle(nums)
    seps = BIG_SEPS[alpha]
    out = []
    for num in nums:
        name = rr.choice(['G', 'g', 'X-G', 'Zz', 'a', '_', '0x', '+', 'Field']) + '.%d.' % num + rr.choice(['', '', 'x', '-Y', '_z', '!'])
        first = rr.choice(PADS_L) + rr.choice(['v%d' % num, 'v%d' % num, '', ':%d' % num, '#%d' % num, 'a%sb %d' % (rr.choice(seps), num)]) \
            + rr.choice(PADS_R)
        conts = []
        if rr.random() < 0.15:
            conts = [rr.choice(LEADS) + rr.choice(CONT_HEADS) + 'c%d.%d' % (num, k) + rr.choice(seps).rstrip(' \t') + 'q' + rr.choice(TRAILS)
                     for k in range(rr.randint(1, 3))]
        out.append([name, first, conts])
    return out


def expand_doc(doc):
    """compact document -> plain document [[name, first, [continuation lines]]...] (plain documents pass through)."""
    out = []
    for para in doc:
        p = []
        for item in para:
            if isinstance(item, dict):
                p.extend(big_fields(item['fields']))
                continue
            name, first, conts = item
            if isinstance(first, dict):
                first = big_line(first['line'])
            cs = []
            for c in conts:
                if isinstance(c, dict):
                    if 'line' in c:
                        cs.append(big_line(c['line']))
                    else:
                        cs.extend(big_lines(c['lines']))
                else:
                    cs.append(c)
            p.append([name, first, cs])
        out.append(p)
    return out


def is_compact(doc):
    return any(isinstance(item, dict) or isinstance(item[1], dict) or any(isinstance(c, dict) for c in item[2])
               for para in doc for item in para)


def big_entry(name, size, shape, seed, alpha):
    """A field [name, first, conts] (compact) whose dumped entry - 'Name: first\\n cont\\n...' in the documented dump format -
    is exactly `size` bytes (name is ASCII)."""
    rr = random.Random('C02-bigentry/%s' % seed)
    if shape == 'line':
        return [name, {'line': [size - len(name) - 3, seed, alpha, rr.choice(['', '', ':', '#', 'a: '])]}, []]
    if shape == 'lines':
        # empty first line: 'Name:' + ('\n' + line)* + '\n'
        return [name, '', [{'lines': {'seed': seed, 'alpha': alpha, 'w': [2, 60], 'bytes': size - len(name) - 2}}]]
    first = rr.choice(['v1', 'a b', ':x', 'x'])
    rest = size - len(name) - 1 - (1 + len(first)) - 1          # bytes left for ('\n'-terminated) continuation lines
    if shape == 'first+lines':
        return [name, first, [{'lines': {'seed': seed, 'alpha': alpha, 'w': [60, 400], 'bytes': rest}}]]
    c1, c2 = rr.choice([' a', '\tK: v', ' #c']), rr.choice([' z', ' .', '\tz\t'])
    if rr.random() < 0.5:
        return [name, first, [c1, {'line': [rest - len(c1) - 1 - 1, seed, alpha, rr.choice(['', '#', 'K: ']), rr.choice(' \t')]}]]
    return [name, first, [c1, {'line': [rest - len(c1) - 1 - len(c2) - 1 - 1, seed, alpha, rr.choice(['', '#', 'K: ']),
                                        rr.choice(' \t')]}, c2]]


def small_fields(r, used, n):
    out = []
    for _ in range(n):
        name = gen_name(r, used)
        out.append([name, gen_first(r), [gen_cont(r) for _ in range(r.choice([0, 0, 0, 1, 2]))]])
    return out


def place_fields(r, big, place):
    """`big` (a list of field items) alone / first / between / last among small hostile fields."""
    used = set(['big', 'big2'])
    if place == 'alone':
        return list(big)
    if place == 'first':
        return list(big) + small_fields(r, used, r.randint(1, 4))
    if place == 'last':
        return small_fields(r, used, r.randint(1, 4)) + list(big)
    return small_fields(r, used, r.randint(1, 3)) + list(big) + small_fields(r, used, r.randint(1, 3))


def big_grid_docs(seed):
    """Enumerated: every threshold size x placement x two of the four shapes (all four over the placements), + the extremes
    (100k-character lines, 200 / 600 fields, 1000 / 5000 continuation lines).  Yields (index, compact doc, class)."""
    i = 0
    for si, size in enumerate(BIG_SIZES):
        for pi, place in enumerate(BIG_PLACES):
            for k in (0, 1):
                r = random.Random('C02-biggrid/%d/%d' % (seed, i))
                shape = BIG_SHAPES[(si + pi + 2 * k) % 4]
                alpha = BIG_ALPHAS[(i + seed) % len(BIG_ALPHAS)]
                entry = big_entry('Big', size, shape, 'g%d.%d' % (seed, i), alpha)
                yield i, [place_fields(r, [entry], place)], 'threshold'
                i += 1
    for k, (cls, item) in enumerate([
            ('long-line', ['Big', {'line': [100000, 'gl1.%d' % seed, 'ascii', '']}, []]),
            ('long-line', ['Big', 'v', [' a', {'line': [130000, 'gl2.%d' % seed, 'mixed', '', '\t']}, ' z']]),
            ('many-fields', {'fields': [200, 'gf1.%d' % seed, 'mixed']}),
            ('many-fields', {'fields': [600, 'gf2.%d' % seed, 'ascii']}),
            ('many-conts', ['Big', '', [{'lines': {'seed': 'gc1.%d' % seed, 'alpha': 'mixed', 'w': [2, 30], 'n': 1000}}]]),
            ('many-conts', ['Big', 'v', [{'lines': {'seed': 'gc2.%d' % seed, 'alpha': 'ascii', 'w': [2, 12], 'n': 5000}}]])]):
        r = random.Random('C02-biggrid/%d/%d' % (seed, i))
        yield i, [place_fields(r, [item], BIG_PLACES[(k + seed) % 4])], cls
        i += 1


def gen_big_doc(r, quick):
    """A random "big" document.  -> (compact doc, class)"""
    seed = '%08x' % r.getrandbits(32)
    alpha = r.choice(BIG_ALPHAS)
    k = r.random()
    if k < 0.50:
        cls = 'threshold'
        j = r.random()
        if j < 0.35:
            size = r.choice(BIG_SIZES[:5])
        elif j < 0.40:
            size = 65536 + r.choice([-1, 0, 1])
        elif j < 0.70:
            size = 8192 * r.randint(1, 3) + r.choice([-2, -1, 0, 1, 2])
        else:
            size = r.randint(3000, 20000)
        big = [big_entry('Big', size, r.choice(BIG_SHAPES), seed, alpha)]
        if r.random() < 0.2:
            big.append(big_entry('Big2', r.choice([4096, 8192, 8193, r.randint(3000, 12000)]), r.choice(BIG_SHAPES), seed + 'b', alpha))
    elif k < 0.67:
        cls = 'many-fields'
        big = [{'fields': [r.randint(200, 320) if quick or r.random() < 0.8 else r.randint(320, 1200), seed, alpha]}]
    elif k < 0.85:
        cls = 'long-line'
        n = r.randint(11000, 30000) if r.random() < (0.85 if quick else 0.7) else r.randint(60000, 140000)
        if r.random() < 0.5:
            big = [['Big', {'line': [n, seed, alpha, r.choice(['', '', ':', '#'])]}, [gen_cont(r) for _ in range(r.choice([0, 0, 1, 2]))]]]
        else:
            big = [['Big', gen_first(r), [gen_cont(r) for _ in range(r.choice([0, 1, 2]))]
                    + [{'line': [n, seed, alpha, r.choice(['', '', '#', 'K: ']), r.choice(' \t')]}]
                    + [gen_cont(r) for _ in range(r.choice([0, 0, 1, 2]))]]]
    else:
        cls = 'many-conts'
        n = r.randint(1000, 1800) if quick or r.random() < 0.7 else r.randint(1800, 6000)
        big = [['Big', r.choice(['', '', 'v', gen_first(r)]), [{'lines': {'seed': seed, 'alpha': alpha, 'w': [2, r.choice([8, 30, 80])], 'n': n}}]]]
    para = place_fields(r, big, r.choice(BIG_PLACES))
    table = PROFILE_TABLES['ascii' if alpha == 'ascii' else ('latin1' if alpha == 'latin1' else 'any')]
    doc = [para]
    if r.random() < 0.35:
        # multi-paragraph: small paragraphs before / after the big one
        doc = [gen_paragraph(r) for _ in range(r.choice([0, 1, 1, 2]))] + doc + [gen_paragraph(r) for _ in range(r.choice([0, 1, 1]))]
    out = []
    for p in doc:
        q = []
        for item in p:
            if isinstance(item, dict):
                q.append(item)
            else:
                q.append([item[0], item[1].translate(table) if isinstance(item[1], str) else item[1],
                          [c.translate(table) if isinstance(c, str) else c for c in item[2]]])
        out.append(q)
    return out, cls


# --- "asm" class: generators (constants: see ASM_ROUTES above) ------------------------------------------------------------


def gen_asm_doc(r, i):
    """A random document of 2..5 paragraphs; every fourth draws "uni" atoms."""
    n = r.choice([2, 2, 2, 3, 3, 4, 5])
    if i % 4 == 3:
        profile = r.choice(UNI_PROFILES)
        uni = UNI_BY_PROFILE[profile]
        atoms = VAL_ATOMS + uni * max(1, 40 // len(uni))
        table = PROFILE_TABLES['any' if profile == 'any' else profile]
        return [[[nm, tame_edges(f.translate(table)), [tame_edges(c.translate(table)) for c in cs]]
                 for nm, f, cs in gen_paragraph(r, atoms)] for _ in range(n)]
    table = PROFILE_TABLES[r.choice(PROFILES)]
    return [[[nm, f.translate(table), [c.translate(table) for c in cs]] for nm, f, cs in gen_paragraph(r)] for _ in range(n)]


def asm_grid_docs(seed):
    """Enumerated: what decides whether 'paragraph text + separator newline' gives a blank line is the END of the paragraph
    text, i.e. the LAST field of a paragraph - every shape of last field x every shape of the first field of the NEXT paragraph x
    2..5 paragraphs; + a last field whose dumped entry is exactly 4096 / 8191 / 8192 / 8193 bytes (a writer that buffers).
    Yields (index, doc)."""
    lasts = [['L', 'v', []], ['L', '', []], ['L', 'v \t', []], ['L', ' ', []], ['L', '', [' x']], ['L', 'v', [' x\t']],
             ['L', 'v', ['\tx', ' y ']], ['L', ':', []], ['L', '#', []], ['L', 'x\xe9', []], ['L', 'v', [' 漢']],
             ['L', '', [' .', ' #c', ' K: v']], ['L', '-----BEGIN PGP SIGNATURE-----', []], ['L', 'v', [' -----END PGP SIGNATURE-----']]]
    nexts = [['N', '1', []], ['N', '', ['\tc']], ['0n', ':', []], ['N', '#x', [' y']]]
    i = 0
    for li, last in enumerate(lasts):
        for ni, nxt in enumerate(nexts):
            n = 2 + (li + ni + seed) % 4
            doc = []
            for k in range(n):
                para = []
                if not k or (k + ni) % 3:
                    para.append([nxt[0] + str(k), nxt[1], list(nxt[2])])
                if (li + k) % 2:
                    para.append(['Mid%d' % k, 'm', [' z']] if k % 2 else ['Mid%d' % k, 'm', []])
                para.append([last[0] + str(k), last[1], list(last[2])])
                doc.append(para)
            yield i, doc
            i += 1
    for si, size in enumerate((4096, 8191, 8192, 8193)):
        for k in (0, 1):
            shape = BIG_SHAPES[(si + 2 * k + seed) % 4]
            alpha = BIG_ALPHAS[(si + k + seed) % len(BIG_ALPHAS)]
            entry = big_entry('Big', size, shape, 'a%d.%d.%d' % (seed, si, k), alpha)
            first = [['A', '1', []], entry] if k else [entry]
            yield i, [first, [['C', 'v', [' w']]], [['E', '', []], big_entry('Big', size, BIG_SHAPES[(si + k + 1) % 4],
                                                                            'b%d.%d.%d' % (seed, si, k), alpha)]]
            i += 1


def last_field_shape(para):
    _, first, conts = para[-1]
    if conts:
        return 'multi-line-trailing-blank' if conts[-1].rstrip(' \t') != conts[-1] else 'multi-line'
    if not first.strip(' \t'):
        return 'empty-value'
    return 'single-line-trailing-blank' if first.rstrip(' \t') != first else 'single-line'


# --- "mv" class: generators ------------------------------------------------------------------------------------------------
MV_TEXT_NAMES = ['Format', 'Source', 'Binary', 'Architecture', 'Version', 'Maintainer', 'Uploaders', 'Homepage', 'Standards-Version',
                 'Vcs-Browser', 'Build-Depends', 'Package-List', 'Description', 'Changes', 'Distribution', 'Urgency', 'Date', 'Closes',
                 'Changed-By', 'Testsuite', 'X-Comment']
MV_LONG_NAMES = ('Package-List', 'Description', 'Changes', 'Build-Depends', 'X-Comment')
MV_HOSTILE = ['-', ':', 'K:', '#x', 'a=b', '-----BEGIN', '\xe9.deb', 'x:y', '.', '1:2.0-1', '漢_1.dsc', '(x)', '[a]', '{}', '-----',
              'Files:', '=abcd', '~', '\\', '"q"']
MV_SECTIONS = ('utils', 'non-free/libs', '-', 'devel', 'contrib/x11', 'debug', 'libs')
MV_PRIORITIES = ('optional', '-', 'extra', 'required', 'important')
MV_STEMS = ('pkg', 'libfoo', 'x', 'a-b+c', '\xe9', 'foo~rc1', 'z.z')
MV_EXTS = ('.dsc', '.orig.tar.gz', '.debian.tar.xz', '_amd64.deb', '_all.deb', '_source.buildinfo', '_amd64.changes', '', '.tar.gz.asc')


def mv_tokens(r, lname, ntok, i):
    """The tokens of item number `i` (the number is part of the file name: loss, duplication, reordering are unambiguous)."""
    dig = MV_DIGEST[lname]
    digest = '%0*x' % (dig, r.getrandbits(4 * dig)) if r.random() < 0.7 else '%x' % r.getrandbits(r.choice([8, 16, 60]))
    toks = [digest, str(r.randrange(10 ** r.randint(1, 10)))]
    if ntok >= 5:
        toks += [r.choice(MV_SECTIONS), r.choice(MV_PRIORITIES)]
    toks.append('%s_%d.%d-%d%s' % (r.choice(MV_STEMS), i, r.randint(0, 99), r.randint(1, 9), r.choice(MV_EXTS)))
    del toks[ntok:]
    while len(toks) < ntok:
        toks.insert(2, 't%d' % len(toks))
    if r.random() < 0.12:
        k = r.randrange(len(toks))
        toks[k] = r.choice(MV_HOSTILE) + (str(i) if k == len(toks) - 1 else '')
    return toks


def mv_join(r, toks):
    if r.random() < 0.5:
        return ' '.join(toks)
    return ''.join((r.choice(MV_SEPS) if k else '') + t for k, t in enumerate(toks))


def gen_mv_field(r, lname, ntok, layout=None, n=None):
    """One structured field [name, first, conts] in the given LAYOUT (see MV_LAYOUTS)."""
    if layout is None:
        layout = r.choice(MV_LAYOUTS[:1] * 3 + MV_LAYOUTS)
    if n is None:
        n = 1 if layout.startswith('single') else r.choice([2, 2, 3, 3, 4, 5])
    items = [mv_join(r, mv_tokens(r, lname, ntok, i)) for i in range(n)]
    name = r.choice(MV_SPELLINGS[lname])
    if layout.startswith('cont') or layout.startswith('single-cont'):
        first = r.choice([' ', '\t', '  ', ' \t']) if layout.endswith('blank-on-field-line') else ''
        return [name, first, [r.choice(LEADS) + it + r.choice(TRAILS) for it in items]]
    trail = r.choice([' ', '\t', '  ', ' \t ']) if layout.endswith('trailing-blank') else ''
    return [name, r.choice(PADS_L) + items[0] + trail, [r.choice(LEADS) + it + r.choice(TRAILS) for it in items[1:]]]


def gen_mv_paragraph(r, armor_p=0.5):
    used = set()
    para = []
    names = r.sample(MV_TEXT_NAMES, r.randint(1, 5))
    for name in names:
        used.add(name.lower())
        nc = r.choice([0, 1, 2, 3, 5]) if name in MV_LONG_NAMES else r.choice([0, 0, 0, 0, 1])
        para.append([name, gen_first(r), [gen_cont(r) for _ in range(nc)]])
    if r.random() < armor_p:
        # ordinary text fields that MENTION armour words inside their lines
        for _ in range(r.choice([1, 1, 2])):
            f = para[r.randrange(len(para))]
            k = r.random()
            if k < 0.4:
                f[1] = r.choice(PADS_L) + r.choice(ARMOR_FIRST) + r.choice(PADS_R)
            else:
                f[2].insert(r.randint(0, len(f[2])), r.choice(ARMOR_CONT))
                if k > 0.8:
                    f[2].insert(r.randint(0, len(f[2])), r.choice(ARMOR_CONT))
    fields = r.sample(['files', 'checksums-sha1', 'checksums-sha256', 'checksums-sha512'], r.choice([1, 1, 2, 2, 3]))
    for lname in fields:
        ntok = r.choice([3, 5, 5]) if lname == 'files' else 3
        para.insert(r.randint(0, len(para)), gen_mv_field(r, lname, ntok))
    return para


def gen_mv_doc(r):
    n = r.choice([1, 1, 1, 1, 1, 2, 2, 3])
    table = PROFILE_TABLES[r.choice(PROFILES)]
    return [[[nm, f.translate(table), [c.translate(table) for c in cs]] for nm, f, cs in gen_mv_paragraph(r)] for _ in range(n)]


def mv_grid_docs(seed, wide):
    """Enumerated: every LAYOUT x every structured field (Files with 3 and with 5 tokens, Checksums-Sha1/256/512) x the place of the
    field in its paragraph (first / between / last; quick: one place per combination, rotating) as single-paragraph documents, +
    two-paragraph documents (every layout, the structured field last in the first and first in the second paragraph).
    Yields (index, doc)."""
    i = 0
    for li, layout in enumerate(MV_LAYOUTS):
        for fi, (lname, ntok) in enumerate(MV_FIELDS):
            for place in ((0, 1, 2) if wide else ((li + fi + seed) % 3,)):
                r = random.Random('C02-mvgrid/%d/%d' % (seed, i))
                field = gen_mv_field(r, lname, ntok, layout)
                other = gen_mv_field(r, MV_FIELDS[(fi + 2) % 5][0], MV_FIELDS[(fi + 2) % 5][1]) if MV_FIELDS[(fi + 2) % 5][0] != lname else None
                before = [['Source', 'src', []], ['Changes', '', [' .', ' * x']]]
                after = [['Version', '1.0-1', []]] + ([other] if other else [])
                para = ([field] + before + after, before + [field] + after, before + after + [field])[place]
                yield i, [para]
                i += 1
    for li, layout in enumerate(MV_LAYOUTS):
        r = random.Random('C02-mvgrid2/%d/%d' % (seed, li))
        (l1, n1), (l2, n2) = MV_FIELDS[(li + seed) % 5], MV_FIELDS[(li + seed + 1) % 5]
        yield i, [[['Source', 'a', []], gen_mv_field(r, l1, n1, layout)],
                  [gen_mv_field(r, l2, n2, layout), ['Source', 'b', [' c']]],
                  [['Format', '1.8', []], gen_mv_field(r, l1, n1, MV_LAYOUTS[(li + 3) % 8]), gen_mv_field(r, l2, n2, MV_LAYOUTS[(li + 5) % 8])]][:2 + li % 2]
        i += 1


def armor_grid_docs(seed):
    """Enumerated: every armour-word mention as (part of) a first line and as a continuation line of an ordinary text field -
    first / between / last in its paragraph, next to a structured field - single-paragraph documents (all APIs, plain and
    clearsigned) + two-paragraph documents with the mention last before / first after the paragraph boundary.  Yields (index, doc)."""
    i = 0
    n = max(len(ARMOR_FIRST), len(ARMOR_CONT))
    for k in range(n):
        f = ARMOR_FIRST[k % len(ARMOR_FIRST)]
        c1, c2 = ARMOR_CONT[k % len(ARMOR_CONT)], ARMOR_CONT[(k + 5) % len(ARMOR_CONT)]
        r = random.Random('C02-armorgrid/%d/%d' % (seed, k))
        files = gen_mv_field(r, 'files', (3, 5)[k % 2], MV_LAYOUTS[k % 8])
        a = ['Changes', f, [c1, ' z']] if k % 3 else ['Changes', f, []]
        b = ['Description', ('d', '')[k % 2], [' y', c2] if k % 4 else [c2]]
        para = [[a, ['Source', 's', []], b, files], [['Source', 's', []], a, files, b], [files, b, ['Mid', 'm', []], a]][k % 3]
        yield i, [para]
        i += 1
    for k in range(0, n, 2):
        f, c = ARMOR_FIRST[k % len(ARMOR_FIRST)], ARMOR_CONT[k % len(ARMOR_CONT)]
        yield i, [[['A', '1', []], ['Changes', 'x', [c]]], [['Description', f, []], ['B', '2', []]]]
        i += 1


def mv_layout(first, conts):
    """The layout class of a structured field, from the model."""
    if not first.strip(' \t'):
        return ('cont' if len(conts) > 1 else 'single-cont') + ('-blank-on-field-line' if first else '')
    return ('mixed' if conts else 'single') + ('-trailing-blank' if first.rstrip(' \t') != first else '')


def item_tokens(line):
    """The whitespace-separated tokens of one item line (blank and tab are the only blanks of the domain)."""
    return [t for t in line.replace('\t', ' ').split(' ') if t]


def mv_items(first, conts):
    """The list of item lines a structured field was written with: one token list per non-blank line, field line included."""
    return [item_tokens(l) for l in [first] + list(conts) if l.strip(' \t')]


def armor_mentions(first, conts):
    """Where the lines of a text value mention an armour marker: set of ARMOR_POSITIONS."""
    out = set()
    for where, line in [('first', first)] + [('cont', c) for c in conts]:
        if '-----' not in line:
            continue
        t = line.strip(' \t')
        ms = list(ARMOR_MARK.finditer(t))
        if not ms:
            continue
        if ms[0].start() == 0:
            pos = 'whole' if ms[0].end() == len(t) else 'start'
        else:
            pos = 'end' if ms[-1].end() == len(t) else 'mid'
        out.add('%s-%s' % (where, pos))
    return out


# ---------------------------------------------------------------------------
# model side helpers

def model_value(first, conts):
    return first.strip(' \t') + ''.join('\n' + c for c in conts)


def in_domain(doc, mv=False):
    """Defensive: a (replayed / shrunk) case outside the stated domain is not judged.  `mv`: the structured field names of Dsc /
    Changes are admitted, with item-shaped values (see ASSUMPTIONS)."""
    bad_ctl = set('\r\x0b\x0c\x1c\x1d\x1e\x85\u2028\u2029\n')
    for para in doc:
        seen = set()
        if not para:
            return False
        for name, first, conts in para:
            if not name or name[0] in '#-' or name.lower() in seen:
                return False
            if name.lower() in STRUCTURED:
                if not mv:
                    return False
                # GUARD: at least one item; blank and tab are the only blanks (what str.split() and "whitespace-separated"
                # agree on); an item on the field line has a non-blank first character anyway
                if not mv_items(first, conts) or any(ch.isspace() and ch not in ' \t' for l in [first] + list(conts) for ch in l):
                    return False
            if any(not (33 <= ord(c) <= 126) or c == ':' for c in name):
                return False
            seen.add(name.lower())
            if set(first) & bad_ctl:
                return False
            t = first.strip(' \t')
            if t and (t[0].isspace() or t[-1].isspace()):
                return False
            for c in conts:
                if set(c) & bad_ctl or not c or c[0] not in ' \t' or not c.strip():
                    return False
                b = c.strip(' \t')
                if b[0].isspace() or b[-1].isspace():
                    return False      # GUARD: Unicode blanks only strictly inside the text of a line
    return bool(doc)


def features(ctx, doc):
    nontriv = len(doc) >= 2
    for para in doc:
        for name, first, conts in para:
            t = first.strip(' \t')
            if name[0].isdigit():
                ctx.count('feat:name-starts-digit')
            elif not name[0].isalpha():
                ctx.count('feat:name-starts-punct')
            if first.rstrip(' \t') != first:
                ctx.count('feat:first-trailing-blank')
            if t.startswith(':'):
                ctx.count('feat:first-starts-colon')
                nontriv = True
            if t.startswith('#'):
                ctx.count('feat:first-starts-hash')
                nontriv = True
            if not t:
                ctx.count('feat:first-empty')
            if conts:
                nontriv = True
                ctx.count('feat:multi-line-value')
            for c in conts:
                b = c.strip(' \t')
                if b.startswith('#'):
                    ctx.count('feat:cont-starts-hash')
                if c.rstrip(' \t') != c:
                    ctx.count('feat:cont-trailing-blank')
                if ':' in b and not b.startswith(':'):
                    ctx.count('feat:cont-keyvalue-shaped')
                if b.startswith('-----'):
                    ctx.count('feat:cont-marker-lookalike')
            if any(ord(ch) > 127 for ch in first + ''.join(conts)):
                ctx.count('feat:nonascii')
    return nontriv


def uni_classes(doc):
    """Which "uni" classes the VALUES of a document belong to - decided from the document itself.
    -> (list of class tags, set of characters of the values)"""
    text = '\n'.join(first + ''.join('\n' + c for c in conts) for para in doc for _, first, conts in para)
    tags = []
    if text.isascii():
        return tags, set()
    nfc = unicodedata.normalize('NFC', text)
    if nfc != text:
        tags.append('not-nfc')
    if unicodedata.normalize('NFD', text) != text:
        tags.append('not-nfd')
    if unicodedata.normalize('NFKC', text) != nfc:
        tags.append('compat')
    u8 = text.encode('utf-8')
    if 0x85 in u8:
        tags.append('byte85')
    if 0xa0 in u8:
        tags.append('byteA0')
    return tags, set(text) - set('\n')


def file_byte_tags(chars, enc):
    """Look-alike bytes in the ENCODED form of the value characters, for a text file with a declared encoding."""
    fam = enc_family(enc)
    tags = []
    if fam == '8bit':
        bs = set()
        for ch in chars:
            bs.update(ch.encode(enc, 'ignore'))   # (a library that altered the text may make other text encodable)
        if 0x85 in bs:
            tags.append('8bit:85')
        if 0xa0 in bs:
            tags.append('8bit:A0')
    elif fam == 'utf-16':
        for ch in chars:
            if set(ch.encode('utf-16-le')) & LOOKALIKE_UTF16:
                tags.append('utf-16:0A-0D-85')
                break
    return tags


LOOKALIKE_UTF16 = frozenset([0x0a, 0x0d, 0x85])


def form_name(cont):
    return '%s:%s' % (cont[:2], enc_family(cont[3:])) if is_encfile(cont) else cont


def uni_features(ctx, doc, tags):
    for t in tags:
        ctx.count('feat:uni-%s' % t)
    for para in doc:
        for _, first, conts in para:
            for where, line in [('first', first.strip(' \t'))] + [('cont', c.strip(' \t')) for c in conts]:
                if not line or line.isascii():
                    continue
                last = line[-1].encode('utf-8')[-1]
                if last == 0x85 or last == 0xa0:
                    ctx.count('feat:uni-%s-line-ends-in-byte-%02X' % (where, last))
                if any(ch.isspace() and ch not in ' \t' for ch in line):
                    ctx.count('feat:uni-%s-line-inner-unicode-blank' % where)
                if unicodedata.normalize('NFC', line) != line:
                    ctx.count('feat:uni-%s-line-not-nfc' % where)


def uni_comments(r, profile):
    """Comment lines carrying "uni" atoms (comment lines are ignored whatever they contain)."""
    uni = UNI_BY_PROFILE[profile]
    out = []
    for _ in range(6):
        a, b = r.choice(uni), r.choice(uni)
        out.append(r.choice(['# ' + a, '#' + a, '# x' + a + ' ' + b, '#\t' + a + b, '# K: ' + a, '#' + a + '\t']))
    return out


def armour_params(r):
    return {'t1': r.choice(MARK_TRAILS), 't2': r.choice(MARK_TRAILS), 't3': r.choice(MARK_TRAILS),
            'hdr': r.choice([['Hash: SHA256'], ['Hash: SHA256'], ['Hash: SHA512'], [], ['Hash: SHA1', 'Hash: SHA256']]),
            'gap1': r.choice([1, 1, 1, 2]), 'gap2': r.choice([0, 1, 1, 2]),
            'sighdr': r.choice([[''], [''], ['Version: GnuPG v1', ''], []])}


def armour(lines, a):
    out = ['-----BEGIN PGP SIGNED MESSAGE-----' + a['t1']]
    out += a['hdr']
    out += [''] * a['gap1']
    out += lines
    out += [''] * a['gap2']
    out += ['-----BEGIN PGP SIGNATURE-----' + a['t2']]
    out += a['sighdr']
    out += ['iQEzBAEBCAAdFiEEq0Hx1fz9dJkZ0cyKVtoBqIsYAAAFAmLxyz0ACgkQVtoBqIsY', 'AAAB/wf+N9yqkdj3uXTpkM1a=', '=abcd']
    out += ['-----END PGP SIGNATURE-----' + a['t3']]
    return out


def with_comments(lines, r, pool=COMMENTS):
    out = []
    n = 0
    for l in lines:
        while r.random() < 0.22:
            out.append(r.choice(pool))
            n += 1
        out.append(l)
    while r.random() < 0.3:
        out.append(r.choice(pool))
        n += 1
    if not n:
        out.insert(r.randint(0, len(out)), r.choice(pool))
    return out


def container(kind, lines, final_nl):
    text = '\n'.join(lines) + ('\n' if final_nl else '')
    if kind == 'str':
        return text
    if kind == 'bytes':
        return text.encode('utf-8')
    if kind == 'lines_nl':
        return [l + '\n' for l in lines[:-1]] + [lines[-1] + ('\n' if final_nl else '')]
    if kind == 'lines_nonl':
        return list(lines)
    if kind == 'textio':
        return io.StringIO(text)
    if kind == 'bytesio':
        return io.BytesIO(text.encode('utf-8'))
    raise ValueError(kind)


def observe(obj):
    out = []
    for k in obj:
        v = obj[k]
        out.append([k, v if type(v) is str else exposed_items(v)])
    return out


def exposed_items(v):
    """What a class exposes for a structured field, normalised to the LIST OF ITEMS (each item = the list of its tokens): a list
    of record mappings (several item lines) and a single record mapping (one item on the field line) are both admitted.  Anything
    else (and any str subclass) is handed on as it is."""
    if isinstance(v, str):
        return v
    if hasattr(v, 'keys'):
        return {'items': [[v[k] for k in v]], 'shape': 'mapping'}
    if isinstance(v, (list, tuple)) and all(hasattr(rec, 'keys') for rec in v):
        return {'items': [[rec[k] for k in rec] for rec in v], 'shape': 'list'}
    return {'other': '%a' % (v,)}


def diff(expected, got):
    """None when equal, else (kind, message).  expected/got: list of paragraphs of [name, value]."""
    if len(expected) != len(got):
        return ('paragraph-count-differs', 'expected %d paragraphs, got %d: %r' % (len(expected), len(got), got))
    for pi, (ep, gp) in enumerate(zip(expected, got)):
        en, gn = [k for k, _ in ep], [k for k, _ in gp]
        if en != gn:
            if sorted(en) == sorted(gn):
                kind = 'field-order-differs'
            elif set(en) - set(gn) and not set(gn) - set(en):
                kind = 'field-lost'
            elif set(gn) - set(en) and not set(en) - set(gn):
                kind = 'field-invented'
            else:
                kind = 'field-names-differ'
            return (kind, 'paragraph %d: expected names %r, got %r' % (pi, en, gn))
        for (k, ev), (_, gv) in zip(ep, gp):
            if ev == gv:
                continue
            if isinstance(ev, dict):
                res = diff_items(ev, gv)
                if res is None:
                    continue
                return (res[0], 'paragraph %d structured field %r: %s' % (pi, k, res[1]))
            if not isinstance(gv, str):
                return ('value-not-a-string', 'paragraph %d field %r: got %r' % (pi, k, gv))
            el, gl = ev.split('\n'), gv.split('\n')
            if el[0] != gl[0]:
                if gl[0].strip(' \t') == el[0]:
                    kind = 'first-line-not-trimmed'
                else:
                    kind = 'first-line-altered'
            elif len(gl) < len(el):
                kind = 'continuation-line-lost'
            elif len(gl) > len(el):
                kind = 'continuation-line-invented'
            else:
                kind = 'continuation-line-altered'
            # ascii(): values that differ only in code points (normalisation) print alike otherwise
            return (kind, 'paragraph %d field %r: expected %s' % (pi, k, show_pair(ev, gv)))
    return None


def diff_items(ev, gv):
    """Structured field: ev = {'want': items cut to the columns of the class, 'full': items as written}; gv = what observe() made
    of the exposed value.  A class that exposes the field as TEXT is compared on the full token lists of its non-blank lines."""
    if isinstance(gv, str):
        got, want = [item_tokens(l) for l in gv.split('\n') if l.strip(' \t')], ev['full']
    elif isinstance(gv, dict) and 'items' in gv:
        got, want = gv['items'], ev['want']
    else:
        return ('structured-value-not-records', 'written as items %a, exposed as %s' % (ev['full'], gv.get('other') if isinstance(gv, dict) else gv))
    if got == want:
        return None
    if len(got) < len(want):
        kind = 'structured-item-lost'
        if got == want[1:] and ev.get('first_on_field_line'):
            kind = 'structured-item-on-the-field-line-lost'
    elif len(got) > len(want):
        kind = 'structured-item-invented'
    else:
        kind = 'structured-item-altered'
    return (kind, 'expected the %d items %a, got the %d items %a' % (len(want), want, len(got), got))


def show_pair(ev, gv, limit=400):
    """'<expected>, got <got>'; long values are shown around the first difference only."""
    if len(ev) <= limit and len(gv) <= limit:
        return '%a, got %a' % (ev, gv)
    at = 0
    n = min(len(ev), len(gv))
    while at < n and ev[at] == gv[at]:
        at += 1
    lo = max(0, at - 60)
    return '%d characters / %d lines, got %d characters / %d lines; first difference at character %d: expected ...%a..., got ...%a...' % (
        len(ev), ev.count('\n') + 1, len(gv), gv.count('\n') + 1, at, ev[lo:at + 100], gv[lo:at + 100])


def show_lines(lines, limit=3000):
    """The input lines for a message; a big input is abbreviated."""
    if sum(len(l) for l in lines) <= limit and len(lines) <= 200:
        return '%a' % (lines,)
    head = [l if len(l) <= 160 else l[:120] + '...(%d characters)' % len(l) for l in lines[:6]]
    return '%a ... (%d lines, %d characters in all)' % (head, len(lines), sum(len(l) + 1 for l in lines))


class RouteFailure(Exception):
    def __init__(self, kind, msg):
        Exception.__init__(self, kind, msg)
        self.kind, self.msg = kind, msg


def route_text(route, d, tmp, rr):
    """The text paragraph object `d` produces through output route `route` (see ROUTES).  Real files are created
    afresh (unlink first: no O_TRUNC on a file holding data), get a pad of comment bytes written by the harness BEFORE the
    library writes (so the writer's buffer is at an arbitrary fill level), are closed and read back in binary."""
    raw = None
    try:
        if route == 'str':
            out = d.dump()
        elif route == 'str()':
            out = str(d)
        elif route == 'bytes()':
            raw = bytes(d)
        elif route == 'fd_b':
            fd = io.BytesIO()
            d.dump(fd)
            raw = fd.getvalue()
        elif route == 'fd_b_enc':
            fd = io.BytesIO()
            d.dump(fd, encoding='utf-8')
            raw = fd.getvalue()
        elif route == 'fd_t':
            fd = io.StringIO()
            d.dump(fd, text_mode=True)
            out = fd.getvalue()
        elif route == 'tw_t':
            bio = io.BytesIO()
            fd = io.TextIOWrapper(bio, encoding='utf-8', newline=rr.choice(['\n', '', None]),
                                  write_through=rr.random() < 0.3)
            d.dump(fd, text_mode=True)
            fd.flush()
            raw = bio.getvalue()
            fd.close()
        else:
            path = os.path.join(tmp, 'out.' + route)
            try:
                os.unlink(path)
            except FileNotFoundError:
                pass
            npad = rr.choice(FILE_PADS) if rr.random() < 0.8 else rr.randrange(9000)
            pad = ('#' + 'p' * (npad - 2) + '\n')[-npad:] if npad else ''
            if route == 'file_wt':
                fd = open(path, 'w', encoding='utf-8', newline=rr.choice(['\n', '', None]))
                with fd:
                    fd.write(pad)
                    d.dump(fd, text_mode=True)
            else:
                if route == 'file_wb':
                    fd = open(path, 'wb')
                elif route == 'file_wb_unbuffered':
                    fd = open(path, 'wb', buffering=0)
                else:
                    fd = open(path, 'wb', buffering=rr.choice(ODD_BUFFERS))
                with fd:
                    fd.write(pad.encode('ascii'))
                    d.dump(fd, encoding=rr.choice([None, None, 'utf-8']))
            with open(path, 'rb') as f:
                raw = f.read()
            if raw[:npad] == pad.encode('ascii'):
                raw = raw[npad:]
    except Exception as e:
        raise RouteFailure('dump-raises/%s' % type(e).__name__, 'output route %s raised %r' % (route, e))
    if raw is not None:
        if not isinstance(raw, bytes):
            raise RouteFailure('dump-returns-no-text', 'output route %s gave %r' % (route, raw))
        try:
            out = raw.decode('utf-8')
        except UnicodeDecodeError as e:
            raise RouteFailure('dump-output-not-utf-8', 'output route %s wrote bytes that are not UTF-8: %r' % (route, e))
    if not isinstance(out, str):
        raise RouteFailure('dump-returns-no-text', 'output route %s returned %r' % (route, out))
    return out


def dumped_lines(text):
    dl = text.split('\n')
    if dl and dl[-1] == '':
        dl.pop()
    return dl


def size_tags(text, ctx=None):
    """Size classes of ONE dumped paragraph, measured on the text the library produced: an entry = a line that does not start
    with a blank/tab + the lines that do.  -> set of BIG_TAGS (+ exact-size / placement counters when ctx is given)."""
    tags = set()
    sizes, ncont, maxcont = [], 0, 0
    for line in dumped_lines(text):
        n = len(line)
        if n >= 10000:
            tags.add('line>=10000')
            if n >= 100000:
                tags.add('line>=100000')
        b = (n if line.isascii() else len(line.encode('utf-8'))) + 1
        if line[:1] in (' ', '\t') and sizes:
            sizes[-1] += b
            ncont += 1
            maxcont = max(maxcont, ncont)
        else:
            sizes.append(b)
            ncont = 0
    if maxcont >= 1000:
        tags.add('conts>=1000')
    if len(sizes) >= 200:
        tags.add('fields>=200')
    if sizes and max(sizes) >= 8192:
        tags.add('entry>=8192')
        if max(sizes) >= 65536:
            tags.add('entry>=65536')
    if ctx is not None and sizes:
        top = max(sizes)
        if top >= 4096:
            at = sizes.index(top)
            ctx.count('big:place:%s' % ('alone' if len(sizes) == 1 else 'first' if at == 0 else 'last' if at == len(sizes) - 1
                                        else 'between'))
        for s in sizes:
            if s in BIG_SIZES:
                ctx.count('big:entry-bytes=%d' % s)
            elif s >= 4096 and (s + 2) % 8192 <= 4:
                ctx.count('big:entry-bytes=k*8192+-2')
        total = sum(sizes)
        ctx.count('big:paragraph-bytes>=8192' if total >= 8192 else 'big:paragraph-bytes<8192')
    return tags


def read_api(deb822, api, src):
    """The paragraph objects API `api` reads from input object `src`."""
    if api == 'iter_paragraphs':
        return list(deb822.Deb822.iter_paragraphs(src))
    if api == 'Deb822':
        return [deb822.Deb822(src)]
    if api == 'Dsc':
        return [deb822.Dsc(src)]
    if api == 'Changes':
        return [deb822.Changes(src)]
    return list(getattr(deb822, api.split('.')[0]).iter_paragraphs(src))


def mini_reread(deb822, expected, lines, single):
    """Re-read of the text of a NON-primary output-route group: four containers x API, no decorations."""
    out = []
    for cont in ('str', 'bytes', 'lines_nl', 'bytesio'):
        for api in (('iter_paragraphs', 'Deb822') if single else ('iter_paragraphs',)):
            src = container(cont, lines, True)
            try:
                if api == 'iter_paragraphs':
                    got = [observe(p) for p in deb822.Deb822.iter_paragraphs(src)]
                else:
                    got = [observe(deb822.Deb822(src))]
            except Exception as e:
                out.append(('reparse-raises-%s' % type(e).__name__, '%r while re-reading %s' % (e, show_lines(lines))))
                continue
            res = diff(expected, got)
            if res is not None:
                out.append((res[0], '%s; input lines %s' % (res[1], show_lines(lines))))
    return out


DIMS = ('container', 'armour', 'comments', 'lead', 'api')
TEXT_UNITS = {'str': 'text', 'lines_nl': 'text', 'lines_nonl': 'text', 'textio': 'text', 'bytes': 'bytes', 'bytesio': 'bytes',
              'binfile': 'bytes'}


def unit_of(cont):
    return 'text' if cont[:3] in ('tw:', 'tf:') else TEXT_UNITS[cont]


def is_encfile(cont):
    return cont[:3] in ('tw:', 'tf:')


def enc_family(enc):
    return 'utf-8' if enc in UTF8_SPELLINGS else ('8bit' if enc in ASCII_COMPATIBLE_8BIT else enc)


def scope(failing, executed, by_api=False):
    """Names the form classes a failure is confined to (bounded vocabulary: dimension=value[+value...]).  `by_api` ("mv" cases, where
    the APIs do not all run on the same containers): the container dimension is judged among the forms of the failing APIs."""
    if len(failing) == len(executed):
        return 'all-forms'
    if by_api:
        fapis = set(f[4] for f in failing)
        api_part = [] if fapis == set(f[4] for f in executed) else ['api=%s' % '+'.join(sorted(fapis))]
        executed = [f for f in executed if f[4] in fapis]
        if len(failing) == len(executed):
            return api_part[0]
        rest = scope(failing, executed)
        return ','.join(([] if rest in ('all-forms', 'some-forms') else [rest]) + api_part) or 'some-forms'
    parts = []
    fu = set(unit_of(f[0]) for f in failing)
    au = set(unit_of(f[0]) for f in executed)
    unit_confined = len(fu) == 1 and len(au) > 1
    # the other dimensions are judged among the executed forms of the FAILING containers only: the real-file
    # containers rotate over the cells of the grid, so "every cell this container ran in" is the relevant whole
    fconts = set(f[0] for f in failing)
    same_cont = [f for f in executed if f[0] in fconts]
    for i, dim in enumerate(DIMS):
        fv = set(f[i] for f in failing)
        av = set(f[i] for f in (executed if dim == 'container' else same_cont))
        if fv == av:
            continue
        if dim == 'container' and unit_confined and fv == set(k for k in av if unit_of(k) in fu):
            parts.append('unit=%s' % list(fu)[0])
        elif dim == 'container' and all(is_encfile(k) for k in fv):
            # confined to real text file objects with a declared encoding: name the encoding FAMILIES only (which
            # spellings / kinds a case runs rotates, and which 8-bit encodings can hold a document varies - neither
            # belongs in a mechanism key)
            fams = sorted(set(enc_family(k[3:]) for k in fv))
            afams = set(enc_family(k[3:]) for k in av if is_encfile(k))
            if set(fams) == afams:
                parts.append('container=text-file-with-declared-encoding')
            else:
                parts.append('container=text-file-with-declared-encoding(%s)' % '+'.join(fams))
        else:
            parts.append('%s=%s' % (dim, '+'.join(str(v) for v in sorted(fv, key=str))))
    return ','.join(parts) if parts else 'some-forms'


def rotation(cell, salt):
    """cell = arm*4 + comments*2 + lead.  -> (which half of ENC_SLOTS, kind bit, spelling bit).

    half: parity of (comments + lead + arm + salt) - so the two cells of a half differ in BOTH comments and lead, and
    the armoured cells use the opposite assignment: over the 8 cells of a single paragraph each half meets all four
    comments x lead combinations.  kind: flips between the two plain (and the two armoured) cells of a half.
    spelling: per case, flipped for the armoured cells."""
    arm, com, lead = cell >> 2, (cell >> 1) & 1, cell & 1
    half = (arm + com + lead + salt) & 1
    kind_bit = (com + (salt >> 1)) & 1
    spell_bit = (arm + (salt >> 2)) & 1
    return half, kind_bit, spell_bit


def workdir(ctx):
    d = getattr(ctx, '_c02_workdir', None)
    if d is None:
        d = ctx._c02_workdir = ctx.tmpdir()
    return d


def _noop():
    pass


def open_source(cont, lines, final_nl, blobs, written, tmp, tw_newline):
    """A FRESH input object of form `cont` (file objects are consumed by one parse) and its closer."""
    if cont in TEXT_UNITS and cont != 'binfile':
        return container(cont, lines, final_nl), _noop
    if cont[:3] == 'tw:':
        f = io.TextIOWrapper(io.BytesIO(blobs[cont]), encoding=cont[3:], newline=tw_newline)
        return f, f.close
    path = os.path.join(tmp, 'in.bin' if cont == 'binfile' else 'in.' + cont[3:])
    if cont not in written:
        # rewrite in place: O_TRUNC on a file that holds data costs milliseconds on ext4 (auto_da_alloc flush)
        try:
            out = open(path, 'r+b')
        except FileNotFoundError:
            out = open(path, 'wb')
        with out:
            out.write(blobs[cont])
            out.truncate()
        written.add(cont)
    if cont == 'binfile':
        f = open(path, 'rb')
    else:
        f = open(path, 'r', encoding=cont[3:])
    return f, f.close


# ---------------------------------------------------------------------------
# one execution: build -> dump -> re-read through every form -> compare with the model

def evaluate(ctx, case, record=True):
    """Returns {mechanism_key: (message, n_failing_forms)}.  `record` switches the
    evidence counters (off while shrinking a witness)."""
    if case.get('asm'):
        return evaluate_asm(ctx, case, record)
    from debian import deb822
    doc, mode = expand_doc(case['doc']), case.get('dump', 'str')
    big = bool(case.get('big'))
    r = random.Random('C02-deco/%s' % case.get('deco', 0))
    rr = random.Random('C02-routes/%s' % case.get('deco', 0))
    found = {}
    expected = [[[name, model_value(first, conts)] for name, first, conts in para] for para in doc]
    tmp = workdir(ctx)
    # "mv" cases: what the gpg-aware classes must expose - structured fields as the list of items they were written with (cut to
    # the columns of the class), every other field as for Deb822; `redump_ok`: every item has all the columns of the class (else the
    # class holds incomplete records and its dump() refuses - outside the statement)
    mv = case.get('mv')
    exp_by_api = {}
    redump_ok = {}
    mv_tags, armor_tags = [], []
    if mv:
        for cls in ('Dsc', 'Changes'):
            ok = True
            exp = []
            for para in doc:
                ep = []
                for name, first, conts in para:
                    n = MV_COLUMNS[cls].get(name.lower())
                    if n is None:
                        ep.append([name, model_value(first, conts)])
                        continue
                    full = mv_items(first, conts)
                    ok = ok and all(len(it) >= n for it in full)
                    ep.append([name, {'want': [it[:n] for it in full], 'full': full,
                                      'first_on_field_line': bool(first.strip(' \t')) and len(full) > 1}])
                exp.append(ep)
            exp_by_api[cls] = exp_by_api[cls + '.iter_paragraphs'] = exp
            redump_ok[cls] = ok
        for para in doc:
            for name, first, conts in para:
                if name.lower() in STRUCTURED:
                    mv_tags.append(mv_layout(first, conts))
                    if record and any('\t' in l.strip(' \t') for l in [first] + conts):
                        ctx.count('mv:separator:tab')
                    if record and any('  ' in l.strip(' \t') for l in [first] + conts):
                        ctx.count('mv:separator:several-blanks')
                else:
                    armor_tags.extend(armor_mentions(first, conts))
        mv_tags, armor_tags = sorted(set(mv_tags)), sorted(set(armor_tags))
        if record:
            for t in mv_tags:
                ctx.count('mv:doc-with-layout:%s' % t)
            for t in armor_tags:
                ctx.count('armorword:doc-with:%s' % t)

    # -- build through __setitem__, write every paragraph through EVERY output route
    texts = dict((rt, []) for rt in ROUTES)       # route -> text per paragraph
    raised = {}                                   # route -> (kind, message)
    for para in doc:
        d = deb822.Deb822()
        for name, first, conts in para:
            try:
                d[name] = first + ''.join('\n' + c for c in conts)
            except ValueError as e:
                found['setitem-rejects-in-domain-value/build'] = (
                    '%r: Deb822()[%r] = %s raised' % (e, name, show_lines([first] + conts)), 1)
                return found
        # get_as_string per field: the assigned value (judged modulo the trimming of the first line only)
        for name, first, conts in para:
            try:
                g = d.get_as_string(name)
            except Exception as e:
                found['get_as_string-raises/%s' % type(e).__name__] = ('get_as_string(%r) raised %r' % (name, e), 1)
                break
            if record:
                ctx.mon('M.get_as_string')
            want = model_value(first, conts)
            if not isinstance(g, str):
                found['get_as_string-differs-from-assigned-value/build'] = ('get_as_string(%r) returned %r' % (name, g), 1)
                break
            gl = g.split('\n')
            if gl[0].strip(' \t') + ''.join('\n' + c for c in gl[1:]) != want:
                found['get_as_string-differs-from-assigned-value/build'] = (
                    'get_as_string(%r): assigned %s' % (name, show_pair(want, g)), 1)
                break
        for rt in ROUTES:
            if rt in raised:
                continue
            try:
                texts[rt].append(route_text(rt, d, tmp, rr))
            except RouteFailure as e:
                raised[rt] = (e.kind, e.msg)
    avail = [rt for rt in ROUTES if rt not in raised]
    by_kind = {}
    for rt in ROUTES:
        if rt in raised:
            by_kind.setdefault(raised[rt][0], []).append(rt)
    for kind, rts in by_kind.items():
        if len(rts) == len(ROUTES):
            key = kind + ('/build' if kind == 'dump-returns-no-text' else '')
        else:
            key = '%s/output-route=%s' % (kind, '+'.join(rts))
        found[key] = ('%s [routes %s] for %s' % (raised[rts[0]][1], '+'.join(rts), show_lines(['%a' % (doc,)], 1500)), len(rts))
    if not avail:
        return found
    groups = {}                                   # texts of all paragraphs -> the routes that produced exactly them
    for rt in avail:
        groups.setdefault(tuple(texts[rt]), []).append(rt)
    primary = mode if mode in avail else avail[0]
    doc_tags = set()
    if record:
        ctx.count('dump:%s' % mode)
        for rt in avail:
            ctx.count('route:%s' % rt, len(doc))
        if len(groups) > 1:
            ctx.count('routes:texts-differ')
        if big:
            for text in texts[primary]:
                tags = size_tags(text, ctx)
                doc_tags |= tags
                for t in tags:
                    ctx.count('big:%s' % t)
                    for rt in avail:
                        ctx.count('big:%s:route:%s' % (t, rt))
    single = len(doc) == 1
    for gtexts, rts in groups.items():
        if primary in rts:
            continue
        # another output route produced ANOTHER text: it must re-read as the model too
        lines = []
        for i, text in enumerate(gtexts):
            if i:
                lines.append('')
            lines += dumped_lines(text)
        if record:
            ctx.mon('M.route-variant')
        fl = mini_reread(deb822, expected, lines, single)
        seen = {}
        for kind, msg in fl:
            seen.setdefault(kind, []).append(msg)
        for kind, msgs in seen.items():
            found['%s/output-route=%s' % (kind, '+'.join(rts))] = (
                'output route(s) %s wrote a text that differs from the text of route %s and re-reads differently: %s  '
                '[%d re-reads differ]' % ('+'.join(rts), primary, msgs[0], len(msgs)), len(msgs))
        if not fl and record:
            ctx.count('unjudged:output-route-text-differs-but-re-reads-as-the-model')
    dumps = [dumped_lines(text) for text in texts[primary]]
    route_note = '+'.join(groups[tuple(texts[primary])]) if len(groups) > 1 else None

    base = []
    for i, dl in enumerate(dumps):
        if i:
            gap = r.choice([1, 1, 1, 2, 3])
            # GUARD ("mv" cases, see ASSUMPTIONS): ONE blank line between paragraphs, so that no comment-only block can stand
            # between two blank lines
            base += [''] * (1 if mv else gap)
        base += dl
    single = len(doc) == 1
    executed = []
    redumped = []
    failures = {}     # kind -> list of (form, msg)
    # decorations are drawn ONCE per case, so that which forms fail is a function of the form classes only
    aparams = armour_params(r)
    blanks = [''] * r.choice([1, 1, 2, 3])
    uni = case.get('uni')
    pool = COMMENTS
    if uni in UNI_BY_PROFILE:
        # "uni" cases only (older recorded cases keep their decorations): comment lines and an armour header of the
        # signature block that carry "uni" atoms of the document's profile
        pool = COMMENTS[:6] + uni_comments(r, uni)
        if aparams['sighdr'] and r.random() < 0.6:
            aparams['sighdr'] = ['Comment: ' + r.choice(UNI_BY_PROFILE[uni]) + ' x' + r.choice(UNI_BY_PROFILE[uni])] \
                + aparams['sighdr']
            if record:
                ctx.count('feat:uni-armour-comment-header')
    c_base = with_comments(base, r, pool)
    c_blanks = with_comments(blanks, r, pool) if r.random() < 0.5 else blanks     # comments around the leading blank lines
    if mv:
        c_blanks = blanks        # GUARD ("mv" cases): no comment lines among the leading blank lines
    final_nl = r.random() < 0.75
    # drawn AFTER all older decorations, so that a recorded case keeps the decorations it had
    salt = r.getrandbits(16)
    tw_newline = r.choice(TW_NEWLINES)
    tmp = workdir(ctx)
    doc_nonascii = not all(l.isascii() for l in base)
    utags, uchars = uni_classes(doc) if record else ([], set())
    if utags:
        uni_features(ctx, doc, utags)
    unames = {}       # (api, form name) -> counter names of this document's classes
    mnames = {}       # (api, armour) -> "mv" / armour-word counter names of this document
    marker_trail = bool(aparams['t1'] or aparams['t2'] or aparams['t3'])
    # "big" documents run a rotating third of the grid: two plain cells that differ in BOTH comments and leading blanks,
    # one armoured cell, half of the in-memory containers per cell (+ the rotating real-file forms of the cell)
    big_plain = ((0, 0), (1, 1)) if salt & 8 else ((0, 1), (1, 0))
    big_arm = (salt >> 4) & 3
    btags = sorted(doc_tags & set(BIG_TAGS)) if record else []
    cell = -1
    for arm in ((0, 1) if single else (0,)):
        for com in (0, 1):
            for lead in (0, 1):
                cell += 1
                if big and ((com * 2 + lead != big_arm) if arm else ((com, lead) not in big_plain)):
                    continue
                if mv and single and (arm ^ com ^ lead ^ (salt >> 7)) & 1:
                    # COST bound ("mv" cases run six APIs + the second round): single paragraphs go through two plain and two
                    # armoured cells that between them hold all four comments x leading-blank combinations (which two alternates
                    # from case to case), half of the in-memory containers per cell
                    continue
                mem = CONTAINERS[(cell + (salt >> 6)) & 1::2] if big or mv else CONTAINERS
                if arm:
                    # the armour wraps the paragraph text *including its comments*; lines outside the signed
                    # payload (before BEGIN, armour headers, signature) are not deb822 text - no comments there
                    lines = (blanks if lead else []) + armour(c_base if com else base, aparams)
                    if marker_trail and record:
                        ctx.count('feat:marker-trailing-blank-or-cr', len(mem))
                else:
                    lines = ((c_blanks if com else blanks) if lead else []) + (c_base if com else base)
                text = '\n'.join(lines) + ('\n' if final_nl else '')
                text_ascii = text.isascii()
                # -- the real-file forms of this cell.  Every cell gets two of the four encoding families (and every
                # other cell the binary file); the halves, the kind (tw / tf) and the spelling of the encoding rotate
                # so that within ONE case every family is seen through both kinds and, on single paragraphs, under
                # all four comments x leading-blank combinations (see rotation())
                blobs = {}
                conts = list(mem)
                # ("mv" cases: the cells of a case differ in BOTH comments and leading blanks - the two halves alternate with comments)
                half, kind_bit, spell_bit = rotation(cell, salt ^ com if mv else salt)
                if half == 0:
                    blobs['binfile'] = text.encode('utf-8')
                    conts.append('binfile')
                for si, spellings in enumerate(ENC_SLOTS):
                    if si & 1 != half:
                        continue
                    enc = spellings[spell_bit]
                    cont = '%s:%s' % (('tw', 'tf')[(kind_bit + (si >> 1)) & 1], enc)
                    try:
                        blobs[cont] = text.encode(enc)
                    except UnicodeEncodeError:
                        if record:
                            ctx.count('skip:unencodable:%s' % enc)
                        continue
                    conts.append(cont)
                written = set()
                apis = ['iter_paragraphs']
                if single:
                    apis.append('Deb822')
                if arm:
                    apis += ['Dsc', 'Changes']
                if mv:
                    # Dsc / Changes shaped documents: both classes, constructor (single paragraphs; PLAIN text too) and
                    # iter_paragraphs (all), in every cell
                    if single and not arm:
                        apis += ['Dsc', 'Changes']
                    apis += ['Dsc.iter_paragraphs', 'Changes.iter_paragraphs']
                for cont in conts:
                    encfile = is_encfile(cont)
                    for api in apis:
                        form = (cont, arm, com, lead, api)
                        judged = True
                        if encfile and api in GPG_APIS:
                            enc = cont[3:]
                            if enc not in UTF8_SPELLINGS and enc not in ASCII_COMPATIBLE_8BIT:
                                # utf-16: see ASSUMPTIONS (the gpg-aware classes look for the armour in the BYTES)
                                judged = False
                                if not record or salt % UNJUDGED_SAMPLE or api not in ('Dsc', 'Changes'):
                                    continue
                        src, closer = open_source(cont, lines, final_nl, blobs, written, tmp, tw_newline)
                        if not judged:
                            try:
                                with warnings.catch_warnings():
                                    warnings.simplefilter('ignore')
                                    got = [observe((deb822.Dsc if api == 'Dsc' else deb822.Changes)(src))]
                                ctx.count('unjudged:gpg-api-on-non-utf8-text-file:%s'
                                          % ('agree' if diff(expected, got) is None else 'differ'))
                            except Exception:
                                ctx.count('unjudged:gpg-api-on-non-utf8-text-file:raise')
                            finally:
                                closer()
                            continue
                        executed.append(form)
                        if record:
                            ctx.mon('M')
                            ctx.count('api:%s' % api)
                            if arm:
                                ctx.mon('M.armour')
                            if com:
                                ctx.mon('M.comments')
                            if lead:
                                ctx.mon('M.lead')
                            if encfile:
                                enc = cont[3:]
                                ctx.mon('M.encfile')
                                ctx.count('form:%s' % cont[:2])
                                ctx.count('enc:%s' % enc)
                                if doc_nonascii:
                                    ctx.count('enc-nonascii:%s' % enc)
                                elif text_ascii:
                                    ctx.count('enc-ascii:%s' % enc)
                                ctx.count('encfile-api:%s' % api)
                                if api in ('Dsc', 'Changes'):
                                    ctx.count('gpgapi-encfile:%s' % ('utf-8' if enc in UTF8_SPELLINGS else 'non-utf-8'))
                            elif cont == 'binfile':
                                ctx.mon('M.binfile')
                            if big:
                                ctx.mon('M.big')
                                for t in btags:
                                    ctx.count('big:%s:form:%s' % (t, form_name(cont)))
                                    ctx.count('big:%s:api:%s' % (t, api))
                                    if arm:
                                        ctx.count('big:%s:armour' % t)
                                    if com:
                                        ctx.count('big:%s:comments' % t)
                            if utags:
                                ukey = (api, cont)
                                names = unames.get(ukey)
                                if names is None:
                                    fname = form_name(cont)
                                    names = ['uni:%s:%s:%s' % (t, api, fname) for t in utags]
                                    if encfile:
                                        names += ['uni:filebytes:%s:%s' % (t, api) for t in file_byte_tags(uchars, cont[3:])]
                                    unames[ukey] = names
                                ctx.mon('M.uni')
                                for nm in names:
                                    ctx.count(nm)
                            if mv:
                                names = mnames.get((api, arm))
                                if names is None:
                                    names = mnames[(api, arm)] = \
                                        ['mv:%s:%s' % (t, api) for t in mv_tags] + \
                                        ['armorword:%s:%s' % (('plain', 'armour')[arm], api)] * bool(armor_tags) + \
                                        ['armorword:%s:%s' % (t, ('plain', 'armour')[arm]) for t in armor_tags]
                                for nm in names:
                                    ctx.count(nm)
                                if mv_tags and api in GPG_APIS:
                                    ctx.mon('M.mv')
                                if armor_tags:
                                    ctx.mon('M.armorword')
                                    if cont in ('str', 'bytes'):
                                        ctx.count('armorword:whole-document-as-one-%s:%s' % (cont, api))
                        want = exp_by_api.get(api, expected)
                        try:
                            objs = read_api(deb822, api, src)
                            got = [observe(o) for o in objs]
                        except Exception as e:
                            failures.setdefault('reparse-raises-%s' % type(e).__name__, []).append(
                                (form, '%r while re-reading %s' % (e, show_lines(lines))))
                            continue
                        finally:
                            closer()
                        res = diff(want, got)
                        if res is not None:
                            failures.setdefault(res[0], []).append((form, '%s; input lines %s' % (res[1], show_lines(lines))))
                            continue
                        if not mv or api not in GPG_APIS:
                            continue
                        if record:
                            for ep, gp in zip(want, got):
                                for (k, ev), (_, gv) in zip(ep, gp):
                                    if isinstance(ev, dict):
                                        ctx.count('mv:exposed-as:%s:%s' % (gv['shape'] if isinstance(gv, dict) else 'text', api))
                        # -- dump + re-parse must keep the item lists (and everything else): the object the class built is written
                        # by the class itself (rotating in-memory output routes) and read again through the same API
                        nform = len(executed) + (salt >> 8)
                        if nform % MV_REDUMP_EVERY:
                            continue
                        cls = api.split('.')[0]
                        if not redump_ok[cls]:
                            if record:
                                ctx.count('mv:redump-not-applicable:items-shorter-than-the-columns-of:%s' % cls)
                            continue
                        k = nform // MV_REDUMP_EVERY
                        # (an object read from a text file that declares an 8-bit encoding carries that encoding: its binary
                        # routes without encoding= write that encoding, by design - they are used for the other forms only)
                        rroutes = MV_REDUMP_ROUTES if not encfile or cont[3:] in UTF8_SPELLINGS else MV_REDUMP_ROUTES_EXPLICIT
                        rroute = rroutes[k % len(rroutes)]
                        rcont = CONTAINERS[(k // 2) % len(CONTAINERS)]
                        redumped.append(form)
                        if record:
                            ctx.mon('M.mv.redump')
                            ctx.count('mv:redump:%s' % api)
                            ctx.count('mv:redump-route:%s' % rroute)
                            for t in mv_tags:
                                ctx.count('mv:redump:%s:%s' % (t, cls))
                        try:
                            dl = []
                            for j, o in enumerate(objs):
                                if j:
                                    dl.append('')
                                dl += dumped_lines(route_text(rroute, o, tmp, rr))
                        except RouteFailure as e:
                            failures.setdefault('after-dump-and-re-parse:' + e.kind.replace('/', '-'), []).append(
                                (form, 'the %s object read from %s: %s' % (cls, show_lines(lines), e.msg)))
                            continue
                        try:
                            got2 = [observe(o) for o in read_api(deb822, api, container(rcont, dl, True))]
                        except Exception as e:
                            failures.setdefault('after-dump-and-re-parse:reparse-raises-%s' % type(e).__name__, []).append(
                                (form, '%r while re-reading (as %s) the dump %s of the %s object read from %s'
                                 % (e, rcont, show_lines(dl), cls, show_lines(lines))))
                            continue
                        res = diff(want, got2)
                        if res is not None:
                            failures.setdefault('after-dump-and-re-parse:' + res[0], []).append(
                                (form, '%s; the %s object read from %s was dumped (route %s) as %s and re-read as %s'
                                 % (res[1], cls, show_lines(lines), rroute, show_lines(dl), rcont)))
    if mv and single and not salt % 4 and executed:
        # comment lines are ignored wherever they stand: a COMMENT-ONLY block between blank lines - in front of the paragraph,
        # or between two paragraphs - is no paragraph and does not end the document (judged since fix e84cae2; before it the
        # gpg-aware classes stopped there)
        for api_name in ('Dsc', 'Changes'):
            cls = getattr(deb822, api_name)
            want1 = exp_by_api[api_name]
            probes = [('constructor(lines)', lambda: [observe(cls(['', '# c', ''] + base))], want1),
                      ('iter_paragraphs(lines)', lambda: [observe(p) for p in cls.iter_paragraphs(base + ['', '# c1', '# c2', '', ''] + base)],
                       want1 + want1),
                      ('iter_paragraphs(str)', lambda: [observe(p) for p in cls.iter_paragraphs('\n'.join(['', '# c', ''] + base + ['', '#x', ''] + base) + '\n')],
                       want1 + want1)]
            for pname, call, want in probes:
                if record:
                    ctx.count('comment-only-block-between-blank-lines:%s:%s' % (api_name, pname))
                try:
                    got = call()
                    res = diff(want, got)
                except Exception as e:
                    res = ('raises-%s' % type(e).__name__, repr(e))
                if res is not None:
                    failures.setdefault('comment-only-block-between-blank-lines-ends-the-document', []).append(
                        (executed[0], '%s.%s on %s with a comment-only block between blank lines: %s' % (api_name, pname, show_lines(base), res[1])))
    for kind, fl in failures.items():
        forms = [f for f, _ in fl]
        # all output routes agree on the text (always, on the unchanged tree): the key names the input-form classes; if
        # they do not, it names the routes that wrote this text
        among = executed
        if kind.startswith('after-dump-and-re-parse:'):
            # second round: the key names API and armour only (the container is that of the FIRST read; bounded vocabulary)
            among = sorted(set(('any', f[1], 0, 0, f[4]) for f in redumped))
            forms = sorted(set(('any', f[1], 0, 0, f[4]) for f in forms))
        key = '%s/%s' % (kind, scope(forms, among, bool(mv)) if route_note is None else 'output-route=' + route_note)
        found[key] = ('form (container, armour, comments, lead, api)=%r: %s  [%d of %d forms differ]'
                      % (fl[0][0], fl[0][1], len(fl), len(among)), len(fl))
    return found


# ---------------------------------------------------------------------------
# "asm" class: the document is WRITTEN paragraph by paragraph the way programs do it, then re-read whole

def _asm_value(d, part):
    if part == 'str':
        return str(d)
    if part == 'dump':
        return d.dump()
    return bytes(d)


def _asm_write(fd, d, part):
    """Writes paragraph `d` into the shared stream through `part`.  -> True when the separator newline is still to be written."""
    if part == 'dump(fd)':
        d.dump(fd)
    elif part == 'dump(fd,encoding)':
        d.dump(fd, encoding='utf-8')
    elif part == 'write(bytes(p))':
        fd.write(bytes(d))
    elif part == 'write(str(p).encode())':
        fd.write(str(d).encode('utf-8'))
    elif part == 'write(dump().encode())':
        fd.write(d.dump().encode('utf-8'))
    elif part == 'dump(fd,text_mode)':
        d.dump(fd, text_mode=True)
    elif part == 'write(str(p))':
        fd.write(str(d))
    elif part == 'write(dump())':
        fd.write(d.dump())
    elif part == 'print(p,file=fd)':
        print(d, file=fd)            # str(p) + the newline print() adds: the separator
        return False
    else:
        raise ValueError(part)
    return True


def assemble(route, paras, tmp, rr, endings):
    """The text of the whole document written through assembly route `route` (see ASM_ROUTES): per paragraph the text of one
    output route + the single separator newline (or '\\n'.join over the paragraph texts).  `endings` (a list) receives, per
    paragraph text whose extent is known, (part, True when it ends in exactly one newline)."""
    kind, unit, part = ASM_ROUTES[route]
    nl = '\n' if unit == 'text' else b'\n'
    raw = None
    try:
        if kind in ('value', 'join'):
            pieces = [_asm_value(d, part) for d in paras]
            for p in pieces:
                if not isinstance(p, (str if unit == 'text' else bytes)):
                    raise RouteFailure('dump-returns-no-text', 'assembly route %s: %s of a paragraph gave %r' % (route, part, p))
                endings.append((part + '()', p.endswith(nl) and not p.endswith(nl + nl)))
            raw = nl.join(pieces) if kind == 'join' else type(nl)().join(p + nl for p in pieces)
        else:
            # ONE shared stream for the whole document: in memory or a real file (created afresh, with a pad of comment bytes
            # written by the harness first so that the writer's buffer is at an arbitrary fill level)
            in_memory = route in ('fd_b-shared', 'fd_b_enc-shared', 'fd_t-shared') or \
                (route in ('print()-shared', 'mixed-binary', 'mixed-text') and rr.random() < 0.5)
            npad = 0
            bio = path = None
            if in_memory:
                fd = io.BytesIO() if unit == 'bytes' else io.StringIO()
            elif route == 'tw_t-shared' or (unit == 'text' and route != 'file_wt-shared' and rr.random() < 0.4):
                bio = io.BytesIO()
                fd = io.TextIOWrapper(bio, encoding='utf-8', newline=rr.choice(['\n', '', None]), write_through=rr.random() < 0.3)
            else:
                path = os.path.join(tmp, 'asm.out')
                try:
                    os.unlink(path)
                except FileNotFoundError:
                    pass
                npad = rr.choice(FILE_PADS) if rr.random() < 0.8 else rr.randrange(9000)
                if unit == 'text':
                    fd = open(path, 'w', encoding='utf-8', newline=rr.choice(['\n', '', None]))
                else:
                    fd = open(path, 'wb', buffering=rr.choice((-1, -1, 0) + ODD_BUFFERS))
            pad = ('#' + 'p' * (npad - 2) + '\n')[-npad:] if npad else ''
            # the extent of each paragraph text: stream positions (in memory and binary files: tell() does not flush; text
            # files: tell() flushes, so only for every second document)
            track = in_memory or unit == 'bytes' or rr.random() < 0.5
            marks = []
            try:
                if pad:
                    fd.write(pad if unit == 'text' else pad.encode('ascii'))
                for d in paras:
                    pt = part if part is not None else rr.choice(ASM_BIN_PARTS if unit == 'bytes' else ASM_TEXT_PARTS)
                    at = fd.tell() if track else None
                    sep = _asm_write(fd, d, pt)
                    if track:
                        marks.append((pt, at, fd.tell(), sep))
                    if sep:
                        fd.write(nl)
                if in_memory:
                    raw = fd.getvalue()
                elif bio is not None:
                    fd.flush()
                    raw = bio.getvalue()
            finally:
                if not in_memory:
                    fd.close()
            if path is not None:
                with open(path, 'rb') as f:
                    raw = f.read()
            if isinstance(raw, (str, bytes)):
                one = '\n' if isinstance(raw, str) else b'\n'
                for pt, a, b, sep in marks:
                    piece = raw[a:b]
                    if not sep:
                        piece = piece[:-1]              # (print() wrote the separator itself)
                    endings.append((pt, piece.endswith(one) and not piece.endswith(one + one)))
                if npad and raw[:npad] == (pad if isinstance(raw, str) else pad.encode('ascii')):
                    raw = raw[npad:]
    except RouteFailure:
        raise
    except Exception as e:
        raise RouteFailure('dump-raises/%s' % type(e).__name__, 'assembly route %s raised %r' % (route, e))
    if isinstance(raw, bytes):
        try:
            raw = raw.decode('utf-8')
        except UnicodeDecodeError as e:
            raise RouteFailure('dump-output-not-utf-8', 'assembly route %s wrote bytes that are not UTF-8: %r' % (route, e))
    if not isinstance(raw, str):
        raise RouteFailure('dump-returns-no-text', 'assembly route %s gave %r' % (route, raw))
    return raw


def evaluate_asm(ctx, case, record=True):
    """Multi-paragraph document written paragraph by paragraph through every assembly route; every distinct text is re-read
    whole through every input form x {Deb822, Dsc, Changes}.iter_paragraphs and compared with the model."""
    from debian import deb822
    doc = expand_doc(case['doc'])
    r = random.Random('C02-asm/%s' % case.get('deco', 0))
    salt = r.getrandbits(16)
    tw_newline = r.choice(TW_NEWLINES)
    found = {}
    expected = [[[name, model_value(first, conts)] for name, first, conts in para] for para in doc]
    tmp = workdir(ctx)
    paras = []
    for para in doc:
        d = deb822.Deb822()
        for name, first, conts in para:
            try:
                d[name] = first + ''.join('\n' + c for c in conts)
            except ValueError as e:
                found['setitem-rejects-in-domain-value/build'] = (
                    '%r: Deb822()[%r] = %s raised' % (e, name, show_lines([first] + conts)), 1)
                return found
        paras.append(d)
    texts, raised, endings = {}, {}, []
    for rt in ASM_ROUTE_ORDER:
        rr = random.Random('C02-asm-route/%s/%s' % (case.get('deco', 0), rt))     # (independent of what other routes did)
        try:
            texts[rt] = assemble(rt, paras, tmp, rr, endings)
        except RouteFailure as e:
            raised[rt] = (e.kind, e.msg)
    if record:
        ctx.count('asm:paragraphs=%d' % len(doc))
        for para in doc:
            ctx.count('asm:last-field:%s' % last_field_shape(para))
        for pt, ok in endings:
            # established, not judged: the text of a paragraph ends in exactly one newline (text + separator = a blank line)
            ctx.count('asm:part-ends-in-exactly-one-newline:%s' % pt if ok else 'asm:part-ending-other:%s' % pt)
    by_kind = {}
    for rt, (kind, _) in raised.items():
        by_kind.setdefault(kind, []).append(rt)
    for kind, rts in by_kind.items():
        found['%s/assembled-by=%s' % (kind, asm_routes_name(rts))] = (
            '%s [assembly routes %s] for %s' % (raised[rts[0]][1], '+'.join(rts), show_lines(['%a' % (doc,)], 1500)), len(rts))
    groups = {}                                   # text of the document -> the assembly routes that wrote exactly it
    for rt in ASM_ROUTE_ORDER:
        if rt in texts:
            groups.setdefault(texts[rt], []).append(rt)
    if record and len(groups) > 2:
        ctx.count('asm:more-than-two-distinct-texts')       # (unchanged tree: with / without the separator after the last paragraph)
    kind_bit, enc = salt & 1, ASM_ENCS[(salt >> 1) % len(ASM_ENCS)]
    for gi, (text, rts) in enumerate(groups.items()):
        lines = text.split('\n')
        final_nl = lines[-1] == ''
        if final_nl:
            lines.pop()
        if not lines:
            found['assembled-document-empty/assembled-by=%s' % asm_routes_name(rts)] = (
                'assembly route(s) %s wrote %r for %s' % ('+'.join(rts), text, show_lines(['%a' % (doc,)], 1500)), len(rts))
            continue
        # COST bound: the texts of a document (unchanged tree: two - with / without the separator after the last paragraph) share
        # the input forms: each text is re-read through every second container (which half alternates with the text and the
        # case), every text through all three APIs
        conts = [c for ci, c in enumerate(CONTAINERS + ('binfile', 'textfile')) if (ci + gi + (salt >> 5)) & 1]
        blobs = {'binfile': text.encode('utf-8')}
        if 'textfile' not in conts:
            e = None
        else:
            conts.remove('textfile')
            e = enc
        tcont = ucont = None
        if e is not None:
            try:
                blob = text.encode(e)
            except UnicodeEncodeError:
                if record:
                    ctx.count('skip:unencodable:%s' % e)
                e = ('utf-8', 'UTF-8')[(salt >> 4) & 1]
                blob = text.encode(e)
            tcont = '%s:%s' % (('tw', 'tf')[kind_bit], e)
            blobs[tcont] = blob
            conts.append(tcont)
        if e is not None and e not in UTF8_SPELLINGS:
            # GUARD (see ASSUMPTIONS): Dsc/Changes.iter_paragraphs on a text file that declares a non-UTF-8 encoding are counted,
            # not judged; they get a UTF-8 text file of the other kind instead
            ucont = '%s:%s' % (('tf', 'tw')[kind_bit], ('utf-8', 'UTF-8')[(salt >> 4) & 1])
            blobs[ucont] = blobs['binfile']
            conts.append(ucont)
        written = set()
        executed, failures = [], {}
        for cont in conts:
            for api in ASM_APIS:
                if cont == ucont and api == 'Deb822':
                    continue
                form = (cont, 0, 0, 0, api)
                if ucont is not None and cont == tcont and api != 'Deb822' and 'a'.encode(e) != b'a':
                    if record and not salt % 4:
                        src, closer = open_source(cont, lines, final_nl, blobs, written, tmp, tw_newline)
                        try:
                            with warnings.catch_warnings():
                                warnings.simplefilter('ignore')
                                got = [observe(p) for p in getattr(deb822, api).iter_paragraphs(src)]
                            ctx.count('unjudged:gpg-api-iter_paragraphs-on-non-utf8-text-file:%s'
                                      % ('agree' if diff(expected, got) is None else 'differ'))
                        except Exception:
                            ctx.count('unjudged:gpg-api-iter_paragraphs-on-non-utf8-text-file:raise')
                        finally:
                            closer()
                    continue
                src, closer = open_source(cont, lines, final_nl, blobs, written, tmp, tw_newline)
                executed.append(form)
                if record:
                    ctx.mon('M')
                    ctx.mon('M.asm')
                    ctx.count('api:%s.iter_paragraphs' % api)
                    ctx.count('asm:form:%s' % form_name(cont))
                    for rt in rts:
                        ctx.count('asm:%s:%s' % (rt, api))
                try:
                    got = [observe(p) for p in getattr(deb822, api).iter_paragraphs(src)]
                except Exception as ex:
                    failures.setdefault('reparse-raises-%s' % type(ex).__name__, []).append(
                        (form, '%r while re-reading %s' % (ex, show_lines(lines))))
                    continue
                finally:
                    closer()
                res = diff(expected, got)
                if res is not None:
                    failures.setdefault(res[0], []).append((form, '%s; input lines %s' % (res[1], show_lines(lines))))
        for kind, fl in failures.items():
            forms = [f for f, _ in fl]
            sc = scope(forms, executed)
            key = '%s/assembled-by=%s%s' % (kind, asm_routes_name(rts), '' if sc == 'all-forms' else ',' + sc)
            found[key] = ('document of %d paragraphs written paragraph by paragraph through %s, re-read through (container, api)=%r: '
                          '%s  [%d of %d forms differ]' % (len(doc), '+'.join(rts), (fl[0][0][0], fl[0][0][4] + '.iter_paragraphs'),
                                                           fl[0][1], len(fl), len(executed)), len(fl))
    return found


def asm_routes_name(rts):
    """Names the assembly routes in a mechanism key.  Which parts a mixed-* route drew varies from case to case, so a mixed route
    is named only when no single-route assembly wrote the same text (bounded vocabulary)."""
    if len(rts) == len(ASM_ROUTE_ORDER):
        return 'all-routes'
    pure = [rt for rt in rts if ASM_ROUTES[rt][2] is not None]
    return '+'.join(pure or rts)


def shrink(ctx, case, key):
    """Greedy reduction of the model document while the same mechanism key is still reported."""
    budget = [12 if case.get('big') else 40]      # (a "big" evaluation is expensive)

    def still(c):
        if budget[0] <= 0 or not in_domain(expand_doc(c['doc']), bool(c.get('mv'))):
            return False
        budget[0] -= 1
        try:
            return key in evaluate(ctx, c, record=False)
        except Exception:
            return False

    cur = {'doc': [[_copy_item(x) for x in p] for p in case['doc']],
           'dump': case.get('dump', 'str'), 'deco': case.get('deco', 0)}
    for k in ('uni', 'big', 'asm', 'mv'):
        if k in case:
            cur[k] = case[k]
    changed = True
    while changed and budget[0] > 0:
        changed = False
        for pi in range(len(cur['doc']) - 1, -1, -1):
            if len(cur['doc']) > 1:
                cand = dict(cur, doc=cur['doc'][:pi] + cur['doc'][pi + 1:])
                if still(cand):
                    cur, changed = cand, True
        for pi in range(len(cur['doc'])):
            fi = len(cur['doc'][pi]) - 1
            while fi >= 0 and len(cur['doc'][pi]) > 1:
                cand = dict(cur, doc=[list(p) for p in cur['doc']])
                del cand['doc'][pi][fi]
                if still(cand):
                    cur, changed = cand, True
                fi -= 1
                fi = min(fi, len(cur['doc'][pi]) - 1)
        for pi in range(len(cur['doc'])):
            for fi in range(len(cur['doc'][pi])):
                if isinstance(cur['doc'][pi][fi], dict):
                    continue
                n, f, cs = cur['doc'][pi][fi]
                for ci in range(len(cs) - 1, -1, -1):
                    cand = dict(cur, doc=[[_copy_item(x) for x in p] for p in cur['doc']])
                    cand['doc'][pi][fi] = [n, f, cs[:ci] + cs[ci + 1:]]
                    if still(cand):
                        cur, changed = cand, True
                        n, f, cs = cur['doc'][pi][fi]
    return cur


def _copy_item(x):
    return dict(x) if isinstance(x, dict) else [x[0], x[1], list(x[2])]


# ---------------------------------------------------------------------------
# framework interface

def cases(ctx):
    r = ctx.rng('docs')
    n = ctx.size(DOCS['quick'], DOCS['thorough'])
    ru = ctx.rng('uni-docs')
    for i in range(n):
        if i % UNI_EVERY == UNI_EVERY - 1:
            # every UNI_EVERY-th random document is a "uni" document (own stream; the others are what they were)
            doc, profile = gen_uni_doc(ru)
            yield {'doc': doc, 'dump': DUMP_MODES[(i // UNI_EVERY + ctx.shard) % 4], 'deco': ru.getrandbits(32),
                   'uni': profile}
            continue
        if i % DOCS_SKIP == 1:
            continue
        yield {'doc': gen_doc(r), 'dump': DUMP_MODES[(i + ctx.shard) % 4], 'deco': r.getrandbits(32)}
    for i, doc in grid_docs():
        if ctx.mine(i):
            yield {'doc': doc, 'dump': DUMP_MODES[i % 4], 'deco': i}
    for i, doc, profile in uni_grid_docs():
        if ctx.mine(i):
            yield {'doc': doc, 'dump': DUMP_MODES[(i + i // 4) % 4], 'deco': 500000 + i * 7 + ctx.seed, 'uni': profile}
    # "big" class: the enumerated threshold grid (sizes x placements x shapes; contents vary with VERIF_SEED) + random ones
    for i, doc, cls in big_grid_docs(ctx.seed):
        if ctx.mine(i + ctx.seed):
            yield {'doc': doc, 'dump': DUMP_MODES[(i + i // 4 + ctx.seed) % 4], 'deco': 900000 + i * 11 + ctx.seed, 'big': cls}
    rb = ctx.rng('big-docs')
    for i in range(ctx.size(BIG_DOCS['quick'], BIG_DOCS['thorough'])):
        for _ in range(20):
            doc, cls = gen_big_doc(rb, ctx.quick)
            if in_domain(expand_doc(doc)):
                break
        yield {'doc': doc, 'dump': DUMP_MODES[(i + ctx.shard) % 4], 'deco': rb.getrandbits(32), 'big': cls}
    # "asm" class: documents of 2..5 paragraphs written paragraph by paragraph (enumerated last-field grid + random ones)
    for i, doc in asm_grid_docs(ctx.seed):
        if ctx.mine(i + ctx.seed):
            yield {'doc': doc, 'asm': 1, 'deco': 1300000 + i * 13 + ctx.seed}
    ra = ctx.rng('asm-docs')
    for i in range(ctx.size(ASM_DOCS['quick'], ASM_DOCS['thorough'])):
        yield {'doc': gen_asm_doc(ra, i), 'asm': 1, 'deco': ra.getrandbits(32)}
    # "mv" class: Dsc / Changes shaped documents - structured fields in every layout, text fields mentioning armour words
    for i, doc in mv_grid_docs(ctx.seed, not ctx.quick):
        if ctx.mine(i + ctx.seed):
            yield {'doc': doc, 'dump': DUMP_MODES[(i + i // 4 + ctx.seed) % 4], 'deco': 1700000 + i * 17 + ctx.seed, 'mv': 'layout-grid'}
    for i, doc in armor_grid_docs(ctx.seed):
        if ctx.mine(i + ctx.seed + 1):
            yield {'doc': doc, 'dump': DUMP_MODES[(i + ctx.seed) % 4], 'deco': 2100000 + i * 19 + ctx.seed, 'mv': 'armour-word-grid'}
    rm = ctx.rng('mv-docs')
    for i in range(ctx.size(MV_DOCS['quick'], MV_DOCS['thorough'])):
        for _ in range(20):
            doc = gen_mv_doc(rm)
            if in_domain(doc, True):
                break
        yield {'doc': doc, 'dump': DUMP_MODES[(i + ctx.shard) % 4], 'deco': rm.getrandbits(32), 'mv': 'random'}


def run_case(ctx, case):
    compact = case['doc']
    doc = expand_doc(compact)
    if not in_domain(doc, bool(case.get('mv'))):
        ctx.count('skipped:out-of-domain')
        return
    if case.get('big'):
        ctx.count('doc:big')
        ctx.count('big:class:%s' % case['big'])
    if case.get('mv'):
        ctx.count('doc:mv')
        ctx.count('mv:source:%s' % case['mv'])
    if case.get('asm'):
        ctx.count('doc:asm')
    else:
        ctx.count('doc:paragraphs>=2' if len(doc) >= 2 else 'doc:paragraphs=1')
    ctx.count('doc:fields', sum(len(p) for p in doc))
    # ("asm" documents have >= 2 paragraphs: non-trivial by the rule; they do not feed the feat:* counters of the form grid)
    if (len(doc) >= 2) if case.get('asm') else features(ctx, doc):
        ctx.nontrivial(case, key=core.case_hash(compact))
    if case.get('uni'):
        ctx.count('doc:uni')
    found = evaluate(ctx, case)
    for key, (msg, n) in sorted(found.items()):
        small = case
        if ctx.viol_count[key] < core.MAX_WITNESS_PER_KEY and not ctx.replay:
            small = shrink(ctx, case, key)
            if small != case:
                again = evaluate(ctx, small, record=False)
                if key in again:
                    msg = again[key][0]
                else:
                    small = case
        ctx.violation(key, msg, small)


LEVEL_TEXT = ('Runtime monitoring of the live Deb822 / iter_paragraphs / Dsc / Changes code: seeded model documents '
              '(2.45k quick / 160k thorough random, with character profiles any / latin-1 / cp1252 / ASCII, + an enumerated '
              'hostile-first-line x hostile-continuation grid + every admissible first character of a field name + a "big" class: '
              'entries of 4096..65536 bytes at the buffer-size thresholds, 200+ fields, 10k-140k character lines, 1000+ '
              'continuation lines) are built through __setitem__, written by the library through EVERY output route (dump() '
              'str, dump(fd) binary in memory and into real files with default / no / odd buffers, dump(fd, text_mode=True) into '
              'StringIO / TextIOWrapper / a real text file, str(p), bytes(p); get_as_string per field) and re-read '
              'through every input-form class (6 in-memory containers + real text file objects with a declared encoding - '
              'TextIOWrapper and disk files in utf-8, iso-8859-1/latin-1, cp1252, utf-16 - + a real binary file, x '
              'plain/clearsign armour x comments x leading blank lines x API); every re-read is compared with the model '
              'document itself.  Held-on-observed: reach is the workload; the in-memory form classes are covered completely '
              'for every document ("big" documents: every output route, a rotating third of the form grid), the real-file forms rotate over the cells of the form grid (each encoding family is seen '
              'through both kinds within one document), the documents are sampled.  "asm" class: documents of 2..5 paragraphs written PARAGRAPH BY PARAGRAPH through 15 '
              'assembly routes (paragraph text of one output route + the separator newline into a value or ONE shared stream / real '
              'file; "\\n".join; mixed routes) are re-read whole through the input forms x Deb822 / Dsc / Changes .iter_paragraphs; floors '
              'per (assembly route x API).')
LEVEL_NOTE = ('Trusted: CPython (incl. its codecs and io layer), the model (first line trimmed of space/tab + verbatim '
              'continuation lines), the armour/comment decorators.  Domain excludes names starting with #/-, line-breaking '
              'control characters inside values, whitespace-only continuation lines, armour around more than one paragraph, '
              'python-apt, files opened with an encoding other than the one they were written in.  Not judged (counted '
              'only, the live tree disagrees there): Dsc/Changes on a text file object whose declared encoding is not UTF-8 '
              'unless the text is pure ASCII in an ASCII-compatible 8-bit encoding; two output routes whose TEXTS differ while both '
              're-read as the model (never seen on the live tree); Dsc/Changes.iter_paragraphs on a text file object whose declared '
              'encoding is not UTF-8 (the live tree returns mojibake / raises there - see ASSUMPTIONS).')
TECHNIQUE = ('runtime monitoring: boundary history-vs-model oracle M (the model document vs what every input-form class '
             're-reads from the library\'s own dump); anchor reach via sys.monitoring')
