"""C04 - well-formed debian/changelog texts round-trip byte-for-byte through
debian.changelog.Changelog (strict parse, no warning, str() == input) and the
parsed blocks expose exactly what was written, in file order.

Deciding monitor M (boundary oracle): a seeded generator emits a *structured
model* of a changelog (the case itself: package, version, distributions,
urgency, urgency comment, extra key=values in order, body lines, maintainer,
e-mail, date, blank-line layout).  ``render`` turns the model into the text T
by the deb-changelog(5) grammar quoted in the property statement - it is the
only "reference implementation" needed and shares nothing with the library.
Every case is pushed through the real ``Changelog`` in every input form (str,
bytes, list of lines with/without newline, list of bytes lines, text and binary
file objects, a one-shot iterator, and ``Changelog().parse_changelog``) under
``warnings.catch_warnings(record=True)``; the oracle then compares str(cl) with
T byte for byte and every block attribute with the model.

Violations are keyed by mechanism (which parser complaint, which class of line
differs in the output, which attribute differs), shrunk to a small model that
still shows the same mechanism, and replayable.
"""
import collections
import datetime
import io
import re
import warnings

from ..models import dpkgver
from .c03 import gen_version

PROP = 'C04'
LEVEL = 'exploration'
RULE = ('Each case is a structured changelog model (1..5 blocks; package over [a-z0-9][-+.a-z0-9]+, dpkg-valid '
        'version, 1..3 distributions incl. dots/plus/dashes/upper case, urgency in any case with optional comment, '
        '0..2 extra key=value, change lines with non-ASCII/#/:/look-alike headers and trailers, 0..2 blank lines '
        'after the header / between changes / before the trailer / between blocks / leading, trailer names with '
        'parentheses/dots/non-ASCII, dates with and without weekday, 1- and 2-digit days, both zone signs) rendered '
        'to text by the statement\'s grammar and parsed in every input form, plus a fixed one-feature-at-a-time '
        'matrix.  A case is non-trivial when it has >= 2 blocks, or an urgency comment, or extra key=values, or a '
        'blank line between two change lines of one block.')
ASSUMPTIONS = [
    'the generator + render() emit only texts of the deb-changelog(5) grammar quoted in the statement: single spaces in '
    'the header, lower-case "urgency" keyword, ", " between key=value items, two spaces before the date, empty '
    '(not whitespace-only) blank lines, text ends with a newline; every case is re-validated by an independent '
    'grammar check before it is executed (a case outside the grammar marks the run inconclusive, never violated)',
    'urgency comments and key=value values contain no comma (comma is the metadata separator in deb-changelog(5))',
    'versions are strings dpkg accepts (vp.models.dpkgver.classify == accept)',
    'the urgency comment is compared modulo surrounding whitespace (the library stores the separating space with it); '
    'change lines are compared after dropping blank lines (the library keeps in-block blank lines in changes())',
    'change text may contain the non-LF Unicode/ASCII line boundaries U+000C, U+0085, U+2028, U+2029: a line of a '
    'changelog ends at LF only (dpkg-parsechangelog); disagreements caused by them are reported under their own key',
    'input encoding is UTF-8 (library default)',
]
ANCHORS = ['debian.changelog:Changelog.parse_changelog',
           'debian.changelog:Changelog._format',
           'debian.changelog:ChangeBlock._format',
           'debian.changelog:Changelog.__init__',
           'debian.changelog:ChangeBlock._get_version',
           'debian.changelog:ChangeBlock.changes',
           'debian.changelog:Changelog._parse_error']
MUST_REACH = ['debian.changelog:Changelog.parse_changelog',
              'debian.changelog:Changelog._format',
              'debian.changelog:ChangeBlock._format']

TEXTS = {'quick': 16000, 'thorough': 600000}     # random models, total over all shards

FLOORS = {
    # ~50% of what a run on the current tree measures (quick: 16353 cases; thorough: 600353 cases)
    'quick': {'nontrivial': 7000,
              'monitors': {'M': 73000, 'M.attrs': 170000},
              'counters': {'feat:urgency-comment': 4700, 'feat:extra-kv': 5600, 'feat:extra-kv-2': 1800,
                           'feat:multi-dist': 9500, 'feat:pkg-dot': 7000, 'feat:dist-dot': 5400,
                           'feat:dist-uppercase': 7500, 'feat:urgency-uppercase': 9000, 'feat:day-1digit': 3400,
                           'feat:no-weekday': 4700, 'feat:zone-minus': 9500, 'feat:lead-blank': 3100,
                           'feat:inner-blank': 5900, 'feat:no-blank-after-header': 3000,
                           'feat:no-blank-before-trailer': 3000, 'feat:nonascii-change': 16000,
                           'feat:hash-or-colon': 16000, 'feat:hostile-maintainer-name': 12000,
                           'feat:multi-block': 5000, 'feat:non-LF-line-boundary-in-change': 250,
                           'form:str': 8000, 'form:bytes': 8000, 'form:lines': 8000, 'form:lines-nl': 8000,
                           'form:blines': 8000, 'form:file': 8000, 'form:bfile': 8000, 'form:iter': 8000,
                           'form:method': 8000, 'matrix': 170}},
    'thorough': {'nontrivial': 250000,
                 'monitors': {'M': 2700000, 'M.attrs': 6000000},
                 'counters': {'feat:urgency-comment': 170000, 'feat:extra-kv': 200000, 'feat:extra-kv-2': 60000,
                              'feat:multi-dist': 340000, 'feat:pkg-dot': 250000, 'feat:dist-dot': 190000,
                              'feat:dist-uppercase': 270000, 'feat:urgency-uppercase': 320000,
                              'feat:day-1digit': 120000, 'feat:no-weekday': 170000, 'feat:zone-minus': 340000,
                              'feat:lead-blank': 110000, 'feat:inner-blank': 210000,
                              'feat:no-blank-after-header': 100000, 'feat:no-blank-before-trailer': 100000,
                              'feat:nonascii-change': 450000, 'feat:hash-or-colon': 450000,
                              'feat:hostile-maintainer-name': 430000, 'feat:multi-block': 180000,
                              'feat:non-LF-line-boundary-in-change': 8000,
                              'form:str': 300000, 'form:bytes': 300000, 'form:lines': 300000,
                              'form:lines-nl': 300000, 'form:blines': 300000, 'form:file': 300000,
                              'form:bfile': 300000, 'form:iter': 300000, 'form:method': 300000, 'matrix': 170}},
}

# ---------------------------------------------------------------------------
# grammar (render + independent validity check of a model)

URGENCIES = ('low', 'medium', 'high', 'emergency', 'critical')
WEEKDAYS = ('Mon', 'Tue', 'Wed', 'Thu', 'Fri', 'Sat', 'Sun')
MONTHS = ('Jan', 'Feb', 'Mar', 'Apr', 'May', 'Jun', 'Jul', 'Aug', 'Sep', 'Oct', 'Nov', 'Dec')
# characters other than LF at which str.splitlines() breaks a line; allowed in change text only
NON_LF_BREAKS = '\x0c\x85\u2028\u2029'
# never generated anywhere (CR and the remaining splitlines() boundaries): outside the exercised grammar
FORBIDDEN = '\n\r\x0b\x1c\x1d\x1e'

G_PKG = re.compile(r'[a-z0-9][a-z0-9+.-]+\Z', re.ASCII)
G_DIST = re.compile(r'[A-Za-z0-9+.-]+\Z', re.ASCII)
G_KEY = re.compile(r'[A-Za-z0-9-]+\Z', re.ASCII)
G_EMAIL = re.compile(r'[^\s<>]+\Z')
G_DATE = re.compile(r'((%s), )?\d{1,2} (%s) \d{4} \d\d:\d\d:\d\d [+-]\d{4}\Z' % ('|'.join(WEEKDAYS), '|'.join(MONTHS)),
                    re.ASCII)

FORMS = ('str', 'bytes', 'lines', 'lines-nl', 'blines', 'file', 'bfile', 'iter', 'method')
SPLITTING_FORMS = ('str', 'bytes', 'method')   # the library splits the text into lines itself


def _plain(s, allow_breaks=False):
    """No line terminator (and no exotic line boundary unless allowed) inside a single-line item."""
    bad = FORBIDDEN if allow_breaks else FORBIDDEN + NON_LF_BREAKS
    return isinstance(s, str) and not any(c in s for c in bad)


def grammar_problem(case):
    """Independent check that a model is inside the grammar of the statement.
    Returns None when it is, else a short reason."""
    try:
        if case.get('kind') != 'cl':
            return 'unknown kind'
        if not isinstance(case.get('lead', 0), int) or not 0 <= case.get('lead', 0) <= 4:
            return 'lead'
        if case.get('form') is not None and case['form'] not in FORMS:
            return 'form'
        blocks = case['blocks']
        if not blocks:
            return 'no blocks'
        for i, b in enumerate(blocks):
            if not (isinstance(b['p'], str) and G_PKG.match(b['p'])):
                return 'package'
            if not (isinstance(b['v'], str) and dpkgver.classify(b['v']) == 'accept' and b['v'][0] in '0123456789'):
                return 'version'
            if not b['d'] or not all(isinstance(d, str) and G_DIST.match(d) for d in b['d']):
                return 'distributions'
            if not (isinstance(b['u'], str) and b['u'].lower() in URGENCIES):
                return 'urgency'
            c = b.get('c', '')
            if c and not (_plain(c) and c == c.strip() and ',' not in c and '  ' not in c and '\t' not in c):
                return 'urgency comment'
            seen = set(['urgency'])
            for k, v in b.get('kv', []):
                if not (isinstance(k, str) and G_KEY.match(k)) or k.lower() in seen:
                    return 'key'
                seen.add(k.lower())
                if not (_plain(v) and v and v == v.strip() and ',' not in v and '  ' not in v and '\t' not in v):
                    return 'value'
            nchange = 0
            for l in b['body']:
                if l == '':
                    continue
                if not (_plain(l, allow_breaks=True) and l.startswith('  ') and l.strip()):
                    return 'change line'
                # a change line must still look like one after any line boundary is ignored
                nchange += 1
            if nchange < 1:
                return 'no change line'
            if not (_plain(b['n']) and b['n'] and b['n'] == b['n'].strip() and '<' not in b['n'] and '>' not in b['n']):
                return 'maintainer name'
            if not (isinstance(b['e'], str) and G_EMAIL.match(b['e']) and _plain(b['e'])):
                return 'email'
            if not (isinstance(b['dt'], str) and G_DATE.match(b['dt'])):
                return 'date'
            gap = b.get('gap', 0)
            last = i == len(blocks) - 1
            if not isinstance(gap, int) or (last and gap != 0) or (not last and not 1 <= gap <= 4):
                return 'gap'
    except (KeyError, TypeError, ValueError, IndexError) as e:
        return 'malformed model (%s)' % type(e).__name__
    return None


def header(b):
    s = '%s (%s) %s; urgency=%s' % (b['p'], b['v'], ' '.join(b['d']), b['u'])
    if b.get('c'):
        s += ' ' + b['c']
    for k, v in b.get('kv', []):
        s += ', %s=%s' % (k, v)
    return s


def trailer(b):
    return ' -- %s <%s>  %s' % (b['n'], b['e'], b['dt'])


def render(case):
    lines, classes = [], []
    for _ in range(case.get('lead', 0)):
        lines.append('')
        classes.append('leading-blank-line')
    for b in case['blocks']:
        lines.append(header(b))
        classes.append('header-line')
        for l in b['body']:
            lines.append(l)
            classes.append('change-line' if l else 'blank-line-in-block')
        lines.append(trailer(b))
        classes.append('trailer-line')
        for _ in range(b.get('gap', 0)):
            lines.append('')
            classes.append('blank-line-between-blocks')
    return '\n'.join(lines) + '\n', lines, classes


def is_nontrivial(case):
    if len(case['blocks']) >= 2:
        return True
    for b in case['blocks']:
        if b.get('c') or b.get('kv'):
            return True
        if inner_blank(b):
            return True
    return False


def inner_blank(b):
    body = b['body']
    idx = [i for i, l in enumerate(body) if l != '']
    return bool(idx) and any(l == '' for l in body[idx[0]:idx[-1]])


# ---------------------------------------------------------------------------
# generators

PKG_POOL = ['hello', 'libfoo-dev', 'g++-12', 'libstdc++6', 'python3.11', 'a0', '0ad', '4g8', 'x.y', 'a+b', 'lib-x.y+z',
            'gtk+3.0', 'a.', 'a-', 'a+', 'z..', '9base', 'linux-image-6.1.0-13-amd64']
DIST_POOL = ['unstable', 'stable', 'experimental', 'UNRELEASED', 'sid', 'bookworm-backports', 'stable-security',
             'a.b', 'x+y', 'jessie-backports-sloppy', '0', 'Bionic', 'trixie-proposed-updates', 'X.Y-z+1', 'oldstable',
             'frozen', 'testing-proposed-updates', '6.0', 'a-', 'b.', 'c+']
VERSION_POOL = ['1', '1.0-1', '2:1.0~rc1-1+b1', '0.9.8zh-1', '1.2.3+dfsg', '1:2:3', '1.0-1~bpo8+1', '0', '0~', '1-1-1',
                '20230101', '1.0+git20200101.abcdef-0ubuntu1~18.04.1', '5:7.0.10-2+deb12u1', '1A', '0:0']
COMMENT_POOL = ['(HIGH for foo)', '(security fix)', 'x', '(a; b=c)', '(\u00e9)', '(see #123: urgent)',
                'really (no kidding)', '(medium)', 'urgency=high', '(fixes CVE-2020-1; RC bug)', '-', '(']
KEY_POOL = ['binary-only', 'Binary-Only', 'x-foo', 'XS-Bar', 'k', 'a-1', '0', 'closes', 'BINARY-ONLY', 'Urgenc',
            'urgency-x', '-', 'xb-tag']
VALUE_POOL = ['yes', 'no', 'a b', '1.0~x', '\u00e9', 'x=y', '(z)', 'a;b', 'low (x)', '#1', 'a: b', 'YES', '0']
NAME_POOL = ['A B', 'Zo\u00eb Q. X', 'a', 'A (x) B', 'Dr. J. R. "Bob" Dobbs', '\u674e \u96f7', "O'Brien-Smith", 'Doe, John',
             'x.y', 'Debian QA Group', 'J\u00f6rg M\u00fcller (work)', 'A. B. C.', 'a@b', '\U0001f600 Smiley', 'M. (Jr.)']
EMAIL_POOL = ['a@b.c', 'x@y', 'packages@qa.debian.org', 'x+y@z.org', 'j\u00f6rg@example.org', 'first.last@sub.example.co.uk',
              'me@[127.0.0.1]']
CHANGE_PREFIX = ['  * ', '  * ', '  * ', '    ', '    ', '   - ', '  ', '  + ', '     * ', '    - ', '  o ']
CHANGE_ALPHA = 'ab c:#\u00e9\u6f22-*.'
CHANGE_ALPHA_WIDE = 'abcxyzABC 0189 :#\u00e9\u6f22\u00df\u00a0\u0301\U0001f600-*.,;=()<>[]/\\\'"@$%&~!?|\t_+'
HOSTILE_CHANGES = [
    'hello (1.0-1) unstable; urgency=low',
    '-- A B <a@b.c>  Mon, 01 Jan 2020 00:00:00 +0000',
    ' -- A B <a@b.c>  Mon, 01 Jan 2020 00:00:00 +0000',
    '--',
    '# comment',
    '#',
    '$Id: changelog 1 $',
    '/* C comment */',
    'vim: set ft=changelog:',
    'Local variables:',
    ';; Local variables:',
    'Closes: #123, #456',
    'closes: bug#1, Bug #2',
    'LP: #12345',
    'Old Changelog:',
    'Changes from version 1 to 2:',
    'Mon Jan  1 00:00:00 2001 A B <a@b>',
    'urgency=high, binary-only=yes',
    'key=value; x',
    'a: b: c',
    '[ Somebody Else ]',
    '* nested bullet',
    'text with trailing colon:',
    'tab\there',
    '\u00a0non-breaking start',
    '\u3000ideographic space',
    '\u200bzero width',
    'ends with backslash \\',
    '%s %d {0}',
]
SECTION_LINES = ['  [ X ]', '  [ Zo\u00eb Q. X ]', '  [ A (x) B ]', '  [ a@b ]']


def gen_pkg(r):
    if r.random() < 0.35:
        return r.choice(PKG_POOL)
    n = r.choice([1, 1, 2, 3, 5, 8, 14])
    return r.choice('abcxyz0129') + ''.join(r.choice('abz019.+-') for _ in range(n))


def gen_ver(r):
    if r.random() < 0.3:
        return r.choice(VERSION_POOL)
    for _ in range(50):
        v = gen_version(r)
        if dpkgver.classify(v) == 'accept' and v[0] in '0123456789':
            return v
    return '1.0-1'


def gen_dist(r):
    if r.random() < 0.7:
        return r.choice(DIST_POOL)
    return r.choice('abzABZ019') + ''.join(r.choice('abzABZ019.+-') for _ in range(r.choice([0, 1, 3, 7])))


def gen_case_mix(r, s):
    k = r.random()
    if k < 0.5:
        return s
    if k < 0.7:
        return s.upper()
    if k < 0.8:
        return s.capitalize()
    return ''.join(c.upper() if r.random() < 0.5 else c for c in s)


def gen_words(r, alphabet, maxwords=3):
    words = []
    for _ in range(r.randint(1, maxwords)):
        words.append(''.join(r.choice(alphabet) for _ in range(r.randint(1, 6))))
    return ' '.join(words)


def gen_comment(r):
    if r.random() < 0.6:
        return r.choice(COMMENT_POOL)
    return gen_words(r, 'abXY01()#:;=.\u00e9-')


def gen_kv(r):
    out, seen = [], set(['urgency'])
    for _ in range(r.choice([1, 1, 2])):
        for _try in range(10):
            if r.random() < 0.7:
                k = r.choice(KEY_POOL)
            else:
                k = ''.join(r.choice('abzABZ019-') for _ in range(r.randint(1, 8)))
            if k.lower() not in seen:
                break
        else:
            continue
        seen.add(k.lower())
        v = r.choice(VALUE_POOL) if r.random() < 0.7 else gen_words(r, 'abXY01()#:;=.\u00e9-~+', 2)
        out.append([k, v])
    return out


def gen_change(r, wide):
    k = r.random()
    if k < 0.06:
        return r.choice(SECTION_LINES)
    prefix = r.choice(CHANGE_PREFIX)
    if k < 0.22:
        text = r.choice(HOSTILE_CHANGES)
    else:
        alpha = CHANGE_ALPHA_WIDE if (wide and r.random() < 0.5) else CHANGE_ALPHA
        text = ''.join(r.choice(alpha) for _ in range(r.randint(1, 30)))
    if r.random() < 0.006:
        # a non-LF line boundary in the middle of the change text
        pos = r.randint(0, len(text))
        tail = r.choice(['', '', '  ', ' -- '])
        text = text[:pos] + r.choice(NON_LF_BREAKS) + tail + text[pos:]
    line = prefix + text
    if r.random() < 0.05:
        line += r.choice([' ', '  ', '\t'])
    if not line.strip():
        line = prefix + 'x'
    return line


def gen_date(r):
    d = datetime.date(1990, 1, 1) + datetime.timedelta(days=r.randrange(0, 17000))
    day = '%d' % d.day if (d.day < 10 and r.random() < 0.6) else '%02d' % d.day
    s = '%s %s %d %02d:%02d:%02d %s%02d%s' % (day, MONTHS[d.month - 1], d.year, r.randrange(24), r.randrange(60),
                                             r.randrange(61) if r.random() < 0.02 else r.randrange(60),
                                             r.choice('+-'), r.randrange(15), r.choice(['00', '00', '30', '45']))
    if r.random() < 0.75:
        s = '%s, %s' % (WEEKDAYS[d.weekday()], s)
    return s


def gen_block(r, wide):
    b = {'p': gen_pkg(r), 'v': gen_ver(r),
         'd': [gen_dist(r) for _ in range(r.choice([1, 1, 1, 2, 2, 3]))],
         'u': gen_case_mix(r, r.choice(URGENCIES)), 'c': '', 'kv': [], 'gap': 0}
    if r.random() < 0.25:
        b['c'] = gen_comment(r)
    if r.random() < 0.3:
        b['kv'] = gen_kv(r)
    body = [''] * r.choice([1, 1, 1, 1, 0, 2])
    n = r.choice([1, 1, 2, 2, 3, 4, 5])
    for i in range(n):
        body.append(gen_change(r, wide))
        if i < n - 1 and r.random() < 0.25:
            body.extend([''] * r.choice([1, 1, 2]))
    body.extend([''] * r.choice([1, 1, 1, 1, 0, 2]))
    b['body'] = body
    b['n'] = r.choice(NAME_POOL) if r.random() < 0.8 else gen_words(r, 'abAB.()\u00e9\u6f22-\'', 3).strip() or 'A'
    if b['n'] != b['n'].strip() or not b['n']:
        b['n'] = 'A B'
    b['e'] = r.choice(EMAIL_POOL)
    b['dt'] = gen_date(r)
    return b


def gen_model(r, wide):
    nb = r.choice([1, 1, 1, 2, 2, 3, 4, 5])
    blocks = [gen_block(r, wide) for _ in range(nb)]
    for b in blocks[:-1]:
        b['gap'] = r.choice([1, 1, 1, 2])
    return {'kind': 'cl', 'lead': r.choice([0, 0, 0, 1, 2]), 'blocks': blocks}


BASE = {'p': 'hello', 'v': '1.0-1', 'd': ['unstable'], 'u': 'low', 'c': '', 'kv': [],
        'body': ['', '  * change', ''], 'n': 'A B', 'e': 'a@b.c', 'dt': 'Mon, 06 Jan 2020 01:02:03 +0000', 'gap': 0}


def matrix():
    """Fixed one-feature-at-a-time models (same for every seed and tier)."""
    out = []

    def one(**kw):
        b = dict(BASE)
        b.update(kw)
        out.append({'kind': 'cl', 'lead': 0, 'blocks': [b]})

    for p in PKG_POOL + ['ab', 'a0', '0a', 'a.b', 'a+b', 'a-b', 'a.b.c', 'a--', 'a++', 'z9.', 'ab.', '9.9']:
        one(p=p)
    for v in VERSION_POOL:
        one(v=v)
    for d in DIST_POOL:
        one(d=[d])
    one(d=['unstable', 'stable'])
    one(d=['a.b', 'c.d', 'e-f'])
    one(d=['UNRELEASED', 'x+y', '0'])
    for u in URGENCIES:
        for f in (str.lower, str.upper, str.capitalize, str.swapcase):
            one(u=f(u.capitalize()))
    for c in COMMENT_POOL:
        one(c=c)
        one(c=c, kv=[['binary-only', 'yes']])
    for k in KEY_POOL:
        one(kv=[[k, 'yes']])
    for v in VALUE_POOL:
        one(kv=[['binary-only', v]])
    one(kv=[['binary-only', 'yes'], ['x-foo', 'a b']])
    one(kv=[['x-foo', 'bar'], ['binary-only', 'yes']])
    one(kv=[['b', '2'], ['a', '1']], c='(why not)')
    for n in NAME_POOL:
        one(n=n)
    for e in EMAIL_POOL:
        one(e=e)
    dow = {0: 'Mon', 1: 'Tue', 2: 'Wed', 3: 'Thu', 4: 'Fri', 5: 'Sat', 6: 'Sun'}
    for i in range(7):
        one(dt='%s, %d Jan 2020 01:02:03 +0000' % (dow[(2 + i) % 7], 1 + i))       # 1 Jan 2020 was a Wednesday
        one(dt='%s, %02d Jan 2020 01:02:03 +0000' % (dow[(2 + i) % 7], 1 + i))
    for m in MONTHS:
        one(dt='15 %s 2021 23:59:59 -0330' % m)
        one(dt='1 %s 2021 00:00:00 +1400' % m)
    for dt in ['7 Feb 1999 12:00:00 -0000', '07 Feb 1999 12:00:00 -1200', 'Sun, 7 Feb 1999 12:00:00 +0530',
               'Sun, 07 Feb 1999 12:00:60 +0000', 'Fri, 31 Dec 2038 23:59:59 -0800']:
        one(dt=dt)
    for text in HOSTILE_CHANGES:
        for prefix in ('  ', '  * ', '    '):
            one(body=['', prefix + text, ''])
    for l in SECTION_LINES:
        one(body=['', l, '  * change', ''])
    one(body=['', '  * trailing space ', ''])
    one(body=['', '  * trailing tab\t', ''])
    for a in range(3):
        for z in range(3):
            for inner in range(3):
                one(body=[''] * a + ['  * first'] + [''] * inner + ['    second'] + [''] * z)
            one(body=[''] * a + ['  * only'] + [''] * z)
    for ch in NON_LF_BREAKS:
        one(body=['', '  * before' + ch + 'after', ''])
        one(body=['', '  * before' + ch + '  after', ''])
    # multi-block layouts
    for lead in range(3):
        for gap in (1, 2):
            b1 = dict(BASE, v='2.0-1', gap=gap, body=['', '  * newer', ''])
            b2 = dict(BASE, v='1.0-1', d=['stable'], u='HIGH', n='Zo\u00eb Q. X', body=['', '  * older', ''])
            out.append({'kind': 'cl', 'lead': lead, 'blocks': [b1, b2]})
    b = [dict(BASE, v='%d' % (5 - i), gap=1, body=['', '  * entry %d' % i, '']) for i in range(5)]
    b[-1]['gap'] = 0
    out.append({'kind': 'cl', 'lead': 1, 'blocks': b})
    # same version / same package twice: blocks must stay in file order, not be merged or sorted
    b1 = dict(BASE, gap=1, body=['', '  * first copy', ''])
    b2 = dict(BASE, body=['', '  * second copy', ''])
    out.append({'kind': 'cl', 'lead': 0, 'blocks': [b1, b2]})
    b1 = dict(BASE, v='1.0-1', gap=1, body=['', '  * ascending 1', ''])
    b2 = dict(BASE, v='2.0-1', p='other', body=['', '  * ascending 2', ''])
    out.append({'kind': 'cl', 'lead': 0, 'blocks': [b1, b2]})
    return out


def cases(ctx):
    for i, m in enumerate(matrix()):
        if ctx.mine(i):
            m['matrix'] = 1
            yield m
    r = ctx.rng('models')
    wide = ctx.tier == 'thorough'
    for _ in range(ctx.size(TEXTS['quick'], TEXTS['thorough'])):
        yield gen_model(r, wide or r.random() < 0.3)


# ---------------------------------------------------------------------------
# driving the library + oracle

def build_input(form, text, lines):
    if form in ('str', 'method'):
        return text
    if form == 'bytes':
        return text.encode('utf-8')
    if form == 'lines':
        return list(lines)
    if form == 'lines-nl':
        return [l + '\n' for l in lines]
    if form == 'blines':
        return [(l + '\n').encode('utf-8') for l in lines]
    if form == 'file':
        return io.StringIO(text, newline='\n')
    if form == 'bfile':
        return io.BytesIO(text.encode('utf-8'))
    if form == 'iter':
        return (l for l in lines)
    raise ValueError(form)


def classify_parse_error(msg):
    """ChangelogParseError text -> mechanism slug (the parser's own complaint class)."""
    m = msg
    if m.startswith('Could not parse changelog: '):
        m = m[len('Could not parse changelog: '):]
    for head, slug in (('Unexpected line while looking for first heading', 'unexpected-line-before-first-heading'),
                       ('Unexpected line while looking for next heading', 'unexpected-line-after-trailer'),
                       ('Unexpected line while looking for start of change data', 'unexpected-line-after-header'),
                       ('Unexpected line while looking for more change data or trailer', 'unexpected-line-in-changes'),
                       ('Invalid key-value pair', 'invalid-key-value'),
                       ('Repeated key-value', 'repeated-key-value'),
                       ('Badly formatted urgency value', 'bad-urgency-value'),
                       ('Badly formatted trailer line', 'bad-trailer-line'),
                       ('Found eof where expected', 'premature-eof'),
                       ('Empty changelog file', 'empty-file')):
        if m.startswith(head):
            return slug
    return 'other'


def _r(x, n=300):
    s = repr(x)
    return s if len(s) <= n else s[:n] + '...'


def check_form(case, form, text, lines, classes, stats, input_lines=None):
    """Parse `text` in one input form and compare with the model.  Returns a list of (key, msg).
    `input_lines` (classifier use only) overrides how the text is cut into lines for the line-based forms."""
    from debian import changelog as dc
    out = []
    data = build_input(form, text, lines if input_lines is None else input_lines)
    try:
        with warnings.catch_warnings(record=True) as caught:
            warnings.simplefilter('always')
            if form == 'method':
                cl = dc.Changelog()
                cl.parse_changelog(data, strict=True)
            else:
                cl = dc.Changelog(data, strict=True)
    except dc.ChangelogParseError as e:
        return [('strict-parse-rejects-wellformed/' + classify_parse_error(str(e)),
                 '[%s] strict parse of a well-formed changelog raised: %s' % (form, _r(str(e))))]
    except Exception as e:      # any other exception escaping the parser
        return [('parse-raises/' + type(e).__name__, '[%s] %s: %s' % (form, type(e).__name__, _r(str(e))))]
    if caught:
        out.append(('parse-warns-on-wellformed/' + classify_parse_error(str(caught[0].message)),
                    '[%s] strict parse warned: %s' % (form, _r(str(caught[0].message)))))
    return out + judge_object(cl, case, form, text, lines, classes, stats)


def block_problems(b, g):
    """[(attribute name, written, parsed)] for one model block `b` and one live block `g`."""
    want = (('package', b['p'], g.package),
            ('version', b['v'], str(g.version)),
            ('distributions', ' '.join(b['d']), g.distributions),
            ('urgency', b['u'], g.urgency),
            ('urgency-comment', b.get('c', ''), (g.urgency_comment or '').strip()),
            ('extra-key-values', [list(x) for x in b.get('kv', [])], [list(x) for x in g.other_pairs.items()]),
            ('change-lines', [l for l in b['body'] if l != ''], [l for l in g.changes() if l.strip() != '']),
            ('author', '%s <%s>' % (b['n'], b['e']), g.author),
            ('date', b['dt'], g.date))
    return [(name, w, have) for name, w, have in want if w != have]


def judge_object(cl, case, form, text, lines, classes, stats):
    """The boundary oracle on one live Changelog object that is supposed to hold exactly the model `case`
    (text/lines/classes = render(case)).  `form` only labels the messages.  Returns a list of (key, msg)."""
    out = []
    # -- byte-for-byte
    try:
        got = str(cl)
    except Exception as e:
        return out + [('str-raises/' + type(e).__name__, '[%s] str(Changelog) raised %s: %s' % (form, type(e).__name__, _r(str(e))))]
    if got != text:
        glines = got.split('\n')
        elines = lines + ['']
        i = 0
        while i < len(glines) and i < len(elines) and glines[i] == elines[i]:
            i += 1
        cls = classes[i] if i < len(classes) else 'end-of-text'
        out.append(('roundtrip-differs/' + cls,
                    '[%s] str(Changelog(T)) != T at line %d: wrote %s, got %s' % (
                        form, i + 1, _r(elines[i] if i < len(elines) else '<end>'), _r(glines[i] if i < len(glines) else '<end>'))))
    # -- blocks and attributes
    blocks = case['blocks']
    try:
        got_blocks = list(cl)
        if len(got_blocks) != len(blocks) or len(cl) != len(blocks):
            out.append(('block-count-differs', '[%s] wrote %d blocks, parsed %d (len() %d)' % (form, len(blocks), len(got_blocks), len(cl))))
            return out
        for i, (b, g) in enumerate(zip(blocks, got_blocks)):
            if stats is not None:
                stats['M.attrs'] += 1
            for name, w, have in block_problems(b, g):
                out.append(('attribute-differs/' + name, '[%s] block %d %s: wrote %s, parsed %s' % (form, i, name, _r(w), _r(have))))
        vs = [str(v) for v in cl.versions]
        if vs != [b['v'] for b in blocks]:
            out.append(('attribute-differs/versions-order', '[%s] Changelog.versions %s, written order %s' % (form, _r(vs), _r([b['v'] for b in blocks]))))
        if cl.package != blocks[0]['p'] or str(cl.version) != blocks[0]['v']:
            out.append(('attribute-differs/first-block-accessors', '[%s] Changelog.package/version = %s/%s, first block written %s/%s' % (
                form, _r(cl.package), _r(str(cl.version)), _r(blocks[0]['p']), _r(blocks[0]['v']))))
    except Exception as e:
        out.append(('attribute-access-raises/' + type(e).__name__, '[%s] reading block attributes raised %s: %s' % (form, type(e).__name__, _r(str(e)))))
    return out


def _unformed(res):
    """Violation list without the '[form] ' message prefix."""
    return [(k, m.split('] ', 1)[-1]) for k, m in res]


def evaluate(case, stats=None):
    """Run one model through every requested input form.  Returns [(key, msg)] with one entry per key."""
    text, lines, classes = render(case)
    forms = [case['form']] if case.get('form') else FORMS
    has_break = any(ch in text for ch in NON_LF_BREAKS)
    found = {}
    for form in forms:
        if stats is not None:
            stats['M'] += 1
            stats['form:' + form] += 1
        res = check_form(case, form, text, lines, classes, stats)
        if res and has_break and form in SPLITTING_FORMS:
            # mechanism test: the disagreement is "the library's own line splitting cut a change line at a
            # non-LF boundary" iff the result differs from what the very same text gives when handed over
            # already split at LF only, and is exactly what the library does with the text pre-cut at every
            # Unicode line boundary (str.splitlines) - same complaints, same lines.  Complaints that the
            # LF-only form shows too keep their own keys.
            as_cut = _unformed(check_form(case, 'lines', text, lines, classes, None, input_lines=text.splitlines()))
            lf_only = _unformed(check_form(case, 'lines', text, lines, classes, None))
            if _unformed(res) != lf_only and _unformed(res) == as_cut:
                first = [m for (k, m) in res if (k, m.split('] ', 1)[-1]) not in lf_only][0]
                res = [(k, m) for (k, m) in res if (k, m.split('] ', 1)[-1]) in lf_only]
                res.append(('text-input-split-at-non-LF-line-boundary',
                            '[%s] change text containing U+000C/U+0085/U+2028/U+2029 is cut into several lines when '
                            'the changelog is given as one str/bytes (not when given as lines or a file): %s' % (form, first)))
        for key, msg in res:
            if key not in found:
                found[key] = [msg, [form]]
            else:
                found[key][1].append(form)
    return [(k, '%s (forms showing it: %s)' % (m, ','.join(fs))) for k, (m, fs) in found.items()]


# ---------------------------------------------------------------------------
# shrinking a witness (keeps the mechanism key)

def _variants(case):
    blocks = case['blocks']
    if len(blocks) > 1:
        for i in range(len(blocks)):
            yield dict(case, blocks=[dict(blocks[i], gap=0)])
        yield dict(case, blocks=[dict(b) for b in blocks[:-2]] + [dict(blocks[-2], gap=0)])
        yield dict(case, blocks=[dict(b) for b in blocks[1:]])
    if case.get('lead'):
        yield dict(case, lead=0)
    if not case.get('form'):
        for f in FORMS:
            yield dict(case, form=f)
    for i, b in enumerate(blocks):
        def sub(**kw):
            nb = [dict(x) for x in blocks]
            nb[i].update(kw)
            return dict(case, blocks=nb)
        if b.get('kv'):
            yield sub(kv=[])
            if len(b['kv']) > 1:
                yield sub(kv=b['kv'][:1])
                yield sub(kv=b['kv'][1:])
        if b.get('c'):
            yield sub(c='')
        if len(b['d']) > 1:
            yield sub(d=b['d'][:1])
            yield sub(d=b['d'][1:])
        for field in ('p', 'v', 'd', 'u', 'n', 'e', 'dt'):
            if b[field] != BASE[field]:
                yield sub(**{field: BASE[field]})
        if b.get('gap', 0) > 1:
            yield sub(gap=1)
        body = b['body']
        if body != BASE['body']:
            yield sub(body=list(BASE['body']))
            for j in range(len(body)):
                nb = body[:j] + body[j + 1:]
                if any(l != '' for l in nb):
                    yield sub(body=nb)
            for j, l in enumerate(body):
                if len(l) > 8:
                    yield sub(body=body[:j] + [l[:4 + (len(l) - 4) // 2]] + body[j + 1:])
                    yield sub(body=body[:j] + [l[:2] + l[2 + (len(l) - 2) // 2:]] + body[j + 1:])


def shrink(case, key, budget=400):
    case = {k: v for k, v in case.items() if k != 'matrix'}
    progress = True
    while progress and budget > 0:
        progress = False
        for cand in _variants(case):
            budget -= 1
            if budget <= 0:
                break
            if grammar_problem(cand) is not None:
                continue
            try:
                keys = [k for k, _m in evaluate(cand)]
            except Exception:
                continue
            if key in keys:
                case = cand
                progress = True
                break
    return case


# ---------------------------------------------------------------------------

def run_case(ctx, case):
    why = grammar_problem(case)
    if why is not None:
        # never accuse the library on a text outside the statement's grammar
        ctx.count('skipped:outside-grammar')
        ctx.inconclusive.append('case outside the C04 grammar (%s) - generator/replay-file problem, not a verdict' % why)
        return
    stats = collections.Counter()
    found = evaluate(case, stats)
    for k, n in stats.items():
        if k.startswith('M'):
            ctx.mon(k, n)
        else:
            ctx.count(k, n)
    if case.get('matrix'):
        ctx.count('matrix')
    note_features(ctx, case)
    if is_nontrivial(case):
        ctx.nontrivial(case)
    for key, msg in found:
        if ctx.viol_count[key] >= 3:
            # already have shrunk witnesses for this mechanism: count only
            ctx.violation(key, msg, {k: v for k, v in case.items() if k != 'matrix'})
            continue
        small = shrink(case, key)
        allforms = {k: v for k, v in small.items() if k != 'form'}
        for k2, m2 in evaluate(allforms):      # message for the shrunk witness, listing every form that shows it
            if k2 == key:
                msg = m2
        text = render(small)[0]
        ctx.violation(key, '%s | witness text: %s' % (msg, _r(text, 700)), small)


def note_features(ctx, case):
    c = ctx.count
    blocks = case['blocks']
    if len(blocks) > 1:
        c('feat:multi-block')
    if case.get('lead'):
        c('feat:lead-blank')
    c('blocks', len(blocks))
    for b in blocks:
        if b.get('c'):
            c('feat:urgency-comment')
        if b.get('kv'):
            c('feat:extra-kv')
            if len(b['kv']) > 1:
                c('feat:extra-kv-2')
        if len(b['d']) > 1:
            c('feat:multi-dist')
        if any('.' in d for d in b['d']):
            c('feat:dist-dot')
        if any(d != d.lower() for d in b['d']):
            c('feat:dist-uppercase')
        if '.' in b['p']:
            c('feat:pkg-dot')
        if '+' in b['p']:
            c('feat:pkg-plus')
        if b['u'] != b['u'].lower():
            c('feat:urgency-uppercase')
        dt = b['dt']
        if ',' not in dt:
            c('feat:no-weekday')
        dom = dt.split(', ')[-1].split(' ')[0]
        if len(dom) == 1:
            c('feat:day-1digit')
        if dt[-5] == '-':
            c('feat:zone-minus')
        if inner_blank(b):
            c('feat:inner-blank')
        if b['body'] and b['body'][0] != '':
            c('feat:no-blank-after-header')
        if b['body'] and b['body'][-1] != '':
            c('feat:no-blank-before-trailer')
        joined = ''.join(b['body'])
        if any(ord(ch) > 127 for ch in joined):
            c('feat:nonascii-change')
        if '#' in joined or ':' in joined:
            c('feat:hash-or-colon')
        if any(ch in joined for ch in NON_LF_BREAKS):
            c('feat:non-LF-line-boundary-in-change')
        if any(ord(ch) > 127 for ch in b['n']) or '(' in b['n'] or '.' in b['n']:
            c('feat:hostile-maintainer-name')
        if ':' in b['v']:
            c('feat:version-epoch')
        if '~' in b['v']:
            c('feat:version-tilde')


LEVEL_TEXT = ('Runtime monitoring: 1.6e4 (quick) / 6e5 (thorough) seeded structured changelog models plus a fixed '
              'one-feature-at-a-time matrix (353 models) are rendered to text by the grammar of the statement and pushed '
              'through the live debian.changelog.Changelog in nine input forms (str, bytes, line lists with/without '
              'newline, bytes lines, text/binary file objects, iterator, Changelog().parse_changelog) with strict=True '
              'under warnings.catch_warnings(record=True); the boundary oracle requires no exception, no warning, '
              'str(result) == text byte for byte, and block count / package / version / distributions / urgency / '
              'urgency comment / extra key=values in order / change lines / author / date equal to the model, in file '
              'order.  Held-on-observed, not a proof: reach is the generated models (feature counters and anchor line '
              'coverage are in the evidence).')
LEVEL_NOTE = ('Trusted: CPython, the generator and its 10-line render() (re-validated per case by an independent grammar '
              'check; a case outside the grammar makes the run inconclusive).  Domain: exactly the grammar of the '
              'statement - single spaces in the header, lower-case urgency keyword, comma-free comments/values, empty '
              'blank lines, two spaces before the date, UTF-8, text ends with a newline.')
TECHNIQUE = ('runtime monitoring: boundary oracle M (generator-side structured model vs. str() and block attributes of the '
             'live Changelog, warnings recorded) over seeded grammar-generated texts in every input form; mechanism-keyed, '
             'shrunk, replayable witnesses')
