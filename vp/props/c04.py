"""C04 - well-formed debian/changelog texts round-trip byte-for-byte through
debian.changelog.Changelog (strict parse, no warning, str() == input) and the
parsed blocks expose exactly what was written, in file order.

Deciding monitor M (boundary oracle): a seeded generator emits a *structured
model* of a changelog (the case itself: package, version, distributions,
urgency, urgency comment, extra key=values in order, body lines, maintainer,
e-mail, date, blank-line layout).  ``render`` turns the model into the text T
by the deb-changelog(5) grammar quoted in the property statement - it is the
only "reference implementation" needed and shares nothing with the library.
Every case is pushed through the real ``Changelog`` in every input form (str,
bytes, list of lines with/without newline, list of bytes lines, text and binary
file objects, a one-shot iterator, and ``Changelog().parse_changelog``) under
``warnings.catch_warnings(record=True)``; the oracle then compares str(cl) with
T byte for byte and every block attribute with the model.

Violations are keyed by mechanism (which parser complaint, which class of line
differs in the output, which attribute differs), shrunk to a small model that
still shows the same mechanism, and replayable.

SECOND USE of the same objects (case kinds 'reuse' and 'handout'; the same oracle, applied to objects that
are not fresh):

* 'reuse' - one Changelog object parses several texts in turn (constructor with a text, then
  ``parse_changelog`` a second / third / fourth time; two objects of one case interleaved).  Texts between
  the judged ones may be DAMAGED (trailing garbage, editor-variable / old-format tails, truncation, junk
  before the first heading or inside a block, a bad trailer or heading, max_blocks, None, empty; strict and
  non-strict) - they are never judged, they only leave state behind.  After every parse of a text inside
  the grammar the object must be exactly the model of THAT text (str, len, iteration, attributes,
  versions, version; initial_blank_lines equal to those of a fresh object of the same text); the other
  object of the case must still be its own last text.  A disagreement that a fresh object given the same
  text in the same form does not show is keyed ``reused-object-differs-from-fresh/<what>``; one on the
  other object ``earlier-object-changed-by-later-parse/<what>``.
* 'handout' - the caller mutates values the object handed out (Version objects from block.version,
  cl.version, cl.get_version(), cl.versions[i], cl.get_versions()[i], cl[i] / cl[str] / cl[Version]
  lookups; the lists/dicts from changes(), other_pairs, bugs_closed, lp_bugs_closed,
  other_keys_normalised(), versions, get_versions(), initial_blank_lines).  After EVERY mutation: the
  blocks the value did not come from, the objects built before (same text, other texts sharing the
  version string) and objects built afterwards (same text, other texts) must still be exactly their
  models.  What the block the value came from shows afterwards is the library's choice; it must only
  agree with itself (block.version / cl.versions[i] / cl.version = the version in that block's own
  heading line).  Keys ``handed-out-mutation.../mutated:<class of the mutated value>``.

SIZE THRESHOLDS (case kind 'big') and HEADING key=value PAIRS BEYOND URGENCY ('cl' cases tagged ``wl``): the same
oracle on texts whose heading / trailer / change items are LARGE - version digit runs of 18..10^4 digits (Python
refuses int() <-> str beyond 4300 digits since 3.11), package names, distribution lists, urgency comments, key=value
lists, maintainer names and e-mail addresses of 10^2..10^5 characters, change blocks of 10^2..2*10^4 lines, hundreds
of blocks.  A 'big' case is COMPACT: a small base model plus ``grow`` recipes (``[block, field, [segment, ...]]``,
segment = literal | [unit, count] | ['#', prefix, count, suffix] numbered) that ``expand_big`` turns into an ordinary
model, which is then re-validated by the grammar check and judged like every other model in all nine input forms.
Every accessor of what the heading carries is read separately (``deep_accessors``): block.version and its
full_version / epoch / upstream_version / debian_revision, block.package, cl.version, cl.get_version(), cl.versions,
cl.get_versions(), cl[i], cl.full_version / epoch / upstream_version / debian_revision / debian_version, cl.package /
get_package(), cl.distributions / urgency / author / date - each must expose what was written and none may raise
(keys ``accessor-raises/<accessor>/<Exc>``, ``attribute-differs/<accessor>``).  A big witness is shrunk by dropping
recipes and bisecting every count (the message names the smallest count that still shows the mechanism).

BYTES LINES WITHOUT LINE ENDS and BLANK-LINE LAYOUT ('cl' cases tagged ``wl`` = bl-matrix / bl-random): three more input
forms - ``blines-nonl`` (raw.splitlines()), ``bsplit`` (raw.split(b'\\n')[:-1]) and ``biter`` (a generator of such items) -
in which a blank line of the changelog is an EMPTY item b''.  The class drives models with 0..3 leading blank lines,
0..3 blank lines between the change paragraphs of a block, after the heading, before the trailer, 1..3 between blocks
and 0..3 AFTER THE LAST block through all twelve forms; every other ordinary model runs one of the three new forms (rotating)
on top of the nine.  TRAILING BLANKS ('cl' cases tagged tb-matrix / tb-random): optional block fields ``tb`` (blanks / tabs
after the date of the trailer) and ``hb`` (after the heading); trailer blanks must come back byte for byte (first, middle,
last block), heading blanks may come back or be dropped (see ASSUMPTIONS).
"""
import collections
import datetime
import io
import math
import re
import warnings

from ..models import dpkgver
from .c03 import gen_version

PROP = 'C04'
LEVEL = 'exploration'
RULE = ('Each case is a structured changelog model (1..5 blocks; package over [a-z0-9][-+.a-z0-9]+, dpkg-valid '
        'version, 1..3 distributions incl. dots/plus/dashes/upper case, urgency in any case with optional comment, '
        '0..2 extra key=value, change lines with non-ASCII/#/:/look-alike headers and trailers, 0..2 blank lines '
        'after the header / between changes / before the trailer / between blocks / leading, trailer names with '
        'parentheses/dots/non-ASCII, dates with and without weekday, 1- and 2-digit days, both zone signs) rendered '
        'to text by the statement\'s grammar and parsed in every input form, plus a fixed one-feature-at-a-time '
        'matrix.  A case is non-trivial when it has >= 2 blocks, or an urgency comment, or extra key=values, or a '
        'blank line between two change lines of one block.  SECOND-USE classes (separate random streams, plus fixed '
        'matrices of 286 + 253 cases): (a) "reuse" histories - one Changelog object parses 2..4 texts in turn '
        '(first use by Changelog(text) / Changelog(file=text) / Changelog().parse_changelog, later uses by '
        'parse_changelog positional or file=; strict given, defaulted or False; every data form), optionally a '
        'second object interleaved; 45% of the non-final texts are damaged (trailing garbage / comment / editor '
        'variables / old-format tail / extra heading, truncation, junk before the first heading, junk inside a block, '
        'one-space trailer, bad heading key=value, max_blocks, None, empty text) and only leave state behind; every '
        'parse of an undamaged text is judged by the model of that text and, from the second use on, against a '
        'fresh object of the same text; (b) "handout" cases - 1..3 caller-side mutations of handed-out values '
        '(Version objects from 8 access paths x epoch/upstream_version/debian_revision/debian_version/full_version; '
        'lists and dicts from changes(), other_pairs, bugs_closed, lp_bugs_closed, other_keys_normalised(), '
        'versions, get_versions(), initial_blank_lines) on a 1..4 block changelog in which 60% of the multi-block '
        'models repeat a version string, with a sibling object of the same text and 1..2 objects of other texts '
        '(85% sharing the version string) built before, and fresh objects of all those texts built after every '
        'mutation.  A second-use case is non-trivial when at least one second use was judged / one mutation applied.  '
        'SIZE class (kind "big": own random stream of 400 / 30000 cases + a fixed matrix of 543 cases, same for every seed, '
        'to which the thorough tier adds 25 cases of 2.6e5 / 1e6 characters, 65536 / 100000 lines, 5000 blocks): a small '
        'base model (1..3 blocks) in which 1..2 items are grown by a recipe - version digit runs of 18, 19, 20, 40, 400, '
        '4299, 4300, 4301, 5000, 10000 (+-1, and log-uniform sizes in between) digits in the upstream part, the revision, '
        'after an epoch, with leading zeros, in both parts, in first and non-first blocks, plus versions of 10^4 short '
        'components; package names, single distribution names, distribution lists (10..20000 names), urgency comments, '
        'key=value lists (1..5000 pairs, long keys, long values, all-digit values), maintainer names, e-mail addresses of '
        '64..65537 (thorough 10^5) characters incl. all-digit and non-ASCII ones; change blocks of 100..10000 (thorough '
        '20000) numbered lines with and without inner blank lines, single change lines of up to 10^5 characters; 50..1000 '
        'blocks.  Every big case is non-trivial; all nine input forms are driven, the per-accessor sweep runs in two of them '
        '(in one form for a third of the ordinary models, for every key=value model and every judged second use).  '
        'KEY=VALUE class (ordinary "cl" cases tagged wl=kv-matrix / kv-random; 462 fixed + 1600 / 50000 seeded models): '
        'a fixed matrix (every key of a 60-key vocabulary - team-upload, binary-only, source-only, qa-upload, X- / XS- / XB- / '
        'XC- / XBS- / XSBC- extension keys, case variants, keys that look like urgency, digits, hyphens - x 4 heading layouts; '
        'every value of a 40-value vocabulary under 3 keys; 1..8 pairs in several orders; with and without urgency comment; '
        'every urgency) and seeded models with 1..6 pairs per heading drawn from the vocabulary, synthesised extension keys and '
        'random keys/values.  '
        'BLANK-LINE / BYTES-LINES class ("cl" cases tagged wl=bl-matrix / bl-random; 80 fixed + 700 / 24000 seeded models, each '
        'in all TWELVE input forms): next to the nine forms, three iterables of BYTES lines WITHOUT line end - blines-nonl = '
        'raw.splitlines(), bsplit = raw.split(b"\\n")[:-1], biter = a generator of those items - in which a blank line of the '
        'changelog is the empty item b""; the models carry 0..3 leading blank lines, 0..3 blank lines between the change '
        'paragraphs of a block, 0..2 after the heading and before the trailer, 1..3 between blocks and 0..3 after the last '
        'block (one at a time and combined, 1..5 blocks); every other ordinary / key=value model is additionally run in ONE of '
        'the three new forms (rotating with the text length).  '
        'TRAILING-BLANKS class (wl=tb-matrix / tb-random; 164 fixed + 700 / 24000 seeded models, all twelve forms): 1..8 blanks '
        '/ tabs after the date of the trailer (field tb) of the only / first / a middle / the last / several / all blocks of '
        '1..5-block changelogs, with every date shape, and after the heading (field hb; plain, with urgency comment, with '
        'key=value); a model of these two classes is also non-trivial when it has trailing blanks or a blank line after the '
        'last block.')
ASSUMPTIONS = [
    'the generator + render() emit only texts of the deb-changelog(5) grammar quoted in the statement: single spaces in '
    'the header, lower-case "urgency" keyword, ", " between key=value items, two spaces before the date, empty '
    '(not whitespace-only) blank lines, text ends with a newline; every case is re-validated by an independent '
    'grammar check before it is executed (a case outside the grammar marks the run inconclusive, never violated)',
    'urgency comments and key=value values contain no comma (comma is the metadata separator in deb-changelog(5))',
    'versions are strings dpkg accepts (vp.models.dpkgver.classify == accept)',
    'the urgency comment is compared modulo surrounding whitespace (the library stores the separating space with it); '
    'change lines are compared after dropping blank lines (the library keeps in-block blank lines in changes())',
    'change text may contain the non-LF Unicode/ASCII line boundaries U+000C, U+0085, U+2028, U+2029: a line of a '
    'changelog ends at LF only (dpkg-parsechangelog); disagreements caused by them are reported under their own key',
    'input encoding is UTF-8 (library default)',
    'second use (a): only parses of texts inside the grammar are judged; damaged texts (and None / empty input) are '
    'never judged, whatever the library does with them (raise, warn, accept) only produces the state the next judged '
    'parse has to replace; a judged parse may be non-strict (constructor default) - for a text of the grammar a '
    'non-strict parse takes the decisions of the strict one unless the parser complains, and a complaint is the '
    'violation "parse-warns-on-wellformed" either way',
    'second use (a): a disagreement on a reused object counts as a second-use finding only if a FRESH object given the '
    'same text in the same form does not show it (otherwise it keeps its ordinary key); initial_blank_lines is compared '
    'with that fresh object, not with a fixed representation; whether parse_changelog(encoding=...) is remembered by '
    'the object is not exercised (bytes(cl) uses the stored encoding - either design is defensible)',
    'second use (b): what the block (or changelog-level list) a mutated value CAME FROM shows afterwards is the '
    'library\'s choice (the unchanged tree hands out fresh Version objects / fresh versions lists / fresh bugs lists, '
    'but the live changes() list, other_pairs dict and initial_blank_lines list): for that block only self-agreement is '
    'demanded - block.version, cl.versions[i] and (first block) cl.version / cl.get_version() equal the version in the '
    'heading line of str(block) as it is now; if its attributes still equal the model and no live container was '
    'mutated the whole object is re-judged (str == text), otherwise only the text before the heading of the first '
    'touched block and from the heading after the last touched block is compared',
    'second use (b): blocks the value did not come from (also those carrying the same version string), Changelog '
    'objects that existed before the mutation and Changelog objects built after it must be exactly their own model; '
    'every such object was judged clean before the first mutation (a failure there is reported under its ordinary key, '
    'or earlier-object-changed-by-later-parse/ if the text parsed on its own is clean)',
    'second use (b): cl[str] / cl[Version] lookups - the block the library returns (identified by identity among the '
    'iterated blocks) is the touched one, which block that is for equal-comparing versions is not judged; bugs_closed, '
    'lp_bugs_closed and other_keys_normalised() are mutated but never judged themselves (not in the statement); a '
    'mutation the library refuses (ValueError, KeyError on an empty dict) is counted, not judged',
    'a finding of the ordinary kind made after this process mutated handed-out values is re-executed in a fresh '
    'interpreter (4 per shard); if it is clean there it is keyed depends-on-earlier-calls-in-this-process/<key> and the '
    'witness is the sequence (earlier mutating case, this case)',
    'size class: deb-changelog(5) and the statement put no upper bound on the length of a package name, version, '
    'distribution list, urgency comment, key=value list, maintainer name, e-mail address, change line, on the number of '
    'change lines of a block or on the number of blocks; a big case is judged only if its expansion passes the same '
    'independent grammar check as every other model (otherwise inconclusive, never violated); expansions are capped at '
    '6e6 characters (harness budget, not a claim about the format)',
    'size class: long digit runs are placed in the upstream version and the revision only - the epoch stays a small number '
    '(dpkg refuses epochs above INT_MAX, so a long epoch is not a valid version); versions are still exactly the strings '
    'vp.models.dpkgver.classify accepts',
    'accessors: the decomposition expected from full_version / epoch / upstream_version / debian_revision (debian_version) is '
    'the Policy 5.6.12 one (epoch before the first colon, revision after the last hyphen, None when absent) computed by '
    'vp.models.dpkgver.split - what C14 establishes for debian_support.Version on the unchanged tree; Changelog-level '
    'accessors (cl.version, get_version(), full_version, epoch, upstream_version, debian_revision, debian_version, package, '
    'get_package(), distributions, urgency, author, date) are documented as shortcuts to the first block in file order and '
    'are compared with that block of the model; cl[i] (integer) must be the i-th block of the iteration (the same object, or '
    'one showing that block\'s version and package); warnings given by an accessor are not judged (the statement\'s "without '
    'any warning" is about parsing); look-ups by version string / Version '
    '(equality of versions, not spelling) and hash() of a Version are NOT part of this class; bugs_closed / lp_bugs_closed '
    '(int conversion of bug numbers) are not read',
    'key=value class: exactly the grammar of the statement - urgency is the FIRST pair, further pairs follow after ", "; '
    'keys over [A-Za-z0-9-], pairwise different ignoring case and different from "urgency"; values non-empty, comma-free, '
    'no leading/trailing/double blank (may contain "=", ";", parentheses, non-ASCII); a heading without urgency or with '
    'urgency in another position is outside the domain (the library re-writes it) and never generated; any warning of '
    'any category during the strict parse is the violation parse-warns-on-wellformed (recorded with '
    'warnings.catch_warnings(record=True) + simplefilter("always"), so neither the once-per-location registry nor the '
    'ambient filters can hide one)',
    'blank-line / bytes-lines class: an iterable of lines may carry str or bytes items, with or without the line end (the '
    'parser documents "lists of lines without the trailing newline and those with trailing newlines" and decodes bytes '
    'items); an empty item ("" / b"") is a blank line of the changelog exactly like "\\n" - it is what raw.splitlines() / '
    'raw.split(b"\\n") give for a blank line; blank lines AFTER THE LAST block (0..4, model field gap of the last block) are '
    'part of the exercised grammar since this class exists: the unchanged tree keeps them as trailing lines of the last block, '
    'parses them silently and reproduces them in every form; the bytes are UTF-8 and contain no CR, so bytes.splitlines() '
    'cuts at LF only',
    'trailing-blanks class: blanks (U+0020 / U+0009 only, 1..8) after the date of a trailer are NOT in the grammar quoted by '
    'the statement, but the repository\'s own test_strange_changelog fixture has such a trailer and the unchanged tree accepts '
    'them silently under strict=True in all twelve forms and reproduces them byte for byte in str() (measured before this '
    'class was written); exactly that is judged - no exception, no warning, str() == text incl. the blanks, for the only / '
    'first / a middle / the last block; block.date / cl.date may expose the date with or without these blanks (the '
    'unchanged tree keeps them in .date), both are accepted',
    'trailing-blanks class, headings: blanks after the last item of a heading are accepted silently by the unchanged tree but '
    'str() DROPS them (the heading is re-built from its items) - the statement is silent about them, so only the weaker claim '
    'is judged: no exception, no warning, every item exposed as written (the last item modulo trailing blanks) and the '
    'heading line of str() equal to the written one either with or without its trailing blanks; every other line byte for '
    'byte.  Models with heading blanks are not used in the second-use classes',
    'near-twin class: the urgency comment and a key=value value are free text of the heading ("urgency=value[ comment]'
    '[, key=value...]"), so a run of several blanks / a tab strictly INSIDE them (never at their ends, never next to "=" or '
    '",") is text like any other character and has to come back byte for byte and in the attributes (the unchanged tree '
    'keeps both verbatim - measured before the class was written); only models of this class (flag ws) carry such runs.  '
    'A member of a twin case is judged by the ordinary oracle only; which earlier heading it resembles is named in the key, '
    'nothing more is demanded',
]
ANCHORS = ['debian.changelog:Changelog.parse_changelog',
           'debian.changelog:Changelog._format',
           'debian.changelog:ChangeBlock._format',
           'debian.changelog:Changelog.__init__',
           'debian.changelog:ChangeBlock._get_version',
           'debian.changelog:ChangeBlock.changes',
           'debian.changelog:Changelog._parse_error']
MUST_REACH = ['debian.changelog:Changelog.parse_changelog',
              'debian.changelog:Changelog._format',
              'debian.changelog:ChangeBlock._format']

TEXTS = {'quick': 15000, 'thorough': 570000}     # random models, total over all shards (trimmed 6% / 5% for BLS + TBS)
REUSE = {'quick': 3000, 'thorough': 100000}      # second-use histories (one object, several texts)
HANDOUT = {'quick': 3000, 'thorough': 100000}    # caller-side mutation of handed-out values
BIG = {'quick': 400, 'thorough': 30000}          # size class: random big cases (the fixed matrix comes on top)
KVS = {'quick': 1600, 'thorough': 50000}         # heading key=value pairs beyond urgency: random models
BLS = {'quick': 700, 'thorough': 24000}          # blank-line layout x bytes lines without line end: random models
TWINS = {'quick': 520, 'thorough': 16000}       # near-twin headings (same changelog / consecutive parses)
TBS = {'quick': 700, 'thorough': 24000}          # trailing blanks after the date / the heading: random models

FLOORS = {
    # ~50% of what a run on the current tree measures (quick: 15353 ordinary cases; thorough: 570353; re-checked after the trim);
    # the floors of the second-use classes are added below (_Q2 / _T2)
    'quick': {'nontrivial': 7000,
              'monitors': {'M': 73000, 'M.attrs': 170000},
              'counters': {'feat:urgency-comment': 4700, 'feat:extra-kv': 5600, 'feat:extra-kv-2': 1800,
                           'feat:multi-dist': 9500, 'feat:pkg-dot': 7000, 'feat:dist-dot': 5400,
                           'feat:dist-uppercase': 7500, 'feat:urgency-uppercase': 9000, 'feat:day-1digit': 3400,
                           'feat:no-weekday': 4700, 'feat:zone-minus': 9500, 'feat:lead-blank': 3100,
                           'feat:inner-blank': 5900, 'feat:no-blank-after-header': 3000,
                           'feat:no-blank-before-trailer': 3000, 'feat:nonascii-change': 16000,
                           'feat:hash-or-colon': 16000, 'feat:hostile-maintainer-name': 12000,
                           'feat:multi-block': 5000, 'feat:non-LF-line-boundary-in-change': 250,
                           'form:str': 8000, 'form:bytes': 8000, 'form:lines': 8000, 'form:lines-nl': 8000,
                           'form:blines': 8000, 'form:file': 8000, 'form:bfile': 8000, 'form:iter': 8000,
                           'form:method': 8000, 'matrix': 170}},
    'thorough': {'nontrivial': 250000,
                 'monitors': {'M': 2700000, 'M.attrs': 6000000},
                 'counters': {'feat:urgency-comment': 170000, 'feat:extra-kv': 200000, 'feat:extra-kv-2': 60000,
                              'feat:multi-dist': 340000, 'feat:pkg-dot': 250000, 'feat:dist-dot': 190000,
                              'feat:dist-uppercase': 270000, 'feat:urgency-uppercase': 320000,
                              'feat:day-1digit': 120000, 'feat:no-weekday': 170000, 'feat:zone-minus': 340000,
                              'feat:lead-blank': 110000, 'feat:inner-blank': 210000,
                              'feat:no-blank-after-header': 100000, 'feat:no-blank-before-trailer': 100000,
                              'feat:nonascii-change': 450000, 'feat:hash-or-colon': 450000,
                              'feat:hostile-maintainer-name': 430000, 'feat:multi-block': 180000,
                              'feat:non-LF-line-boundary-in-change': 8000,
                              'form:str': 300000, 'form:bytes': 300000, 'form:lines': 300000,
                              'form:lines-nl': 300000, 'form:blines': 300000, 'form:file': 300000,
                              'form:bfile': 300000, 'form:iter': 300000, 'form:method': 300000, 'matrix': 170}},
}

# floors of the second-use classes: ~50% of the minimum over quick seeds 0-3 / of thorough seed 0 on the unchanged
# tree.  Only counters that do not depend on what the library does with a damaged text or a mutation are floored.
_Q2 = {'handout:case': 1600,
       'handout:existing-object:other-text:shares-version-string': 2500,
       'handout:existing-object:same-text:shares-version-string': 2300,
       'handout:fresh-object:other-text:shares-version-string': 2500,
       'handout:fresh-object:same-text:shares-version-string': 4700,
       'handout:src:block.bugs_closed': 100, 'handout:src:block.changes()': 100,
       'handout:src:block.lp_bugs_closed': 100, 'handout:src:block.other_keys_normalised()': 95,
       'handout:src:block.other_pairs': 100, 'handout:src:block.version': 200,
       'handout:src:cl.get_version()': 190, 'handout:src:cl.get_versions()': 95,
       'handout:src:cl.get_versions()[i]': 180, 'handout:src:cl.initial_blank_lines': 95,
       'handout:src:cl.version': 190, 'handout:src:cl.versions': 100, 'handout:src:cl.versions[i]': 180,
       'handout:src:cl[Version].version': 200, 'handout:src:cl[i].version': 200, 'handout:src:cl[str].version': 200,
       'handout:untouched-block': 2600, 'handout:untouched-block-with-the-same-version-string': 950,
       'handout:version-attr:debian_revision': 330, 'handout:version-attr:debian_version': 110,
       'handout:version-attr:epoch': 450, 'handout:version-attr:full_version': 340,
       'handout:version-attr:upstream_version': 330,
       'matrix:handout': 120, 'matrix:reuse': 140,
       'reuse:after-damaged-text:badhead': 120, 'reuse:after-damaged-text:empty': 130,
       'reuse:after-damaged-text:lead': 140, 'reuse:after-damaged-text:max': 130,
       'reuse:after-damaged-text:mid': 130, 'reuse:after-damaged-text:none': 120,
       'reuse:after-damaged-text:trail': 160, 'reuse:after-damaged-text:trailer1': 120,
       'reuse:after-damaged-text:trunc': 130,
       'reuse:after:clean': 1400, 'reuse:blocks:fewer': 1000, 'reuse:blocks:more': 990, 'reuse:case': 1600,
       'reuse:leading-blank-lines:fewer': 1000, 'reuse:leading-blank-lines:more': 950,
       'reuse:object-made-by-constructor-with-text': 1600, 'reuse:second-use': 1200,
       'reuse:third-or-later-use': 1400}
_T2 = {'handout:case': 50000,
       'handout:existing-object:other-text:shares-version-string': 83000,
       'handout:existing-object:same-text:shares-version-string': 75000,
       'handout:fresh-object:other-text:shares-version-string': 83000,
       'handout:fresh-object:same-text:shares-version-string': 150000,
       'handout:src:block.bugs_closed': 3500, 'handout:src:block.changes()': 3500,
       'handout:src:block.lp_bugs_closed': 3500, 'handout:src:block.other_keys_normalised()': 3500,
       'handout:src:block.other_pairs': 3500, 'handout:src:block.version': 6400,
       'handout:src:cl.get_version()': 6400, 'handout:src:cl.get_versions()': 3500,
       'handout:src:cl.get_versions()[i]': 6400, 'handout:src:cl.initial_blank_lines': 3500,
       'handout:src:cl.version': 6400, 'handout:src:cl.versions': 3500, 'handout:src:cl.versions[i]': 6400,
       'handout:src:cl[Version].version': 6400, 'handout:src:cl[i].version': 6400,
       'handout:src:cl[str].version': 6400,
       'handout:untouched-block': 81000, 'handout:untouched-block-with-the-same-version-string': 29000,
       'handout:version-attr:debian_revision': 11000, 'handout:version-attr:debian_version': 3700,
       'handout:version-attr:epoch': 14900, 'handout:version-attr:full_version': 11000,
       'handout:version-attr:upstream_version': 11000,
       'matrix:handout': 120, 'matrix:reuse': 140,
       'reuse:after-damaged-text:badhead': 4200, 'reuse:after-damaged-text:empty': 4200,
       'reuse:after-damaged-text:lead': 4200, 'reuse:after-damaged-text:max': 4200,
       'reuse:after-damaged-text:mid': 4200, 'reuse:after-damaged-text:none': 4200,
       'reuse:after-damaged-text:trail': 4200, 'reuse:after-damaged-text:trailer1': 4200,
       'reuse:after-damaged-text:trunc': 4200,
       'reuse:after:clean': 48000, 'reuse:blocks:fewer': 32000, 'reuse:blocks:more': 32000, 'reuse:case': 50000,
       'reuse:leading-blank-lines:fewer': 31000, 'reuse:leading-blank-lines:more': 31000,
       'reuse:object-made-by-constructor-with-text': 52000, 'reuse:second-use': 39000,
       'reuse:third-or-later-use': 48000}
FLOORS['quick']['counters'].update(_Q2)
FLOORS['thorough']['counters'].update(_T2)
FLOORS['quick']['monitors'].update({'M.reuse': 2700, 'M.reuse.other': 950, 'M.handout': 2500, 'M.handout.later': 14000})
FLOORS['thorough']['monitors'].update({'M.reuse': 87000, 'M.reuse.other': 35000, 'M.handout': 80000,
                                       'M.handout.later': 450000})

# floors of the size class (big:*, wl:*) and of the key=value class (kv:*): about half of the minimum over quick seeds
# 0-3 / of thorough seed 0 on the unchanged tree - a run that never exercises these classes is inconclusive, not held
_Q3 = {'big:blocks:1000-4300': 1, 'big:case': 471, 'big:size:body:lines:100-999': 13,
       'big:size:body:lines:1000-4300': 13, 'big:size:body:lines:<100': 19, 'big:size:body:lines:>20000': 1,
       'big:size:body:longest-line:<100': 37, 'big:size:c:100-999': 10, 'big:size:c:1000-4300': 11,
       'big:size:c:4301-20000': 9, 'big:size:d:chars:100-999': 12, 'big:size:d:chars:1000-4300': 9,
       'big:size:d:chars:4301-20000': 9, 'big:size:d:names:100-999': 9, 'big:size:d:names:4301-20000': 1,
       'big:size:d:names:<100': 23, 'big:size:d:names:>20000': 2, 'big:size:e:1000-4300': 10,
       'big:size:kv:chars:100-999': 11, 'big:size:kv:chars:1000-4300': 12, 'big:size:kv:chars:4301-20000': 8,
       'big:size:kv:chars:<100': 11, 'big:size:kv:pairs:4301-20000': 1, 'big:size:kv:pairs:<100': 40,
       'big:size:n:100-999': 11, 'big:size:n:1000-4300': 11, 'big:size:n:4301-20000': 8, 'big:size:p:1000-4300': 9,
       'big:size:v:100-999': 24, 'big:size:v:1000-4300': 14, 'big:size:v:4301-20000': 73, 'big:size:v:<100': 57,
       'big:version-digit-run-in:revision': 40, 'big:version-digit-run-in:upstream': 131,
       'big:version-digit-run-with-epoch': 35, 'big:version-digit-run:19-40': 33,
       'big:version-digit-run:19-40:first-block': 25, 'big:version-digit-run:401-4300': 35,
       'big:version-digit-run:401-4300:first-block': 27, 'big:version-digit-run:41-400': 19,
       'big:version-digit-run:41-400:first-block': 16, 'big:version-digit-run:<=18': 34,
       'big:version-digit-run:<=18:first-block': 26, 'big:version-digit-run:<=18:later-block': 8,
       'big:version-digit-run:>4300': 49, 'big:version-digit-run:>4300:first-block': 38,
       'big:version-digit-run:>4300:later-block': 9, 'big:version-long-without-long-run': 34,
       'kv:after-urgency-comment': 635, 'kv:case': 1031, 'kv:case:kv-matrix': 231, 'kv:case:kv-random': 800,
       'kv:heading-with-pairs': 1374, 'kv:key-style:X-extension': 370, 'kv:key-style:X[BCS]+-extension': 929,
       'kv:key-style:binary-only': 161, 'kv:key-style:hyphenated-word': 705, 'kv:key-style:looks-like-urgency': 119,
       'kv:key-style:plain-word': 967, 'kv:key-style:qa-upload': 21, 'kv:key-style:source-only': 31,
       'kv:key-style:team-upload': 131, 'kv:key-with-upper-case': 1905, 'kv:pairs-in-heading:1': 483,
       'kv:pairs-in-heading:2': 265, 'kv:pairs-in-heading:3': 259, 'kv:pairs-in-heading:4': 111,
       'kv:pairs-in-heading:5': 107, 'kv:pairs-in-heading:6+': 105, 'kv:value-contains-blank': 681,
       'kv:value-contains-equals': 524, 'kv:value-yes-no': 1011, 'wl:big-matrix': 271, 'wl:big-random': 200}
_T3 = {'big:blocks:100-999': 427, 'big:blocks:<100': 191, 'big:case': 15265, 'big:digit-run>4300-in:c': 61,
       'big:digit-run>4300-in:e': 180, 'big:digit-run>4300-in:n': 70, 'big:digit-run>4300-in:p': 94,
       'big:size:body:lines:100-999': 390, 'big:size:body:lines:1000-4300': 422,
       'big:size:body:lines:4301-20000': 262, 'big:size:body:lines:<100': 723, 'big:size:body:lines:>20000': 101,
       'big:size:body:longest-line:100-999': 142, 'big:size:body:longest-line:1000-4300': 168,
       'big:size:body:longest-line:4301-20000': 117, 'big:size:body:longest-line:<100': 1348,
       'big:size:body:longest-line:>20000': 123, 'big:size:c:100-999': 412, 'big:size:c:1000-4300': 394,
       'big:size:c:4301-20000': 422, 'big:size:c:<100': 234, 'big:size:c:>20000': 383,
       'big:size:d:chars:100-999': 417, 'big:size:d:chars:1000-4300': 414, 'big:size:d:chars:4301-20000': 417,
       'big:size:d:chars:<100': 284, 'big:size:d:chars:>20000': 348, 'big:size:d:names:100-999': 393,
       'big:size:d:names:1000-4300': 262, 'big:size:d:names:4301-20000': 126, 'big:size:d:names:<100': 1098,
       'big:size:e:100-999': 377, 'big:size:e:1000-4300': 422, 'big:size:e:4301-20000': 444, 'big:size:e:<100': 235,
       'big:size:e:>20000': 375, 'big:size:kv:chars:100-999': 409, 'big:size:kv:chars:1000-4300': 307,
       'big:size:kv:chars:4301-20000': 416, 'big:size:kv:chars:<100': 387, 'big:size:kv:chars:>20000': 358,
       'big:size:kv:pairs:100-999': 260, 'big:size:kv:pairs:1000-4300': 153, 'big:size:kv:pairs:4301-20000': 93,
       'big:size:kv:pairs:<100': 1372, 'big:size:n:100-999': 417, 'big:size:n:1000-4300': 403,
       'big:size:n:4301-20000': 413, 'big:size:n:<100': 284, 'big:size:n:>20000': 363, 'big:size:p:100-999': 424,
       'big:size:p:1000-4300': 476, 'big:size:p:4301-20000': 381, 'big:size:p:<100': 317, 'big:size:p:>20000': 313,
       'big:size:v:100-999': 1121, 'big:size:v:1000-4300': 757, 'big:size:v:4301-20000': 2129,
       'big:size:v:<100': 1312, 'big:size:v:>20000': 69, 'big:version-digit-run-in:revision': 1156,
       'big:version-digit-run-in:upstream': 4397, 'big:version-digit-run-with-epoch': 1165,
       'big:version-digit-run:19-40': 778, 'big:version-digit-run:19-40:first-block': 655,
       'big:version-digit-run:19-40:later-block': 123, 'big:version-digit-run:401-4300': 1431,
       'big:version-digit-run:401-4300:first-block': 1213, 'big:version-digit-run:401-4300:later-block': 217,
       'big:version-digit-run:41-400': 968, 'big:version-digit-run:41-400:first-block': 819,
       'big:version-digit-run:41-400:later-block': 149, 'big:version-digit-run:<=18': 737,
       'big:version-digit-run:<=18:first-block': 633, 'big:version-digit-run:<=18:later-block': 104,
       'big:version-digit-run:>4300': 1474, 'big:version-digit-run:>4300:first-block': 1247,
       'big:version-digit-run:>4300:later-block': 227, 'big:version-long-without-long-run': 737,
       'kv:after-urgency-comment': 18451, 'kv:case': 25228, 'kv:case:kv-matrix': 231, 'kv:case:kv-random': 24997,
       'kv:heading-with-pairs': 36103, 'kv:key-style:X-extension': 10275, 'kv:key-style:X[BCS]+-extension': 29286,
       'kv:key-style:binary-only': 2053, 'kv:key-style:hyphenated-word': 20869,
       'kv:key-style:looks-like-urgency': 3466, 'kv:key-style:plain-word': 28316, 'kv:key-style:qa-upload': 804,
       'kv:key-style:source-only': 813, 'kv:key-style:team-upload': 2364, 'kv:key-with-upper-case': 56162,
       'kv:pairs-in-heading:1': 11570, 'kv:pairs-in-heading:2': 7441, 'kv:pairs-in-heading:3': 6839,
       'kv:pairs-in-heading:4': 3436, 'kv:pairs-in-heading:5': 3371, 'kv:pairs-in-heading:6+': 3445,
       'kv:value-contains-blank': 20677, 'kv:value-contains-equals': 16279, 'kv:value-yes-no': 26826,
       'wl:big-matrix': 271, 'wl:big-random': 14994}
# small counts the fixed matrix alone guarantees (quick)
_Q3.update({'big:digit-run>4300-in:c': 3, 'big:digit-run>4300-in:e': 1, 'big:digit-run>4300-in:n': 1,
            'big:digit-run>4300-in:p': 1, 'big:size:p:>20000': 2, 'big:size:c:>20000': 4, 'big:size:n:>20000': 3,
            'big:size:e:>20000': 3, 'big:size:d:chars:>20000': 5, 'big:size:kv:chars:>20000': 6,
            'big:size:body:longest-line:>20000': 3, 'big:size:body:lines:4301-20000': 5, 'big:blocks:100-999': 5,
            'big:size:kv:pairs:100-999': 7, 'big:size:kv:pairs:1000-4300': 2, 'big:size:d:names:1000-4300': 6})
FLOORS['quick']['counters'].update(_Q3)
FLOORS['thorough']['counters'].update(_T3)
FLOORS['quick']['monitors'].update({'M.big': 4200, 'M.kv': 9200, 'M.accessors': 14000})
FLOORS['thorough']['monitors'].update({'M.big': 137000, 'M.kv': 227000, 'M.accessors': 450000})

# floors of the blank-line / bytes-lines-without-line-end class (bl:*, nonl-bytes:*, form:<new form>) and of the
# trailing-blanks class (tb:*): about half of the minimum over quick seeds 0-3 / of thorough seed 0 on the unchanged tree -
# a run that never hands over an empty bytes item at each blank-line position, or never has trailing blanks after the
# date of a first / middle / last block, is inconclusive, not held
_Q4 = {'form:blines-nonl': 3700, 'form:bsplit': 3600, 'form:biter': 3600,
       'nonl-bytes:empty-item:leading-blank-line': 4500, 'nonl-bytes:empty-item:blank-line-in-block': 11000,
       'nonl-bytes:empty-item:blank-between-change-paragraphs': 5900,
       'nonl-bytes:empty-item:blank-line-between-blocks': 6800, 'nonl-bytes:empty-item:blank-line-after-last-block': 1200,
       'bl:case': 390, 'bl:case:bl-matrix': 80, 'bl:case:bl-random': 350, 'bl:leading-blank-lines': 280,
       'bl:blank-between-change-paragraphs': 300, 'bl:blank-between-blocks': 280, 'bl:two-or-more-blanks-between-blocks': 190,
       'bl:blank-after-last-block': 240, 'bl:no-blank-after-heading': 120,
       'tb:case': 430, 'tb:case:tb-matrix': 164, 'tb:case:tb-random': 350,
       'tb:trailer-blanks:only-block': 70, 'tb:trailer-blanks:first-block': 170, 'tb:trailer-blanks:middle-block': 230,
       'tb:trailer-blanks:last-block': 170, 'tb:trailer-blanks:followed-by-another-block': 400,
       'tb:trailer-blanks:spaces-only': 310, 'tb:trailer-blanks:with-tab': 340, 'tb:trailer-blanks:count:1': 180,
       'tb:trailer-blanks:count:2': 200, 'tb:trailer-blanks:count:3+': 250,
       'tb:heading-blanks:only-block': 20, 'tb:heading-blanks:first-block': 65, 'tb:heading-blanks:middle-block': 90,
       'tb:heading-blanks:last-block': 65, 'tb:heading-blanks:after-urgency': 160,
       'tb:heading-blanks:after-urgency-comment': 28, 'tb:heading-blanks:after-key-value': 60}
_T4 = {'form:blines-nonl': 127000, 'form:bsplit': 127000, 'form:biter': 127000,
       'nonl-bytes:empty-item:leading-blank-line': 163000, 'nonl-bytes:empty-item:blank-line-in-block': 380000,
       'nonl-bytes:empty-item:blank-between-change-paragraphs': 216000,
       'nonl-bytes:empty-item:blank-line-between-blocks': 245000, 'nonl-bytes:empty-item:blank-line-after-last-block': 38000,
       'bl:case': 12000, 'bl:case:bl-matrix': 80, 'bl:case:bl-random': 12000, 'bl:leading-blank-lines': 9600,
       'bl:blank-between-change-paragraphs': 9700, 'bl:blank-between-blocks': 9000,
       'bl:two-or-more-blanks-between-blocks': 6400, 'bl:blank-after-last-block': 8000, 'bl:no-blank-after-heading': 4300,
       'tb:case': 12000, 'tb:case:tb-matrix': 164, 'tb:case:tb-random': 12000,
       'tb:trailer-blanks:only-block': 2000, 'tb:trailer-blanks:first-block': 5400, 'tb:trailer-blanks:middle-block': 7200,
       'tb:trailer-blanks:last-block': 5400, 'tb:trailer-blanks:followed-by-another-block': 12700,
       'tb:trailer-blanks:spaces-only': 9000, 'tb:trailer-blanks:with-tab': 11000, 'tb:trailer-blanks:count:1': 5000,
       'tb:trailer-blanks:count:2': 7100, 'tb:trailer-blanks:count:3+': 8000,
       'tb:heading-blanks:only-block': 400, 'tb:heading-blanks:first-block': 1900, 'tb:heading-blanks:middle-block': 2800,
       'tb:heading-blanks:last-block': 1900, 'tb:heading-blanks:after-urgency': 3800,
       'tb:heading-blanks:after-urgency-comment': 1200, 'tb:heading-blanks:after-key-value': 2100}
FLOORS['quick']['counters'].update(_Q4)
FLOORS['thorough']['counters'].update(_T4)
FLOORS['quick']['monitors'].update({'M.bl': 4600, 'M.tb': 5100})
FLOORS['thorough']['monitors'].update({'M.bl': 144000, 'M.tb': 144000})
# near-twin headings class: ~50% of the minimum over quick seeds 0-3 on the unchanged tree; thorough = 25 x the quick floor
# (the thorough tier draws 16000 / 520 = 30.8 times as many twin cases from the same generator)
_Q5 = {'twin:blank-run-inside-heading-text': 51,
 'twin:case': 260,
 'twin:dim:case-comment': 16,
 'twin:dim:case-key': 13,
 'twin:dim:case-urgency': 16,
 'twin:dim:case-value': 13,
 'twin:dim:case:blocks': 30,
 'twin:dim:case:parses': 32,
 'twin:dim:char-comment': 12,
 'twin:dim:char-value': 11,
 'twin:dim:char:blocks': 14,
 'twin:dim:char:parses': 13,
 'twin:dim:ws-comment': 52,
 'twin:dim:ws-kind-comment': 29,
 'twin:dim:ws-kind-value': 14,
 'twin:dim:ws-value': 30,
 'twin:dim:ws:blocks': 67,
 'twin:dim:ws:parses': 72,
 'twin:headings': 799,
 'twin:how:blocks': 125,
 'twin:how:parses': 124,
 'twin:tab-inside-heading-text': 116}
_T5 = {k: v * 25 for k, v in _Q5.items()}
FLOORS['quick']['counters'].update(_Q5)
FLOORS['thorough']['counters'].update(_T5)
FLOORS['quick']['monitors']['M.twin'] = 4600
FLOORS['thorough']['monitors']['M.twin'] = 115000

# ---------------------------------------------------------------------------
# grammar (render + independent validity check of a model)

URGENCIES = ('low', 'medium', 'high', 'emergency', 'critical')
WEEKDAYS = ('Mon', 'Tue', 'Wed', 'Thu', 'Fri', 'Sat', 'Sun')
MONTHS = ('Jan', 'Feb', 'Mar', 'Apr', 'May', 'Jun', 'Jul', 'Aug', 'Sep', 'Oct', 'Nov', 'Dec')
# characters other than LF at which str.splitlines() breaks a line; allowed in change text only
NON_LF_BREAKS = '\x0c\x85\u2028\u2029'
# never generated anywhere (CR and the remaining splitlines() boundaries): outside the exercised grammar
FORBIDDEN = '\n\r\x0b\x1c\x1d\x1e'

G_PKG = re.compile(r'[a-z0-9][a-z0-9+.-]+\Z', re.ASCII)
G_DIST = re.compile(r'[A-Za-z0-9+.-]+\Z', re.ASCII)
G_KEY = re.compile(r'[A-Za-z0-9-]+\Z', re.ASCII)
G_EMAIL = re.compile(r'[^\s<>]+\Z')
G_DATE = re.compile(r'((%s), )?\d{1,2} (%s) \d{4} \d\d:\d\d:\d\d [+-]\d{4}\Z' % ('|'.join(WEEKDAYS), '|'.join(MONTHS)),
                    re.ASCII)

FORMS = ('str', 'bytes', 'lines', 'lines-nl', 'blines', 'file', 'bfile', 'iter', 'method')
# iterables of BYTES lines WITHOUT line end (a blank line is the empty item b''): raw.splitlines(), raw.split(b'\n')[:-1],
# a generator of such items
NONL_BYTES_FORMS = ('blines-nonl', 'bsplit', 'biter')
ALL_FORMS = FORMS + NONL_BYTES_FORMS
BLANKS = ' \t'
SPLITTING_FORMS = ('str', 'bytes', 'method')   # the library splits the text into lines itself


def _plain(s, allow_breaks=False):
    """No line terminator (and no exotic line boundary unless allowed) inside a single-line item."""
    bad = FORBIDDEN if allow_breaks else FORBIDDEN + NON_LF_BREAKS
    return isinstance(s, str) and not any(c in s for c in bad)


def grammar_problem(case):
    """Independent check that a model is inside the grammar of the statement.
    Returns None when it is, else a short reason."""
    try:
        if case.get('kind') != 'cl':
            return 'unknown kind'
        if not isinstance(case.get('lead', 0), int) or not 0 <= case.get('lead', 0) <= 4:
            return 'lead'
        if case.get('form') is not None and case['form'] not in ALL_FORMS:
            return 'form'
        blocks = case['blocks']
        if not blocks:
            return 'no blocks'
        for i, b in enumerate(blocks):
            if not (isinstance(b['p'], str) and G_PKG.match(b['p'])):
                return 'package'
            if not (isinstance(b['v'], str) and dpkgver.classify(b['v']) == 'accept' and b['v'][0] in '0123456789'):
                return 'version'
            if not b['d'] or not all(isinstance(d, str) and G_DIST.match(d) for d in b['d']):
                return 'distributions'
            if not (isinstance(b['u'], str) and b['u'].lower() in URGENCIES):
                return 'urgency'
            c = b.get('c', '')
            ws = bool(case.get('ws'))      # near-twin class: runs of blanks / tabs strictly INSIDE a comment or value
            if c and not (_plain(c) and c == c.strip() and ',' not in c and (ws or ('  ' not in c and '\t' not in c))):
                return 'urgency comment'
            seen = set(['urgency'])
            for k, v in b.get('kv', []):
                if not (isinstance(k, str) and G_KEY.match(k)) or k.lower() in seen:
                    return 'key'
                seen.add(k.lower())
                if not (_plain(v) and v and v == v.strip() and ',' not in v and (ws or ('  ' not in v and '\t' not in v))):
                    return 'value'
            nchange = 0
            for l in b['body']:
                if l == '':
                    continue
                if not (_plain(l, allow_breaks=True) and l.startswith('  ') and l.strip()):
                    return 'change line'
                # a change line must still look like one after any line boundary is ignored
                nchange += 1
            if nchange < 1:
                return 'no change line'
            if not (_plain(b['n']) and b['n'] and b['n'] == b['n'].strip() and '<' not in b['n'] and '>' not in b['n']):
                return 'maintainer name'
            if not (isinstance(b['e'], str) and G_EMAIL.match(b['e']) and _plain(b['e'])):
                return 'email'
            if not (isinstance(b['dt'], str) and G_DATE.match(b['dt'])):
                return 'date'
            gap = b.get('gap', 0)
            last = i == len(blocks) - 1
            if not isinstance(gap, int) or (last and not 0 <= gap <= 4) or (not last and not 1 <= gap <= 4):
                return 'gap'
            for f in ('tb', 'hb'):
                x = b.get(f, '')
                if not (isinstance(x, str) and len(x) <= 8 and all(ch in BLANKS for ch in x)):
                    return 'trailing blanks'
    except (KeyError, TypeError, ValueError, IndexError) as e:
        return 'malformed model (%s)' % type(e).__name__
    return None


def header(b):
    s = '%s (%s) %s; urgency=%s' % (b['p'], b['v'], ' '.join(b['d']), b['u'])
    if b.get('c'):
        s += ' ' + b['c']
    for k, v in b.get('kv', []):
        s += ', %s=%s' % (k, v)
    return s + b.get('hb', '')


def trailer(b):
    return ' -- %s <%s>  %s%s' % (b['n'], b['e'], b['dt'], b.get('tb', ''))


def render(case):
    lines, classes = [], []
    for _ in range(case.get('lead', 0)):
        lines.append('')
        classes.append('leading-blank-line')
    nb = len(case['blocks'])
    for i, b in enumerate(case['blocks']):
        lines.append(header(b))
        classes.append('header-line')
        for l in b['body']:
            lines.append(l)
            classes.append('change-line' if l else 'blank-line-in-block')
        lines.append(trailer(b))
        classes.append('trailer-line')
        for _ in range(b.get('gap', 0)):
            lines.append('')
            classes.append('blank-line-between-blocks' if i < nb - 1 else 'blank-line-after-last-block')
    return '\n'.join(lines) + '\n', lines, classes


def is_nontrivial(case):
    if len(case['blocks']) >= 2:
        return True
    for b in case['blocks']:
        if b.get('c') or b.get('kv'):
            return True
        if inner_blank(b):
            return True
        if b.get('tb') or b.get('hb'):
            return True
    if str(case.get('wl', '')).startswith(('bl-', 'tb-')) and case['blocks'][-1].get('gap'):
        return True
    return False


def inner_blank(b):
    body = b['body']
    idx = [i for i, l in enumerate(body) if l != '']
    return bool(idx) and any(l == '' for l in body[idx[0]:idx[-1]])


# ---------------------------------------------------------------------------
# generators

PKG_POOL = ['hello', 'libfoo-dev', 'g++-12', 'libstdc++6', 'python3.11', 'a0', '0ad', '4g8', 'x.y', 'a+b', 'lib-x.y+z',
            'gtk+3.0', 'a.', 'a-', 'a+', 'z..', '9base', 'linux-image-6.1.0-13-amd64']
DIST_POOL = ['unstable', 'stable', 'experimental', 'UNRELEASED', 'sid', 'bookworm-backports', 'stable-security',
             'a.b', 'x+y', 'jessie-backports-sloppy', '0', 'Bionic', 'trixie-proposed-updates', 'X.Y-z+1', 'oldstable',
             'frozen', 'testing-proposed-updates', '6.0', 'a-', 'b.', 'c+']
VERSION_POOL = ['1', '1.0-1', '2:1.0~rc1-1+b1', '0.9.8zh-1', '1.2.3+dfsg', '1:2:3', '1.0-1~bpo8+1', '0', '0~', '1-1-1',
                '20230101', '1.0+git20200101.abcdef-0ubuntu1~18.04.1', '5:7.0.10-2+deb12u1', '1A', '0:0']
COMMENT_POOL = ['(HIGH for foo)', '(security fix)', 'x', '(a; b=c)', '(\u00e9)', '(see #123: urgent)',
                'really (no kidding)', '(medium)', 'urgency=high', '(fixes CVE-2020-1; RC bug)', '-', '(']
KEY_POOL = ['binary-only', 'Binary-Only', 'x-foo', 'XS-Bar', 'k', 'a-1', '0', 'closes', 'BINARY-ONLY', 'Urgenc',
            'urgency-x', '-', 'xb-tag']
VALUE_POOL = ['yes', 'no', 'a b', '1.0~x', '\u00e9', 'x=y', '(z)', 'a;b', 'low (x)', '#1', 'a: b', 'YES', '0']
NAME_POOL = ['A B', 'Zo\u00eb Q. X', 'a', 'A (x) B', 'Dr. J. R. "Bob" Dobbs', '\u674e \u96f7', "O'Brien-Smith", 'Doe, John',
             'x.y', 'Debian QA Group', 'J\u00f6rg M\u00fcller (work)', 'A. B. C.', 'a@b', '\U0001f600 Smiley', 'M. (Jr.)']
EMAIL_POOL = ['a@b.c', 'x@y', 'packages@qa.debian.org', 'x+y@z.org', 'j\u00f6rg@example.org', 'first.last@sub.example.co.uk',
              'me@[127.0.0.1]']
CHANGE_PREFIX = ['  * ', '  * ', '  * ', '    ', '    ', '   - ', '  ', '  + ', '     * ', '    - ', '  o ']
CHANGE_ALPHA = 'ab c:#\u00e9\u6f22-*.'
CHANGE_ALPHA_WIDE = 'abcxyzABC 0189 :#\u00e9\u6f22\u00df\u00a0\u0301\U0001f600-*.,;=()<>[]/\\\'"@$%&~!?|\t_+'
HOSTILE_CHANGES = [
    'hello (1.0-1) unstable; urgency=low',
    '-- A B <a@b.c>  Mon, 01 Jan 2020 00:00:00 +0000',
    ' -- A B <a@b.c>  Mon, 01 Jan 2020 00:00:00 +0000',
    '--',
    '# comment',
    '#',
    '$Id: changelog 1 $',
    '/* C comment */',
    'vim: set ft=changelog:',
    'Local variables:',
    ';; Local variables:',
    'Closes: #123, #456',
    'closes: bug#1, Bug #2',
    'LP: #12345',
    'Old Changelog:',
    'Changes from version 1 to 2:',
    'Mon Jan  1 00:00:00 2001 A B <a@b>',
    'urgency=high, binary-only=yes',
    'key=value; x',
    'a: b: c',
    '[ Somebody Else ]',
    '* nested bullet',
    'text with trailing colon:',
    'tab\there',
    '\u00a0non-breaking start',
    '\u3000ideographic space',
    '\u200bzero width',
    'ends with backslash \\',
    '%s %d {0}',
]
SECTION_LINES = ['  [ X ]', '  [ Zo\u00eb Q. X ]', '  [ A (x) B ]', '  [ a@b ]']


def gen_pkg(r):
    if r.random() < 0.35:
        return r.choice(PKG_POOL)
    n = r.choice([1, 1, 2, 3, 5, 8, 14])
    return r.choice('abcxyz0129') + ''.join(r.choice('abz019.+-') for _ in range(n))


def gen_ver(r):
    if r.random() < 0.3:
        return r.choice(VERSION_POOL)
    for _ in range(50):
        v = gen_version(r)
        if dpkgver.classify(v) == 'accept' and v[0] in '0123456789':
            return v
    return '1.0-1'


def gen_dist(r):
    if r.random() < 0.7:
        return r.choice(DIST_POOL)
    return r.choice('abzABZ019') + ''.join(r.choice('abzABZ019.+-') for _ in range(r.choice([0, 1, 3, 7])))


def gen_case_mix(r, s):
    k = r.random()
    if k < 0.5:
        return s
    if k < 0.7:
        return s.upper()
    if k < 0.8:
        return s.capitalize()
    return ''.join(c.upper() if r.random() < 0.5 else c for c in s)


def gen_words(r, alphabet, maxwords=3):
    words = []
    for _ in range(r.randint(1, maxwords)):
        words.append(''.join(r.choice(alphabet) for _ in range(r.randint(1, 6))))
    return ' '.join(words)


def gen_comment(r):
    if r.random() < 0.6:
        return r.choice(COMMENT_POOL)
    return gen_words(r, 'abXY01()#:;=.\u00e9-')


def gen_kv(r):
    out, seen = [], set(['urgency'])
    for _ in range(r.choice([1, 1, 2])):
        for _try in range(10):
            if r.random() < 0.7:
                k = r.choice(KEY_POOL)
            else:
                k = ''.join(r.choice('abzABZ019-') for _ in range(r.randint(1, 8)))
            if k.lower() not in seen:
                break
        else:
            continue
        seen.add(k.lower())
        v = r.choice(VALUE_POOL) if r.random() < 0.7 else gen_words(r, 'abXY01()#:;=.\u00e9-~+', 2)
        out.append([k, v])
    return out


def gen_change(r, wide):
    k = r.random()
    if k < 0.06:
        return r.choice(SECTION_LINES)
    prefix = r.choice(CHANGE_PREFIX)
    if k < 0.22:
        text = r.choice(HOSTILE_CHANGES)
    else:
        alpha = CHANGE_ALPHA_WIDE if (wide and r.random() < 0.5) else CHANGE_ALPHA
        text = ''.join(r.choice(alpha) for _ in range(r.randint(1, 30)))
    if r.random() < 0.006:
        # a non-LF line boundary in the middle of the change text
        pos = r.randint(0, len(text))
        tail = r.choice(['', '', '  ', ' -- '])
        text = text[:pos] + r.choice(NON_LF_BREAKS) + tail + text[pos:]
    line = prefix + text
    if r.random() < 0.05:
        line += r.choice([' ', '  ', '\t'])
    if not line.strip():
        line = prefix + 'x'
    return line


def gen_date(r):
    d = datetime.date(1990, 1, 1) + datetime.timedelta(days=r.randrange(0, 17000))
    day = '%d' % d.day if (d.day < 10 and r.random() < 0.6) else '%02d' % d.day
    s = '%s %s %d %02d:%02d:%02d %s%02d%s' % (day, MONTHS[d.month - 1], d.year, r.randrange(24), r.randrange(60),
                                             r.randrange(61) if r.random() < 0.02 else r.randrange(60),
                                             r.choice('+-'), r.randrange(15), r.choice(['00', '00', '30', '45']))
    if r.random() < 0.75:
        s = '%s, %s' % (WEEKDAYS[d.weekday()], s)
    return s


def gen_block(r, wide):
    b = {'p': gen_pkg(r), 'v': gen_ver(r),
         'd': [gen_dist(r) for _ in range(r.choice([1, 1, 1, 2, 2, 3]))],
         'u': gen_case_mix(r, r.choice(URGENCIES)), 'c': '', 'kv': [], 'gap': 0}
    if r.random() < 0.25:
        b['c'] = gen_comment(r)
    if r.random() < 0.3:
        b['kv'] = gen_kv(r)
    body = [''] * r.choice([1, 1, 1, 1, 0, 2])
    n = r.choice([1, 1, 2, 2, 3, 4, 5])
    for i in range(n):
        body.append(gen_change(r, wide))
        if i < n - 1 and r.random() < 0.25:
            body.extend([''] * r.choice([1, 1, 2]))
    body.extend([''] * r.choice([1, 1, 1, 1, 0, 2]))
    b['body'] = body
    b['n'] = r.choice(NAME_POOL) if r.random() < 0.8 else gen_words(r, 'abAB.()\u00e9\u6f22-\'', 3).strip() or 'A'
    if b['n'] != b['n'].strip() or not b['n']:
        b['n'] = 'A B'
    b['e'] = r.choice(EMAIL_POOL)
    b['dt'] = gen_date(r)
    return b


def gen_model(r, wide):
    nb = r.choice([1, 1, 1, 2, 2, 3, 4, 5])
    blocks = [gen_block(r, wide) for _ in range(nb)]
    for b in blocks[:-1]:
        b['gap'] = r.choice([1, 1, 1, 2])
    return {'kind': 'cl', 'lead': r.choice([0, 0, 0, 1, 2]), 'blocks': blocks}


BASE = {'p': 'hello', 'v': '1.0-1', 'd': ['unstable'], 'u': 'low', 'c': '', 'kv': [],
        'body': ['', '  * change', ''], 'n': 'A B', 'e': 'a@b.c', 'dt': 'Mon, 06 Jan 2020 01:02:03 +0000', 'gap': 0}


def matrix():
    """Fixed one-feature-at-a-time models (same for every seed and tier)."""
    out = []

    def one(**kw):
        b = dict(BASE)
        b.update(kw)
        out.append({'kind': 'cl', 'lead': 0, 'blocks': [b]})

    for p in PKG_POOL + ['ab', 'a0', '0a', 'a.b', 'a+b', 'a-b', 'a.b.c', 'a--', 'a++', 'z9.', 'ab.', '9.9']:
        one(p=p)
    for v in VERSION_POOL:
        one(v=v)
    for d in DIST_POOL:
        one(d=[d])
    one(d=['unstable', 'stable'])
    one(d=['a.b', 'c.d', 'e-f'])
    one(d=['UNRELEASED', 'x+y', '0'])
    for u in URGENCIES:
        for f in (str.lower, str.upper, str.capitalize, str.swapcase):
            one(u=f(u.capitalize()))
    for c in COMMENT_POOL:
        one(c=c)
        one(c=c, kv=[['binary-only', 'yes']])
    for k in KEY_POOL:
        one(kv=[[k, 'yes']])
    for v in VALUE_POOL:
        one(kv=[['binary-only', v]])
    one(kv=[['binary-only', 'yes'], ['x-foo', 'a b']])
    one(kv=[['x-foo', 'bar'], ['binary-only', 'yes']])
    one(kv=[['b', '2'], ['a', '1']], c='(why not)')
    for n in NAME_POOL:
        one(n=n)
    for e in EMAIL_POOL:
        one(e=e)
    dow = {0: 'Mon', 1: 'Tue', 2: 'Wed', 3: 'Thu', 4: 'Fri', 5: 'Sat', 6: 'Sun'}
    for i in range(7):
        one(dt='%s, %d Jan 2020 01:02:03 +0000' % (dow[(2 + i) % 7], 1 + i))       # 1 Jan 2020 was a Wednesday
        one(dt='%s, %02d Jan 2020 01:02:03 +0000' % (dow[(2 + i) % 7], 1 + i))
    for m in MONTHS:
        one(dt='15 %s 2021 23:59:59 -0330' % m)
        one(dt='1 %s 2021 00:00:00 +1400' % m)
    for dt in ['7 Feb 1999 12:00:00 -0000', '07 Feb 1999 12:00:00 -1200', 'Sun, 7 Feb 1999 12:00:00 +0530',
               'Sun, 07 Feb 1999 12:00:60 +0000', 'Fri, 31 Dec 2038 23:59:59 -0800']:
        one(dt=dt)
    for text in HOSTILE_CHANGES:
        for prefix in ('  ', '  * ', '    '):
            one(body=['', prefix + text, ''])
    for l in SECTION_LINES:
        one(body=['', l, '  * change', ''])
    one(body=['', '  * trailing space ', ''])
    one(body=['', '  * trailing tab\t', ''])
    for a in range(3):
        for z in range(3):
            for inner in range(3):
                one(body=[''] * a + ['  * first'] + [''] * inner + ['    second'] + [''] * z)
            one(body=[''] * a + ['  * only'] + [''] * z)
    for ch in NON_LF_BREAKS:
        one(body=['', '  * before' + ch + 'after', ''])
        one(body=['', '  * before' + ch + '  after', ''])
    # multi-block layouts
    for lead in range(3):
        for gap in (1, 2):
            b1 = dict(BASE, v='2.0-1', gap=gap, body=['', '  * newer', ''])
            b2 = dict(BASE, v='1.0-1', d=['stable'], u='HIGH', n='Zo\u00eb Q. X', body=['', '  * older', ''])
            out.append({'kind': 'cl', 'lead': lead, 'blocks': [b1, b2]})
    b = [dict(BASE, v='%d' % (5 - i), gap=1, body=['', '  * entry %d' % i, '']) for i in range(5)]
    b[-1]['gap'] = 0
    out.append({'kind': 'cl', 'lead': 1, 'blocks': b})
    # same version / same package twice: blocks must stay in file order, not be merged or sorted
    b1 = dict(BASE, gap=1, body=['', '  * first copy', ''])
    b2 = dict(BASE, body=['', '  * second copy', ''])
    out.append({'kind': 'cl', 'lead': 0, 'blocks': [b1, b2]})
    b1 = dict(BASE, v='1.0-1', gap=1, body=['', '  * ascending 1', ''])
    b2 = dict(BASE, v='2.0-1', p='other', body=['', '  * ascending 2', ''])
    out.append({'kind': 'cl', 'lead': 0, 'blocks': [b1, b2]})
    return out


# ---------------------------------------------------------------------------
# BLANK-LINE LAYOUT x BYTES LINES WITHOUT LINE END (wl = bl-*), TRAILING BLANKS after the date / the heading (wl = tb-*)

TB_POOL = [' ', '  ', '   ', '\t', ' \t', '\t ', '        ']
TB_DATES = ['Mon, 01 Jan 2024 00:00:00 +0000', '1 Jan 2024 00:00:00 +0000', 'Thu, 14 Jun 2007 19:54:13 +0100',
            'Sun, 7 Feb 1999 12:00:00 -0530', '07 Feb 1999 12:00:60 -1200', 'Fri, 31 Dec 2038 23:59:59 +1400']


def bl_matrix():
    """Fixed blank-line layouts (same for every seed and tier); every model runs in all twelve input forms."""
    out = []

    def blk(i, after=1, inner=1, before=1, gap=1, paras=2):
        body = [''] * after
        for j in range(paras):
            body.append('  * change %d of entry %d' % (j, i))
            body.append('    continued')
            if j < paras - 1:
                body.extend([''] * inner)
        body.extend([''] * before)
        return dict(BASE, v='%d.0-1' % (9 - i), body=body, gap=gap)

    def cl(lead, blocks, tail):
        blocks[-1]['gap'] = tail
        out.append({'kind': 'cl', 'lead': lead, 'blocks': blocks, 'wl': 'bl-matrix'})

    for lead in range(4):
        cl(lead, [blk(0)], 0)
    for tail in (1, 2, 3):
        cl(0, [blk(0)], tail)
    for inner in range(4):
        cl(0, [blk(0, inner=inner, paras=3)], 0)
    for after in range(3):
        for before in range(3):
            cl(0, [blk(0, after=after, before=before)], 0)
    for gap in (1, 2, 3):
        cl(0, [blk(0, gap=gap), blk(1)], 0)
        cl(0, [blk(0, gap=gap), blk(1, gap=gap), blk(2)], 0)
    for lead in range(3):
        for gap in (1, 2):
            for tail in range(3):
                for inner in range(3):
                    cl(lead, [blk(0, inner=inner, gap=gap), blk(1, inner=inner, gap=gap), blk(2, inner=inner)], tail)
    return out


def gen_bl_model(r, wide):
    nb = r.choice([1, 1, 2, 2, 3, 3, 4, 5])
    blocks = [gen_block(r, wide) for _ in range(nb)]
    for b in blocks:
        # more blank lines between the change paragraphs than the ordinary stream has
        body, new = b['body'], []
        for j, l in enumerate(body):
            new.append(l)
            if l != '' and j + 1 < len(body) and body[j + 1] != '' and r.random() < 0.45:
                new.extend([''] * r.choice([1, 1, 2, 3]))
        b['body'] = new
        b['gap'] = r.choice([1, 1, 2, 3])
    blocks[-1]['gap'] = r.choice([0, 0, 1, 1, 2, 3])
    return {'kind': 'cl', 'lead': r.choice([0, 1, 1, 2, 3]), 'blocks': blocks, 'wl': 'bl-random'}


def gen_blanks(r):
    if r.random() < 0.7:
        return r.choice(TB_POOL)
    return ''.join(r.choice(BLANKS) for _ in range(r.randint(1, 6)))


def tb_matrix():
    """Fixed trailing-blank models (same for every seed and tier); every model runs in all twelve input forms."""
    out = []

    def cl(blocks, lead=0, tail=0):
        for i, b in enumerate(blocks):
            b['gap'] = 1
            b['v'] = '%d.0-1' % (len(blocks) - i)
            b['body'] = ['', '  * entry %d' % i, '']
        blocks[-1]['gap'] = tail
        out.append({'kind': 'cl', 'lead': lead, 'blocks': blocks, 'wl': 'tb-matrix'})

    for x in TB_POOL:
        cl([dict(BASE, tb=x)])
        cl([dict(BASE, hb=x)])
        cl([dict(BASE, hb=x, c='(security fix)')])
        cl([dict(BASE, hb=x, kv=[['binary-only', 'yes']])])
        cl([dict(BASE, hb=x, tb=x, c='(x)', kv=[['X-Foo', 'a b'], ['k', '0']])])
    for dt in TB_DATES:
        for x in (' ', '   ', '\t'):
            cl([dict(BASE, dt=dt, tb=x)])
    cl([dict(BASE, tb='  ')], tail=2)
    cl([dict(BASE, tb=' ')], lead=1, tail=1)
    cl([dict(BASE, tb='  ', n='Reinhard Tartler', e='siretart@tauware.de', dt='Thu, 14 Jun 2007 19:54:13 +0100')])
    for nb, picks in ((2, ((0,), (1,), (0, 1))),
                      (3, ((0,), (1,), (2,), (0, 1, 2))),
                      (5, ((0,), (2,), (4,), (1, 3), (0, 1, 2, 3, 4)))):
        for pick in picks:
            for fields in (('tb',), ('hb',), ('tb', 'hb')):
                for x in (' ', '   ', '\t'):
                    blocks = [dict(BASE) for _ in range(nb)]
                    for i in pick:
                        for f in fields:
                            blocks[i][f] = x
                    cl(blocks, tail=1 if x == '   ' else 0)
    return out


def gen_tb_model(r, wide):
    nb = r.choice([1, 2, 3, 3, 4, 5])
    blocks = [gen_block(r, wide) for _ in range(nb)]
    for b in blocks[:-1]:
        b['gap'] = r.choice([1, 1, 2])
    blocks[-1]['gap'] = r.choice([0, 0, 0, 1, 2])
    for b in blocks:
        if r.random() < 0.5:
            b['tb'] = gen_blanks(r)
        if r.random() < 0.2:
            b['hb'] = gen_blanks(r)
    if not any(b.get('tb') for b in blocks):
        blocks[r.randrange(nb)]['tb'] = gen_blanks(r)
    return {'kind': 'cl', 'lead': r.choice([0, 0, 1]), 'blocks': blocks, 'wl': 'tb-random'}


def block_position(i, nb):
    if nb == 1:
        return 'only-block'
    return 'first-block' if i == 0 else 'last-block' if i == nb - 1 else 'middle-block'


def note_bl(ctx, case):
    c = ctx.count
    c('bl:case')
    c('bl:case:' + case['wl'])
    blocks = case['blocks']
    if case.get('lead'):
        c('bl:leading-blank-lines')
    if any(inner_blank(b) for b in blocks):
        c('bl:blank-between-change-paragraphs')
    if len(blocks) > 1:
        c('bl:blank-between-blocks')
        if any(b.get('gap', 0) > 1 for b in blocks[:-1]):
            c('bl:two-or-more-blanks-between-blocks')
    if blocks[-1].get('gap'):
        c('bl:blank-after-last-block')
    if any(b['body'] and b['body'][0] != '' for b in blocks):
        c('bl:no-blank-after-heading')


def note_tb(ctx, case):
    c = ctx.count
    c('tb:case')
    c('tb:case:' + case['wl'])
    nb = len(case['blocks'])
    for i, b in enumerate(case['blocks']):
        pos = block_position(i, nb)
        if b.get('tb'):
            c('tb:trailer-blanks:' + pos)
            c('tb:trailer-blanks:%s' % ('with-tab' if '\t' in b['tb'] else 'spaces-only'))
            c('tb:trailer-blanks:count:%s' % (len(b['tb']) if len(b['tb']) < 3 else '3+'))
            if i < nb - 1:
                c('tb:trailer-blanks:followed-by-another-block')
        if b.get('hb'):
            c('tb:heading-blanks:' + pos)
            c('tb:heading-blanks:after-%s' % ('key-value' if b.get('kv') else 'urgency-comment' if b.get('c') else 'urgency'))


def cases(ctx):
    for i, c in enumerate(bl_matrix()):
        if ctx.mine(i):
            yield c
    for i, c in enumerate(tb_matrix()):
        if ctx.mine(i):
            yield c
    for i, m in enumerate(matrix()):
        if ctx.mine(i):
            m['matrix'] = 1
            yield m
    for i, c in enumerate(reuse_matrix()):
        if ctx.mine(i):
            c['matrix'] = 1
            yield c
    for i, c in enumerate(handout_matrix()):
        if ctx.mine(i):
            c['matrix'] = 1
            yield c
    for i, c in enumerate(kv_matrix()):
        if ctx.mine(i):
            yield c
    for i, c in enumerate(big_matrix(ctx.tier == 'thorough')):
        if ctx.mine(i):
            yield c
    rw = ctx.rng('twins')
    nw = ctx.size(TWINS['quick'], TWINS['thorough'])
    for _ in range(nw - nw // 3):
        yield gen_twin(rw)
    r = ctx.rng('models')
    rr = ctx.rng('reuse')
    rh = ctx.rng('handout')
    rb = ctx.rng('big')
    rk = ctx.rng('kv')
    rl = ctx.rng('bl')
    rt = ctx.rng('tb')
    wide = ctx.tier == 'thorough'
    for _ in range(ctx.size(BLS['quick'], BLS['thorough'])):
        yield gen_bl_model(rl, wide or rl.random() < 0.3)
    for _ in range(ctx.size(TBS['quick'], TBS['thorough'])):
        yield gen_tb_model(rt, wide or rt.random() < 0.3)
    for _ in range(ctx.size(BIG['quick'], BIG['thorough'])):
        yield gen_big(rb, wide)
    for _ in range(ctx.size(KVS['quick'], KVS['thorough'])):
        yield gen_kv_model(rk, wide or rk.random() < 0.3)
    n = ctx.size(TEXTS['quick'], TEXTS['thorough'])
    nr = ctx.size(REUSE['quick'], REUSE['thorough'])
    nh = ctx.size(HANDOUT['quick'], HANDOUT['thorough'])
    done_r = done_h = 0
    # the second-use classes are interleaved with the ordinary texts (separate random streams: the ordinary
    # stream is what it was before these classes existed); an eighth of them runs first, before the process
    # has seen many texts (a bounded cache inside the library would be full later)
    while done_r * 8 < nr:
        yield gen_reuse(rr, wide or rr.random() < 0.3)
        done_r += 1
    while done_h * 8 < nh:
        yield gen_handout(rh, wide or rh.random() < 0.3)
        done_h += 1
    for j in range(n):
        yield gen_model(r, wide or r.random() < 0.3)
        while done_r < nr and (done_r - nr // 8) * n < (j + 1) * (nr - nr // 8):
            yield gen_reuse(rr, wide or rr.random() < 0.3)
            done_r += 1
        while done_h < nh and (done_h - nh // 8) * n < (j + 1) * (nh - nh // 8):
            yield gen_handout(rh, wide or rh.random() < 0.3)
            done_h += 1
    for _ in range(nw // 3):
        yield gen_twin(rw)          # the last third after the process has seen every other heading


# ---------------------------------------------------------------------------
# driving the library + oracle

def build_input(form, text, lines):
    if form in ('str', 'method'):
        return text
    if form == 'bytes':
        return text.encode('utf-8')
    if form == 'lines':
        return list(lines)
    if form == 'lines-nl':
        return [l + '\n' for l in lines]
    if form == 'blines':
        return [(l + '\n').encode('utf-8') for l in lines]
    if form == 'file':
        return io.StringIO(text, newline='\n')
    if form == 'bfile':
        return io.BytesIO(text.encode('utf-8'))
    if form == 'iter':
        return (l for l in lines)
    if form in NONL_BYTES_FORMS:
        raw = text.encode('utf-8')
        items = raw.split(b'\n')[:-1] if form == 'bsplit' else raw.splitlines()
        if items != [l.encode('utf-8') for l in lines]:
            # cannot happen for a text of the grammar (no CR, LF only between lines); never hand over another text
            items = [l.encode('utf-8') for l in lines]
        return (x for x in items) if form == 'biter' else items
    raise ValueError(form)


def classify_parse_error(msg):
    """ChangelogParseError text -> mechanism slug (the parser's own complaint class)."""
    m = msg
    if m.startswith('Could not parse changelog: '):
        m = m[len('Could not parse changelog: '):]
    for head, slug in (('Unexpected line while looking for first heading', 'unexpected-line-before-first-heading'),
                       ('Unexpected line while looking for next heading', 'unexpected-line-after-trailer'),
                       ('Unexpected line while looking for start of change data', 'unexpected-line-after-header'),
                       ('Unexpected line while looking for more change data or trailer', 'unexpected-line-in-changes'),
                       ('Invalid key-value pair', 'invalid-key-value'),
                       ('Repeated key-value', 'repeated-key-value'),
                       ('Badly formatted urgency value', 'bad-urgency-value'),
                       ('Badly formatted trailer line', 'bad-trailer-line'),
                       ('Found eof where expected', 'premature-eof'),
                       ('Empty changelog file', 'empty-file')):
        if m.startswith(head):
            return slug
    return 'other'


def _r(x, n=300):
    s = repr(x)
    return s if len(s) <= n else s[:n] + '...'


def check_form(case, form, text, lines, classes, stats, input_lines=None, deep=False):
    """Parse `text` in one input form and compare with the model.  Returns a list of (key, msg).
    `input_lines` (classifier use only) overrides how the text is cut into lines for the line-based forms."""
    from debian import changelog as dc
    out = []
    data = build_input(form, text, lines if input_lines is None else input_lines)
    try:
        with warnings.catch_warnings(record=True) as caught:
            warnings.simplefilter('always')
            if form == 'method':
                cl = dc.Changelog()
                cl.parse_changelog(data, strict=True)
            else:
                cl = dc.Changelog(data, strict=True)
    except dc.ChangelogParseError as e:
        return [('strict-parse-rejects-wellformed/' + classify_parse_error(str(e)),
                 '[%s] strict parse of a well-formed changelog raised: %s' % (form, _r(str(e))))]
    except Exception as e:      # any other exception escaping the parser
        return [('parse-raises/' + type(e).__name__, '[%s] %s: %s' % (form, type(e).__name__, _r(str(e))))]
    if caught:
        out.append(('parse-warns-on-wellformed/' + classify_parse_error(str(caught[0].message)),
                    '[%s] strict parse warned: %s' % (form, _r(str(caught[0].message)))))
    return out + judge_object(cl, case, form, text, lines, classes, stats, deep=deep)


def _date_seen(b, have):
    """A trailer with trailing blanks: .date may expose the date with or without them (see ASSUMPTIONS)."""
    if b.get('tb') and isinstance(have, str) and have == b['dt'] + b['tb']:
        return b['dt']
    return have


def block_problems(b, g):
    """[(attribute name, written, parsed)] for one model block `b` and one live block `g`."""
    urgency, pairs = g.urgency, [list(x) for x in g.other_pairs.items()]
    if b.get('hb'):
        # blanks after the heading: the last item may be exposed with or without them (see ASSUMPTIONS)
        if pairs and isinstance(pairs[-1][1], str):
            pairs[-1][1] = pairs[-1][1].rstrip(BLANKS)
        if isinstance(urgency, str):
            urgency = urgency.rstrip(BLANKS)
    want = (('package', b['p'], g.package),
            ('version', b['v'], str(g.version)),
            ('distributions', ' '.join(b['d']), g.distributions),
            ('urgency', b['u'], urgency),
            ('urgency-comment', b.get('c', ''), (g.urgency_comment or '').strip()),
            ('extra-key-values', [list(x) for x in b.get('kv', [])], pairs),
            ('change-lines', [l for l in b['body'] if l != ''], [l for l in g.changes() if l.strip() != '']),
            ('author', '%s <%s>' % (b['n'], b['e']), g.author),
            ('date', b['dt'], _date_seen(b, g.date)))
    return [(name, w, have) for name, w, have in want if w != have]


def _same(want, have):
    """Equality that also demands the same kind of value (None stays None, text stays text)."""
    if want is None or have is None:
        return want is None and have is None
    if isinstance(have, str):
        return want == have
    try:        # another type whose text is exactly what was written is not accused
        return str(have) == want
    except Exception:
        return False


def deep_accessors(cl, case, form, stats):
    """Every accessor of what the headings (and the first trailer) carry, each read on its own: none may raise for a
    text of the grammar and each must expose what was written.  Returns a list of (key, msg)."""
    out = []
    blocks = case['blocks']
    if stats is not None:
        stats['M.accessors'] += 1

    def read(name, fn):
        try:
            return True, fn()
        except Exception as e:
            out.append(('accessor-raises/%s/%s' % (name, type(e).__name__),
                        '[%s] reading %s of a well-formed changelog raised %s: %s' % (form, name, type(e).__name__, _r(str(e)))))
            return False, None

    def expect(name, want, have, conv=None):
        if conv is not None and have is not None:
            try:
                have = conv(have)
            except Exception as e:
                out.append(('accessor-raises/str(%s)/%s' % (name, type(e).__name__),
                            '[%s] str() of %s raised %s: %s' % (form, name, type(e).__name__, _r(str(e)))))
                return
        if not _same(want, have):
            out.append(('attribute-differs/' + name, '[%s] %s: wrote %s, exposed %s' % (form, name, _r(want), _r(have))))

    def decomposition(name, v, written):
        ep, up, rev = dpkgver.split(written)
        for attr, want in (('full_version', written), ('epoch', ep), ('upstream_version', up), ('debian_revision', rev)):
            ok, have = read('%s.%s' % (name, attr), lambda: getattr(v, attr))
            if ok:
                expect('%s.%s' % (name, attr), want, have)

    ok, got = read('iter(cl)', lambda: list(cl))
    if not ok or len(got) != len(blocks):
        return out          # the block count is judged by the caller
    for i, (b, g) in enumerate(zip(blocks, got)):
        ok, v = read('block.version', lambda: g.version)
        if ok:
            expect('block.version', b['v'], v, str)
            if v is not None:
                decomposition('block.version', v, b['v'])
        ok, pkg = read('block.package', lambda: g.package)
        if ok:
            expect('block.package', b['p'], pkg)
        ok, gi = read('cl[i]', lambda: cl[i])
        if ok and gi is not g:
            # another object is fine as long as it is that block (a library may hand out views)
            ok, have = read('cl[i].version/package', lambda: (str(gi.version), gi.package))
            if ok and have != (b['v'], b['p']):
                out.append(('attribute-differs/cl[i]', '[%s] cl[%d] is the block %s, the block number %d written is %s'
                            % (form, i, _r(have), i, _r((b['v'], b['p'])))))
    first = blocks[0]
    for name, fn in (('cl.version', lambda: cl.version), ('cl.get_version()', lambda: cl.get_version())):
        ok, v = read(name, fn)
        if ok:
            expect(name, first['v'], v, str)
            if v is not None:
                decomposition(name, v, first['v'])
    for name, fn in (('cl.versions', lambda: cl.versions), ('cl.get_versions()', lambda: cl.get_versions())):
        ok, vs = read(name, fn)
        if ok:
            try:
                have = [str(x) for x in vs]
            except Exception as e:
                out.append(('accessor-raises/str(%s[i])/%s' % (name, type(e).__name__),
                            '[%s] str() of an element of %s raised %s: %s' % (form, name, type(e).__name__, _r(str(e)))))
                continue
            if have != [b['v'] for b in blocks]:
                out.append(('attribute-differs/' + name, '[%s] %s: wrote %s, exposed %s' % (form, name, _r([b['v'] for b in blocks]), _r(have))))
    ep, up, rev = dpkgver.split(first['v'])
    for name, want, fn in (('cl.full_version', first['v'], lambda: cl.full_version),
                           ('cl.epoch', ep, lambda: cl.epoch),
                           ('cl.upstream_version', up, lambda: cl.upstream_version),
                           ('cl.debian_revision', rev, lambda: cl.debian_revision),
                           ('cl.debian_version', rev, lambda: cl.debian_version),
                           ('cl.package', first['p'], lambda: cl.package),
                           ('cl.get_package()', first['p'], lambda: cl.get_package()),
                           ('cl.distributions', ' '.join(first['d']), lambda: cl.distributions),
                           ('cl.urgency', first['u'], lambda: cl.urgency),
                           ('cl.author', '%s <%s>' % (first['n'], first['e']), lambda: cl.author),
                           ('cl.date', first['dt'], lambda: cl.date)):
        ok, have = read(name, fn)
        if ok:
            if name == 'cl.date':
                have = _date_seen(first, have)
            elif name == 'cl.urgency' and first.get('hb') and isinstance(have, str):
                have = have.rstrip(BLANKS)
            expect(name, want, have)
    return out


def judge_object(cl, case, form, text, lines, classes, stats, deep=False):
    """The boundary oracle on one live Changelog object that is supposed to hold exactly the model `case`
    (text/lines/classes = render(case)).  `form` only labels the messages.  Returns a list of (key, msg).
    `deep`: additionally read every accessor of the heading items on its own (deep_accessors)."""
    out = []
    # -- byte-for-byte
    try:
        got = str(cl)
    except Exception as e:
        return out + [('str-raises/' + type(e).__name__, '[%s] str(Changelog) raised %s: %s' % (form, type(e).__name__, _r(str(e))))]
    if got != text:
        glines = got.split('\n')
        elines = lines + ['']
        # a heading written with trailing blanks may come back with or without them (see ASSUMPTIONS)
        alt = {}
        if any(b.get('hb') for b in case['blocks']):
            heads = [j for j, c in enumerate(classes) if c == 'header-line']
            alt = dict((j, header(dict(b, hb=''))) for j, b in zip(heads, case['blocks']) if b.get('hb'))
        i = 0
        while i < len(glines) and i < len(elines) and (glines[i] == elines[i] or (i in alt and glines[i] == alt[i])):
            i += 1
        if not (alt and i == len(glines) == len(elines)):
            cls = classes[i] if i < len(classes) else 'end-of-text'
            out.append(('roundtrip-differs/' + cls,
                        '[%s] str(Changelog(T)) != T at line %d: wrote %s, got %s' % (
                            form, i + 1, _r(elines[i] if i < len(elines) else '<end>'), _r(glines[i] if i < len(glines) else '<end>'))))
    # -- blocks and attributes
    blocks = case['blocks']
    try:
        got_blocks = list(cl)
        if len(got_blocks) != len(blocks) or len(cl) != len(blocks):
            out.append(('block-count-differs', '[%s] wrote %d blocks, parsed %d (len() %d)' % (form, len(blocks), len(got_blocks), len(cl))))
            return out
        for i, (b, g) in enumerate(zip(blocks, got_blocks)):
            if stats is not None:
                stats['M.attrs'] += 1
            for name, w, have in block_problems(b, g):
                out.append(('attribute-differs/' + name, '[%s] block %d %s: wrote %s, parsed %s' % (form, i, name, _r(w), _r(have))))
        vs = [str(v) for v in cl.versions]
        if vs != [b['v'] for b in blocks]:
            out.append(('attribute-differs/versions-order', '[%s] Changelog.versions %s, written order %s' % (form, _r(vs), _r([b['v'] for b in blocks]))))
        if cl.package != blocks[0]['p'] or str(cl.version) != blocks[0]['v']:
            out.append(('attribute-differs/first-block-accessors', '[%s] Changelog.package/version = %s/%s, first block written %s/%s' % (
                form, _r(cl.package), _r(str(cl.version)), _r(blocks[0]['p']), _r(blocks[0]['v']))))
    except Exception as e:
        out.append(('attribute-access-raises/' + type(e).__name__, '[%s] reading block attributes raised %s: %s' % (form, type(e).__name__, _r(str(e)))))
    if deep:
        have = set(k for k, _m in out)
        with warnings.catch_warnings():
            warnings.simplefilter('ignore')      # "without any warning" is about parsing; an accessor may e.g. deprecate itself
            more = deep_accessors(cl, case, form, stats)
        out.extend((k, m) for k, m in more if k not in have)
    return out


def _unformed(res):
    """Violation list without the '[form] ' message prefix."""
    return [(k, m.split('] ', 1)[-1]) for k, m in res]


def evaluate(case, stats=None, mon=None, deep_forms=1, every_form=False):
    """Run one model through every requested input form.  Returns [(key, msg)] with one entry per key.
    The per-accessor sweep (deep_accessors) runs in `deep_forms` of the forms of a model (rotating with the text
    length: what an accessor exposes should not depend on how the text came in; the sweep costs as much as the parse)."""
    text, lines, classes = render(case)
    if case.get('form'):
        forms = [case['form']]
    elif every_form or str(case.get('wl', '')).startswith(('bl-', 'tb-')):
        forms = ALL_FORMS          # the blank-line / trailing-blanks classes (and witnesses being shrunk): all twelve
    elif mon == 'M.big':
        forms = FORMS              # size class: the nine forms it always had (cost)
    else:
        forms = FORMS + (NONL_BYTES_FORMS[len(text) % len(NONL_BYTES_FORMS)],)
    has_break = any(ch in text for ch in NON_LF_BREAKS)
    if deep_forms == 1 and not case.get('wl') and len(text) % 3:
        deep_forms = 0            # untagged ordinary models: a third of them is enough (cost)
    deep_at = set((len(text) + k * 4) % len(forms) for k in range(deep_forms))
    found = {}
    for fi, form in enumerate(forms):
        if stats is not None:
            stats['M'] += 1
            stats['form:' + form] += 1
            if mon:
                stats[mon] += 1
            if form in NONL_BYTES_FORMS:
                # where this case hands over an EMPTY bytes item
                for cls in set(classes):
                    if 'blank' in cls:
                        stats['nonl-bytes:empty-item:' + cls] += 1
                if any(inner_blank(b) for b in case['blocks']):
                    stats['nonl-bytes:empty-item:blank-between-change-paragraphs'] += 1
        res = check_form(case, form, text, lines, classes, stats, deep=fi in deep_at)
        if res and has_break and form in SPLITTING_FORMS:
            # mechanism test: the disagreement is "the library's own line splitting cut a change line at a
            # non-LF boundary" iff the result differs from what the very same text gives when handed over
            # already split at LF only, and is exactly what the library does with the text pre-cut at every
            # Unicode line boundary (str.splitlines) - same complaints, same lines.  Complaints that the
            # LF-only form shows too keep their own keys.
            as_cut = _unformed(check_form(case, 'lines', text, lines, classes, None, input_lines=text.splitlines()))
            lf_only = _unformed(check_form(case, 'lines', text, lines, classes, None))
            if _unformed(res) != lf_only and _unformed(res) == as_cut:
                first = [m for (k, m) in res if (k, m.split('] ', 1)[-1]) not in lf_only][0]
                res = [(k, m) for (k, m) in res if (k, m.split('] ', 1)[-1]) in lf_only]
                res.append(('text-input-split-at-non-LF-line-boundary',
                            '[%s] change text containing U+000C/U+0085/U+2028/U+2029 is cut into several lines when '
                            'the changelog is given as one str/bytes (not when given as lines or a file): %s' % (form, first)))
        for key, msg in res:
            if key not in found:
                found[key] = [msg, [form]]
            else:
                found[key][1].append(form)
    return [(k, '%s (forms showing it: %s)' % (m, ','.join(fs))) for k, (m, fs) in found.items()]


# ---------------------------------------------------------------------------
# SECOND USE of the same objects, class (a): one Changelog object parses several texts in turn
#
# case = {'kind': 'reuse', 'steps': [step, ...]}
# step = {'o': 0|1            which Changelog object of the case the step is executed on
#         'via': 'ctor' | 'ctor-kw' | 'method' | 'method-kw'
#                             ctor*: the object is CREATED by this step, Changelog(data, ...) / Changelog(file=data, ...)
#                             method*: obj.parse_changelog(data, ...) / obj.parse_changelog(file=data, ...); an object
#                             that does not exist yet is created with Changelog() first
#         'm': <'cl' model>   always a model inside the grammar
#         'form': one of DATA_FORMS
#         'strict': True | False | None (argument left out: constructor default False, method default True)
#         'dirt': None        the text is render(m): a JUDGED step
#                 or [kind, ...]  the text is render(m) damaged (see dirty_input): NEVER judged, it only
#                             produces the state the next judged step has to get rid of}

DATA_FORMS = ('str', 'bytes', 'lines', 'lines-nl', 'blines', 'file', 'bfile', 'iter')
VIAS = ('ctor', 'ctor-kw', 'method', 'method-kw')
DIRT_KINDS = ('trail', 'trunc', 'lead', 'mid', 'trailer1', 'badhead', 'max', 'none', 'empty')
TRAIL_JUNK = [['# comment after the last block'], ['vim: set ft=changelog:', 'anything at all'],
              ['Local variables:', 'mode: debian-changelog', 'End:'], ['garbage'], ['', 'garbage line', ''],
              ['Old Changelog:', 'free text', '  * more'], ['$Id: changelog 1 $'], ['/* c comment */'],
              ['hello (0.1) unstable'], ['  * stray change'], ['', '', ''],
              [' -- A B <a@b.c>  Mon, 06 Jan 2020 01:02:03 +0000'], ['hello (0.0-1) unstable; urgency=low']]
LEAD_JUNK = [['garbage'], ['# comment before the first block'], ['  * stray change'], ['$Id: x $', ''],
             [' -- A B <a@b.c>  Mon, 06 Jan 2020 01:02:03 +0000'], ['', 'garbage', ''], ['/* c */']]
MID_JUNK = ['garbage', 'x', 'not indented: text', ' one blank only', '--']
HEAD_JUNK = [', junk', ', urgency=high', ', =x', ', binary-only']
EMPTY_TEXTS = ['', '\n', '\n\n\n', '  \n', ' ']


def _is_model(m):
    return (isinstance(m, dict) and m.get('kind') == 'cl' and m.get('form') is None and grammar_problem(m) is None
            and not any(b.get('hb') for b in m['blocks']))      # heading blanks: first-use classes only (see ASSUMPTIONS)


def _strs(x):
    return isinstance(x, list) and all(isinstance(l, str) and '\n' not in l and '\r' not in l for l in x)


def dirt_problem(m, dirt):
    if dirt is None:
        return None
    if not (isinstance(dirt, list) and dirt and dirt[0] in DIRT_KINDS):
        return 'dirt'
    k = dirt[0]
    nb = len(m['blocks'])
    ok = {'trail': lambda: len(dirt) == 2 and _strs(dirt[1]) and dirt[1],
          'lead': lambda: len(dirt) == 2 and _strs(dirt[1]) and dirt[1],
          'trunc': lambda: len(dirt) == 2 and isinstance(dirt[1], int) and dirt[1] >= 1,
          'mid': lambda: len(dirt) == 3 and isinstance(dirt[1], int) and 0 <= dirt[1] < nb and _strs([dirt[2]]),
          'trailer1': lambda: len(dirt) == 2 and isinstance(dirt[1], int) and 0 <= dirt[1] < nb,
          'badhead': lambda: len(dirt) == 3 and isinstance(dirt[1], int) and 0 <= dirt[1] < nb and _strs([dirt[2]]),
          'max': lambda: len(dirt) == 2 and isinstance(dirt[1], int) and dirt[1] >= 0,
          'none': lambda: len(dirt) == 1,
          'empty': lambda: len(dirt) == 2 and isinstance(dirt[1], str) and not dirt[1].strip()}[k]()
    return None if ok else 'dirt ' + k


def reuse_problem(case):
    try:
        steps = case['steps']
        if not (isinstance(steps, list) and 1 <= len(steps) <= 12):
            return 'steps'
        created = set()
        for st in steps:
            if st['o'] not in (0, 1) or st['via'] not in VIAS or st['form'] not in DATA_FORMS:
                return 'step'
            if st.get('strict') not in (True, False, None):
                return 'strict'
            if not _is_model(st['m']):
                return 'step model outside the grammar'
            why = dirt_problem(st['m'], st.get('dirt'))
            if why:
                return why
            created.add(st['o'])
    except (KeyError, TypeError, ValueError, IndexError) as e:
        return 'malformed reuse case (%s)' % type(e).__name__
    return None


def dirty_input(m, dirt, form):
    """(data, extra keyword arguments) for a damaged step."""
    text, lines, classes = render(m)
    lines = list(lines)
    k = dirt[0]
    kw = {}
    if k == 'none':
        return None, kw
    if k == 'empty':
        return (dirt[1].encode('utf-8') if form in ('bytes', 'blines', 'bfile') else dirt[1]), kw
    heads = [i for i, c in enumerate(classes) if c == 'header-line']
    tails = [i for i, c in enumerate(classes) if c == 'trailer-line']
    if k == 'trail':
        lines = lines + list(dirt[1])
    elif k == 'lead':
        lines = list(dirt[1]) + lines
    elif k == 'trunc':
        lines = lines[:max(1, len(lines) - dirt[1])]
    elif k == 'mid':
        at = min(heads[dirt[1]] + 2, tails[dirt[1]])
        lines.insert(at, dirt[2])
    elif k == 'trailer1':
        i = tails[dirt[1]]
        a, b = lines[i].rsplit('>  ', 1)
        lines[i] = a + '> ' + b
    elif k == 'badhead':
        lines[heads[dirt[1]]] += dirt[2]
    elif k == 'max':
        kw['max_blocks'] = dirt[1]
    return build_input(form, '\n'.join(lines) + '\n', lines), kw


def _call_step(dc, objs, st, data, kw):
    """Execute one step; returns the exception it raised (or None).  objs[o] is set as soon as the object exists."""
    o, via = st['o'], st['via']
    kw = dict(kw)
    if st.get('strict') is not None:
        kw['strict'] = st['strict']
    try:
        if o not in objs and via.startswith('ctor'):
            objs[o] = dc.Changelog(data, **kw) if via == 'ctor' else dc.Changelog(file=data, **kw)
            return None
        if o not in objs:
            objs[o] = dc.Changelog()
        if via.endswith('-kw'):
            objs[o].parse_changelog(file=data, **kw)
        else:
            objs[o].parse_changelog(data, **kw)
        return None
    except Exception as e:
        return e


def run_reuse(case, stats=None):
    from debian import changelog as dc
    if stats is None:
        stats = collections.Counter()
    found = []
    objs = {}
    uses = collections.Counter()     # o -> calls already made on the existing object (incl. its constructor call)
    prev = {}                        # o -> (tag of the previous step, its model)
    clean = {}                       # o -> (m, text, lines, classes) while the object is known to hold exactly m
    stats['reuse:case'] += 1
    for si, st in enumerate(case['steps']):
        o, m, form, dirt = st['o'], st['m'], st['form'], st.get('dirt')
        text, lines, classes = render(m)
        existed = o in objs
        if dirt is None:
            data, kw = build_input(form, text, lines), {}
        else:
            data, kw = dirty_input(m, dirt, form)
        with warnings.catch_warnings(record=True) as caught:
            warnings.simplefilter('always')
            exc = _call_step(dc, objs, st, data, kw)
        nth = uses[o] if existed else 0
        label = 'step %d, object %d, %s, %s' % (si, o, st['via'], form)
        if dirt is not None:
            how = ('raised-' + type(exc).__name__) if exc is not None else ('warned' if caught else 'silent')
            stats['reuse:dirty-step:%s:%s' % (dirt[0], how)] += 1
            clean[o] = None
            tag = 'dirty:%s:%s' % (dirt[0], 'raised' if exc is not None else ('warned' if caught else 'silent'))
        else:
            res = []
            if isinstance(exc, dc.ChangelogParseError):
                res.append(('strict-parse-rejects-wellformed/' + classify_parse_error(str(exc)),
                            '[%s] strict parse of a well-formed changelog raised: %s' % (label, _r(str(exc)))))
            elif exc is not None:
                res.append(('parse-raises/' + type(exc).__name__, '[%s] %s: %s' % (label, type(exc).__name__, _r(str(exc)))))
            else:
                if caught:
                    res.append(('parse-warns-on-wellformed/' + classify_parse_error(str(caught[0].message)),
                                '[%s] parse warned: %s' % (label, _r(str(caught[0].message)))))
                res.extend(judge_object(objs[o], m, label, text, lines, classes, stats, deep=True))
            if nth >= 1:
                stats['M.reuse'] += 1
                stats['reuse:second-use' if nth == 1 else 'reuse:third-or-later-use'] += 1
                ptag, pm = prev[o]
                stats['reuse:after:' + ptag] += 1
                if ptag.startswith('dirty:'):
                    stats['reuse:after-damaged-text:' + ptag.split(':')[1]] += 1
                if not st['via'].startswith('ctor') and uses.get(('ctor', o)):
                    stats['reuse:object-made-by-constructor-with-text'] += 1
                d = len(m['blocks']) - len(pm['blocks'])
                stats['reuse:blocks:' + ('fewer' if d < 0 else 'more' if d > 0 else 'same')] += 1
                dl = m.get('lead', 0) - pm.get('lead', 0)
                stats['reuse:leading-blank-lines:' + ('fewer' if dl < 0 else 'more' if dl > 0 else 'same')] += 1
                # control: the same text, same form, FRESH object
                ctl_res, ctl = None, None
                if exc is None:
                    try:
                        with warnings.catch_warnings(record=True):
                            warnings.simplefilter('always')
                            ctl = dc.Changelog(build_input(form, text, lines), strict=True)
                        a, b = list(objs[o].initial_blank_lines), list(ctl.initial_blank_lines)
                        if a != b:
                            res.append(('initial-blank-lines-differ', '[%s] initial_blank_lines %s, a fresh Changelog of the '
                                        'same text has %s' % (label, _r(a), _r(b))))
                    except Exception:
                        ctl = None
                if res:
                    ctl_keys = set(k for k, _m in check_form(m, form, text, lines, classes, None, deep=True))
                    for k, msg in res:
                        if k in ctl_keys:
                            found.append((k, msg))
                        else:
                            found.append(('reused-object-differs-from-fresh/' + k,
                                          '%s  [the object had parsed %d text(s) before (previous call: %s); a fresh '
                                          'Changelog given the same text in the same form does not show this]'
                                          % (msg, nth, ptag)))
            else:
                found.extend(res)
            clean[o] = None if res else (m, text, lines, classes)
            tag = 'clean'
        if o in objs:
            uses[o] += 1
            if not existed and st['via'].startswith('ctor'):
                uses[('ctor', o)] = 1
        prev[o] = (tag, m)
        # the OTHER object of the case must not notice
        for o2, stt in list(clean.items()):
            if o2 != o and stt is not None and o2 in objs:
                stats['M.reuse.other'] += 1
                r2 = judge_object(objs[o2], stt[0], 'object %d re-read after step %d on object %d' % (o2, si, o),
                                  stt[1], stt[2], stt[3], None)
                for k, msg in r2:
                    found.append(('earlier-object-changed-by-later-parse/' + k, msg))
                if r2:
                    clean[o2] = None
    return _dedupe(found)


def _dedupe(found):
    """One entry per key; for the caller-side mutation keys one per key stem (a disagreement that is still there
    after the NEXT mutation belongs to the one after which it was first seen)."""
    out, seen = [], set()
    for k, m in found:
        stem = k.split('/mutated:', 1)[0]
        if stem not in seen:
            seen.add(stem)
            out.append((k, m))
    return out


# ---------------------------------------------------------------------------
# SECOND USE of the same objects, class (b): the caller mutates values the object handed out
#
# case = {'kind': 'handout', 'm': <'cl' model>, 'form': FORMS member,
#         'muts': [{'src': source, 'blk': block index, 'op': [...]}, ...],
#         'later': [<'cl' model>, ...]}     other texts (usually sharing a version string with a touched block)

VERSION_SRCS = ('block.version', 'cl[i].version', 'cl[str].version', 'cl[Version].version', 'cl.version',
                'cl.get_version()', 'cl.versions[i]', 'cl.get_versions()[i]')
FIRST_ONLY_SRCS = ('cl.version', 'cl.get_version()')
CONTAINER_SRCS = {'block.changes()': 'changes-list', 'block.other_pairs': 'other-pairs-dict',
                  'block.bugs_closed': 'bugs-list', 'block.lp_bugs_closed': 'bugs-list',
                  'block.other_keys_normalised()': 'normalised-keys-dict', 'cl.versions': 'versions-list',
                  'cl.get_versions()': 'versions-list', 'cl.initial_blank_lines': 'initial-blank-lines-list'}
VERSION_ATTRS = ('epoch', 'upstream_version', 'debian_revision', 'debian_version', 'full_version')
VERSION_OPS = [['epoch', '3'], ['epoch', None], ['epoch', '0'], ['upstream_version', '9.9z'], ['upstream_version', '0'],
               ['debian_revision', '77'], ['debian_revision', None], ['debian_version', '8~x'],
               ['full_version', '7:6.5-4'], ['full_version', '0']]
LIST_OPS = [['append', '  * injected by the caller'], ['insert0', '  * injected first'], ['clear'], ['pop'],
            ['set0', '  * overwritten by the caller'], ['reverse'], ['extend', ['', '  * two', '']]]
DICT_OPS = [['set', 'X-Injected', 'yes'], ['set', 'binary-only', 'injected'], ['clear'], ['popitem']]
INT_LIST_OPS = [['append', 999999], ['clear']]
VLIST_OPS = [['append-version', '99:9-9'], ['clear'], ['pop'], ['reverse'], ['item', 0, 'debian_revision', '66'],
             ['item', 0, 'full_version', '4:3-2']]
BLANK_OPS = [['append', ''], ['clear'], ['append', 'caller text']]
LIVE_CLASSES = frozenset(['changes-list', 'other-pairs-dict', 'initial-blank-lines-list'])


def _ops_for(src):
    if src in VERSION_SRCS:
        return VERSION_OPS
    return {'changes-list': LIST_OPS, 'other-pairs-dict': DICT_OPS, 'bugs-list': INT_LIST_OPS,
            'normalised-keys-dict': DICT_OPS, 'versions-list': VLIST_OPS,
            'initial-blank-lines-list': BLANK_OPS}[CONTAINER_SRCS[src]]


def _src_class(src):
    return 'version-object' if src in VERSION_SRCS else CONTAINER_SRCS[src]


def handout_problem(case):
    try:
        if not _is_model(case['m']):
            return 'model outside the grammar'
        if case['form'] not in FORMS:
            return 'form'
        nb = len(case['m']['blocks'])
        if not (isinstance(case['muts'], list) and 1 <= len(case['muts']) <= 8):
            return 'muts'
        for mu in case['muts']:
            src = mu['src']
            if src not in VERSION_SRCS and src not in CONTAINER_SRCS:
                return 'src'
            if not (isinstance(mu['blk'], int) and 0 <= mu['blk'] < nb):
                return 'blk'
            if src in FIRST_ONLY_SRCS and mu['blk'] != 0:
                return 'blk of a first-block accessor'
            op = mu['op']
            if not (isinstance(op, list) and op):
                return 'op'
            if src in VERSION_SRCS:
                if not (len(op) == 2 and op[0] in VERSION_ATTRS and (op[1] is None or isinstance(op[1], str))):
                    return 'version op'
                if op[1] is None and op[0] == 'full_version':
                    return 'version op'
            elif op[0] not in ('append', 'insert0', 'clear', 'pop', 'set0', 'reverse', 'extend', 'set', 'popitem',
                               'append-version', 'item'):
                return 'container op'
        if not (isinstance(case.get('later', []), list) and len(case.get('later', [])) <= 4):
            return 'later'
        for lm in case.get('later', []):
            if not _is_model(lm):
                return 'later model outside the grammar'
    except (KeyError, TypeError, ValueError, IndexError) as e:
        return 'malformed handout case (%s)' % type(e).__name__
    return None


def _obtain(dc, cl, src, i, vstr):
    """(handed-out value, index of the block it belongs to or None)."""
    from debian.debian_support import Version
    if src in ('cl[str].version', 'cl[Version].version'):
        g = cl[vstr] if src == 'cl[str].version' else cl[Version(vstr)]
        idx = [j for j, x in enumerate(cl) if x is g]
        return g.version, (idx[0] if idx else None)
    if src == 'block.version':
        return list(cl)[i].version, i
    if src == 'cl[i].version':
        return cl[i].version, i
    if src == 'cl.version':
        return cl.version, 0
    if src == 'cl.get_version()':
        return cl.get_version(), 0
    if src == 'cl.versions[i]':
        return cl.versions[i], i
    if src == 'cl.get_versions()[i]':
        return cl.get_versions()[i], i
    if src == 'cl.versions':
        return cl.versions, None
    if src == 'cl.get_versions()':
        return cl.get_versions(), None
    if src == 'cl.initial_blank_lines':
        return cl.initial_blank_lines, None
    g = list(cl)[i]
    if src == 'block.changes()':
        return g.changes(), i
    if src == 'block.other_pairs':
        return g.other_pairs, i
    if src == 'block.bugs_closed':
        return g.bugs_closed, i
    if src == 'block.lp_bugs_closed':
        return g.lp_bugs_closed, i
    if src == 'block.other_keys_normalised()':
        return g.other_keys_normalised(), i
    raise ValueError(src)


def _apply(value, src, op):
    from debian.debian_support import Version
    if src in VERSION_SRCS:
        setattr(value, op[0], op[1])
        return
    k = op[0]
    if k == 'append':
        value.append(op[1])
    elif k == 'insert0':
        value.insert(0, op[1])
    elif k == 'clear':
        value.clear()
    elif k == 'pop':
        value.pop()
    elif k == 'set0':
        value[0] = op[1]
    elif k == 'reverse':
        value.reverse()
    elif k == 'extend':
        value.extend(op[1])
    elif k == 'set':
        value[op[1]] = op[2]
    elif k == 'popitem':
        value.popitem()
    elif k == 'append-version':
        value.append(Version(op[1]))
    elif k == 'item':
        setattr(value[op[1]], op[2], op[3])
    else:
        raise ValueError(k)


def _heading_version(g):
    """The version the block's own heading line shows now (None if the block cannot be formatted)."""
    try:
        head = str(g).split('\n', 1)[0]
    except Exception:
        return None
    a = head.find('(')
    z = head.find(')', a + 1)
    if a < 0 or z < 0:
        return None
    return head[a + 1:z]


# what this process did to handed-out values so far (an ordinary case that fails afterwards may be a consequence)
TAINT = {}             # version string -> the handout case that mutated a Version handed out for it
TAINTED = [None]       # the last handout case that mutated anything
CONFIRM_BUDGET = [4]     # findings per shard process re-executed in a fresh interpreter
SHRINK_BUDGET = [40]     # second-use witnesses per shard process that are shrunk
STATEFUL_KEYS = set()


def _fresh(dc, m, form):
    """(Changelog or None, rendering, [(key, msg)]) - parse one model freshly and judge it."""
    text, lines, classes = render(m)
    res = check_form(m, form, text, lines, classes, None)
    return res


def run_handout(case, stats=None):
    from debian import changelog as dc
    if stats is None:
        stats = collections.Counter()
    m, form = case['m'], case['form']
    blocks = m['blocks']
    nb = len(blocks)
    text, lines, classes = render(m)
    stats['handout:case'] += 1

    def parse(model, f):
        t, ls, cs = render(model)
        with warnings.catch_warnings(record=True) as caught:
            warnings.simplefilter('always')
            if f == 'method':
                c = dc.Changelog()
                c.parse_changelog(build_input(f, t, ls), strict=True)
            else:
                c = dc.Changelog(build_input(f, t, ls), strict=True)
        return c, (t, ls, cs), list(caught)

    # -- before any mutation: subject, a sibling of the same text, objects of the other texts; all must be clean
    kept = []       # (relation, object, model, rendering)
    try:
        cl, rend, w0 = parse(m, form)
        sib, _rs, w1 = parse(m, 'lines-nl' if form != 'lines-nl' else 'str')
        pre = [('[subject] ', cl, m, rend), ('[sibling] ', sib, m, rend)]
        kept.append(('same-text', sib, m, rend))
        for lm in case.get('later', []):
            c2, r2, w2 = parse(lm, 'str')
            w1 = w1 + w2
            pre.append(('[other text] ', c2, lm, r2))
            kept.append(('other-text', c2, lm, r2))
    except Exception:
        # a fresh strict parse of a well-formed text failed: that is the ordinary workload's finding
        stats['handout:baseline-failed'] += 1
        return _dedupe(check_form(m, form, text, lines, classes, None) +
                       [x for lm in case.get('later', []) for x in _fresh(dc, lm, 'str')])
    base = []
    if w0 or w1:
        base.append(('parse-warns-on-wellformed/' + classify_parse_error(str((w0 + w1)[0].message)),
                     '[handout baseline] strict parse warned: %s' % _r(str((w0 + w1)[0].message))))
    for lab, c, mm, (t, ls, cs) in pre:
        rb = judge_object(c, mm, 'handout baseline ' + lab.strip('[] '), t, ls, cs, stats, deep=True)
        if rb:
            # judged after ALL objects of the case were built: is it the parse, or did a later parse change it?
            alone = set(k for k, _m in check_form(mm, 'str', t, ls, cs, None, deep=True))
            rb = [(k, msg) if k in alone else
                  ('earlier-object-changed-by-later-parse/' + k, msg + '  [several Changelog objects alive at the same '
                   'time; the same text parsed on its own is clean]') for k, msg in rb]
        base.extend(rb)
    if base:
        stats['handout:baseline-failed'] += 1
        return _dedupe(base)

    found = []
    later = [('same-text', m, form, rend), ('same-text', m, 'str' if form != 'str' else 'lines', rend)]
    later += [('other-text', lm, 'str', render(lm)) for lm in case.get('later', [])]
    touched = set()
    touched_versions = set()
    cl_touched = set()
    classes_used = []
    for mu in case['muts']:
        src, i, op = mu['src'], mu['blk'], mu['op']
        sc = _src_class(src)
        try:
            value, idx = _obtain(dc, cl, src, i, blocks[i]['v'])
        except Exception as e:
            stats['handout:obtain-raised:%s:%s' % (src, type(e).__name__)] += 1
            continue
        if sc not in classes_used:
            classes_used.append(sc)
        if idx is not None:
            touched.add(idx)
            touched_versions.add(blocks[idx]['v'])
            if src in VERSION_SRCS:
                TAINT.setdefault(blocks[idx]['v'], case)
        else:
            cl_touched.add(sc)
            if sc == 'versions-list' and op[0] == 'item' and op[1] < nb:
                TAINT.setdefault(blocks[op[1]]['v'], case)
                touched.add(op[1])
                touched_versions.add(blocks[op[1]]['v'])
        TAINTED[0] = case
        stats['handout:src:' + src] += 1
        if src in VERSION_SRCS:
            stats['handout:version-attr:' + op[0]] += 1
        try:
            _apply(value, src, op)
            stats['handout:mutated:' + src] += 1
        except Exception as e:
            stats['handout:mutation-raised:%s' % type(e).__name__] += 1
        tagc = '/mutated:' + sc      # observations are made after every single mutation: blame the last one
        label = 'after %s %s on block %s' % (src, _r(op, 80), idx)
        # ---- the subject itself
        stats['M.handout'] += 1
        try:
            got = list(cl)
            if len(got) != nb or len(cl) != nb:
                found.append(('handed-out-mutation-changed-block-count' + tagc,
                              '[%s] %d blocks written, iteration gives %d, len() %d' % (label, nb, len(got), len(cl))))
                break
            vers = [str(v) for v in cl.versions]
            # values a block may legitimately hand out LIVE (the unchanged tree does): after mutating one of them
            # the text of THAT block is the library's business
            all_same = not (set(classes_used) & LIVE_CLASSES)
            for j, (b, g) in enumerate(zip(blocks, got)):
                probs = block_problems(b, g)
                if j in touched:
                    stats['handout:touched-block:' + ('changed' if probs else 'unchanged')] += 1
                    if probs:
                        all_same = False
                    hv = _heading_version(g)
                    if hv is None:
                        stats['handout:touched-block:unformattable'] += 1
                        all_same = False
                        continue
                    views = [('block.version', str(g.version))]
                    if len(vers) == nb:
                        views.append(('cl.versions[%d]' % j, vers[j]))
                    if j == 0:
                        views.append(('cl.version', str(cl.version)))
                        views.append(('cl.get_version()', str(cl.get_version())))
                    for name, val in views:
                        if val != hv:
                            found.append(('handed-out-mutation/block-version-disagrees-with-its-own-heading' + tagc,
                                          '[%s] %s is now %s but the heading line of that block (str(block)) says (%s); '
                                          'written: %s' % (label, name, _r(val), hv, _r(b['v']))))
                            break
                else:
                    same_v = b['v'] in touched_versions
                    if same_v:
                        stats['handout:untouched-block-with-the-same-version-string'] += 1
                    else:
                        stats['handout:untouched-block'] += 1
                    suffix = '/block-with-the-same-version-string' if same_v else ''
                    for name, w, have in probs:
                        found.append(('handed-out-mutation-changed-other-block/%s%s%s' % (name, suffix, tagc),
                                      '[%s] block %d (not touched) %s: wrote %s, now %s' % (label, j, name, _r(w), _r(have))))
                    if len(vers) == nb and vers[j] != b['v']:
                        found.append(('handed-out-mutation-changed-other-block/versions-list%s%s' % (suffix, tagc),
                                      '[%s] Changelog.versions[%d] (block not touched): wrote %s, now %s'
                                      % (label, j, _r(b['v']), _r(vers[j]))))
            if len(vers) != nb and 'versions-list' not in cl_touched:
                found.append(('handed-out-mutation-changed-block-count' + tagc,
                              '[%s] Changelog.versions has %d entries, %d blocks' % (label, len(vers), nb)))
            if all_same:
                stats['handout:subject-fully-rejudged'] += 1
                for k, msg in judge_object(cl, m, label, text, lines, classes, stats):
                    found.append(('handed-out-mutation-changed-the-changelog/%s%s' % (k, tagc), msg))
            else:
                # the text outside the touched blocks: everything before the heading of the first touched block
                # and everything from the heading that follows the last touched block
                stats['handout:subject-text-outside-touched-blocks'] += 1
                heads = [x for x, c in enumerate(classes) if c == 'header-line']
                tmin = min(touched) if touched else nb
                tmax = max(touched) if touched else -1
                pre_n = heads[tmin] if tmin < nb else len(lines)
                suf_n = (len(lines) - heads[tmax + 1]) if tmax + 1 < nb else 0
                if 'initial-blank-lines-list' in cl_touched:
                    pre_n = 0
                try:
                    gl = str(cl).split('\n')
                except Exception:
                    gl = None
                    stats['handout:subject-unformattable'] += 1
                if gl is not None:
                    if gl and gl[-1] == '':
                        gl.pop()
                    if gl[:pre_n] != lines[:pre_n]:
                        found.append(('handed-out-mutation-changed-other-block/text-before-the-touched-block' + tagc,
                                      '[%s] the first %d lines of str(changelog) (up to the heading of the touched block) '
                                      'were %s, now %s' % (label, pre_n, _r(lines[:pre_n]), _r(gl[:pre_n]))))
                    if suf_n and gl[len(gl) - suf_n:] != lines[len(lines) - suf_n:]:
                        found.append(('handed-out-mutation-changed-other-block/text-after-the-touched-block' + tagc,
                                      '[%s] the last %d lines of str(changelog) (from the heading after the touched block) '
                                      'were %s, now %s' % (label, suf_n, _r(lines[len(lines) - suf_n:]), _r(gl[len(gl) - suf_n:]))))
        except Exception as e:
            found.append(('handed-out-mutation/reading-raises/%s%s' % (type(e).__name__, tagc),
                          '[%s] reading the changelog after the caller-side mutation raised %s: %s'
                          % (label, type(e).__name__, _r(str(e)))))
            break
        # ---- the objects that existed before the mutation
        for ki, (rel, c, mm, (t, ls, cs)) in enumerate(kept):
            if c is None:
                continue
            stats['M.handout.later'] += 1
            shares = any(b['v'] in touched_versions for b in mm['blocks'])
            stats['handout:existing-object:%s%s' % (rel, ':shares-version-string' if shares else '')] += 1
            r2 = judge_object(c, mm, 'another Changelog (%s) built BEFORE; %s' % (rel, label), t, ls, cs, None)
            for k, msg in r2:
                found.append(('handed-out-mutation-changed-another-changelog/%s/%s%s' % (rel, k, tagc), msg))
            if r2:
                kept[ki] = (rel, None, mm, (t, ls, cs))
        # ---- objects built afterwards (after EVERY mutation, so that the mutation to blame is known)
        for li, (rel, mm, f, (t, ls, cs)) in enumerate(later):
            if mm is None:
                continue
            stats['M.handout.later'] += 1
            shares = any(b['v'] in touched_versions for b in mm['blocks'])
            stats['handout:fresh-object:%s%s' % (rel, ':shares-version-string' if shares else '')] += 1
            r3 = check_form(mm, f, t, ls, cs, None)
            for k, msg in r3:
                found.append(('handed-out-mutation-visible-in-later-parse/%s/%s%s' % (rel, k, tagc),
                              '%s  [fresh Changelog built AFTER the caller mutated a value handed out by an earlier one '
                              '(%s); the same parse was clean before]' % (msg, label)))
            if r3:
                later[li] = (rel, None, f, None)
    return _dedupe(found)


def run_seq(case, stats=None):
    found = []
    for c in case['cases']:
        found.extend(evaluate_any(c, stats))
    return _dedupe(found)


def case_problem(case):
    kind = case.get('kind') if isinstance(case, dict) else None
    if kind == 'cl':
        return grammar_problem(case)
    if kind == 'reuse':
        return reuse_problem(case)
    if kind == 'handout':
        return handout_problem(case)
    if kind == 'big':
        return big_problem(case)
    if kind == 'twin':
        return twin_problem(case)
    if kind == 'seq':
        if not (isinstance(case.get('cases'), list) and 1 <= len(case['cases']) <= 6):
            return 'seq'
        for c in case['cases']:
            if not isinstance(c, dict) or c.get('kind') == 'seq':
                return 'seq member'
            why = case_problem(c)
            if why:
                return why
        return None
    return 'unknown kind'


def evaluate_any(case, stats=None):
    kind = case['kind']
    if kind == 'cl':
        return evaluate(case, stats)
    if kind == 'reuse':
        return run_reuse(case, stats)
    if kind == 'handout':
        return run_handout(case, stats)
    if kind == 'big':
        return run_big(case, stats)
    if kind == 'twin':
        return run_twin(case, stats)
    return run_seq(case, stats)


NEW_KEY_PREFIXES = ('reused-object-differs-from-fresh/', 'earlier-object-changed-by-later-parse/',
                    'handed-out-mutation', 'depends-on-earlier-calls-in-this-process/')


def is_ordinary_key(key):
    return not key.startswith(NEW_KEY_PREFIXES)


# ---------------------------------------------------------------------------
# generators of the two second-use classes

def gen_dirt(r, m):
    nb = len(m['blocks'])
    k = r.choice(DIRT_KINDS)
    if k == 'trail':
        return ['trail', list(r.choice(TRAIL_JUNK))]
    if k == 'lead':
        return ['lead', list(r.choice(LEAD_JUNK))]
    if k == 'trunc':
        last = m['blocks'][-1]
        return ['trunc', r.randint(1, len(last['body']) + 1)]
    if k == 'mid':
        return ['mid', r.choice([0, nb - 1]), r.choice(MID_JUNK)]
    if k == 'trailer1':
        return ['trailer1', r.choice([0, nb - 1])]
    if k == 'badhead':
        return ['badhead', r.choice([0, nb - 1]), r.choice(HEAD_JUNK)]
    if k == 'max':
        return ['max', r.randint(0, max(0, nb - 1))]
    if k == 'none':
        return ['none']
    return ['empty', r.choice(EMPTY_TEXTS)]


def gen_reuse_model(r, wide):
    m = gen_model(r, wide)
    m['lead'] = r.choice([0, 0, 1, 2, 3])
    return m


def gen_reuse(r, wide):
    steps = []
    n0 = r.choice([2, 2, 3, 3, 4])
    two = r.random() < 0.35
    order = [0] * n0 + ([1] * r.choice([1, 2, 2]) if two else [])
    if two:
        # object 0 keeps its last position (its last step is judged), the rest is interleaved
        head = order[:-1]
        r.shuffle(head)
        order = head + [0]
        if r.random() < 0.5:
            order.append(1)
    seen = set()
    last_of = {}
    for i, o in enumerate(order):
        last_of[o] = i
    for i, o in enumerate(order):
        first = o not in seen
        seen.add(o)
        st = {'o': o, 'm': gen_reuse_model(r, wide), 'form': r.choice(DATA_FORMS), 'dirt': None, 'strict': None}
        if first:
            st['via'] = r.choice(['ctor', 'ctor-kw', 'ctor-kw', 'method', 'method-kw'])
        else:
            st['via'] = r.choice(['method', 'method', 'method-kw'])
        final = last_of[o] == i
        if not final and r.random() < 0.45:
            st['dirt'] = gen_dirt(r, st['m'])
            if st['via'].startswith('ctor'):
                st['strict'] = r.choice([None, None, False])      # a raising constructor leaves no object behind
            else:
                st['strict'] = r.choice([None, True, False, False])
        else:
            # judged step: mostly strict (for the method, None = its default = strict); sometimes not
            if st['via'].startswith('ctor'):
                st['strict'] = r.choice([True, True, True, None, False])
            else:
                st['strict'] = r.choice([True, True, None, None, False])
        steps.append(st)
    return {'kind': 'reuse', 'steps': steps}


def gen_handout(r, wide):
    nb = r.choice([1, 2, 2, 3, 3, 4])
    blocks = [gen_block(r, wide) for _ in range(nb)]
    for b in blocks[:-1]:
        b['gap'] = r.choice([1, 1, 1, 2])
    m = {'kind': 'cl', 'lead': r.choice([0, 0, 0, 1, 2]), 'blocks': blocks}
    if nb >= 2 and r.random() < 0.6:
        a, z = r.sample(range(nb), 2)
        blocks[z]['v'] = blocks[a]['v']
        if nb >= 3 and r.random() < 0.3:
            blocks[r.randrange(nb)]['v'] = blocks[a]['v']
    muts = []
    for _ in range(r.choice([1, 1, 1, 2, 3])):
        if r.random() < 0.65:
            src = r.choice(VERSION_SRCS)
        else:
            src = r.choice(sorted(CONTAINER_SRCS))
        i = 0 if src in FIRST_ONLY_SRCS else r.randrange(nb)
        op = r.choice(_ops_for(src))
        if src in VERSION_SRCS and r.random() < 0.3:
            attr = r.choice(['epoch', 'upstream_version', 'debian_revision', 'full_version'])
            op = [attr, {'epoch': str(r.randrange(10)), 'upstream_version': gen_ver(r).split(':')[-1].split('-')[0] or '1',
                         'debian_revision': str(r.randrange(100)), 'full_version': gen_ver(r)}[attr]]
        muts.append({'src': src, 'blk': i, 'op': [list(x) if isinstance(x, list) else x for x in op]})
    later = []
    for _ in range(r.choice([1, 1, 2])):
        lm = gen_model(r, wide)
        if r.random() < 0.85:
            lm['blocks'][r.randrange(len(lm['blocks']))]['v'] = blocks[muts[0]['blk']]['v']
        later.append(lm)
    return {'kind': 'handout', 'm': m, 'form': r.choice(FORMS), 'muts': muts, 'later': later}


def _mm(lead, specs):
    """Small fixed model: specs = [(version, extra block fields)], newest first."""
    blocks = []
    for i, (v, kw) in enumerate(specs):
        b = dict(BASE, v=v, gap=1, body=['', '  * entry %d of %s' % (i, v), ''])
        b.update(kw)
        blocks.append(b)
    blocks[-1]['gap'] = 0
    return {'kind': 'cl', 'lead': lead, 'blocks': blocks}


def reuse_matrix():
    """Fixed second-use cases (same for every seed and tier)."""
    A = _mm(0, [('1.0-1', {})])
    B = _mm(2, [('3.0-1', {'gap': 2}), ('2.0-1', {'d': ['stable', 'x+y'], 'u': 'HIGH'}), ('1.0-1', {'n': 'Zo\u00eb Q. X'})])
    C = _mm(1, [('2:1.0-2', {'c': '(security fix)', 'kv': [['binary-only', 'yes'], ['X-Foo', 'a b']]}),
                ('1.0-1', {'body': ['  * no blank around', '', '    second']})])
    models = [('A', A), ('B', B), ('C', C)]
    out = []
    forms = list(DATA_FORMS)
    n = [0]

    def form():
        n[0] += 1
        return forms[n[0] % len(forms)]

    def step(o, via, m, dirt=None, strict=None):
        return {'o': o, 'via': via, 'm': m, 'form': form(), 'dirt': dirt, 'strict': strict}

    dirts = []
    for junk in TRAIL_JUNK:
        dirts.append(lambda m, junk=junk: ['trail', list(junk)])
    for junk in LEAD_JUNK[:3]:
        dirts.append(lambda m, junk=junk: ['lead', list(junk)])
    dirts.append(lambda m: ['trunc', 1])
    dirts.append(lambda m: ['trunc', 2])
    dirts.append(lambda m: ['mid', len(m['blocks']) - 1, 'garbage'])
    dirts.append(lambda m: ['mid', 0, 'garbage'])
    dirts.append(lambda m: ['trailer1', len(m['blocks']) - 1])
    dirts.append(lambda m: ['trailer1', 0])
    dirts.append(lambda m: ['badhead', len(m['blocks']) - 1, ', junk'])
    dirts.append(lambda m: ['badhead', 0, ', urgency=high'])
    dirts.append(lambda m: ['max', 1])
    dirts.append(lambda m: ['max', 0])
    dirts.append(lambda m: ['none'])
    dirts.append(lambda m: ['empty', ''])
    dirts.append(lambda m: ['empty', '\n\n'])
    # clean -> clean, every ordered pair, constructor and method as first use, then a third use
    for na, a in models:
        for nb_, b in models:
            for via in ('ctor-kw', 'ctor', 'method'):
                out.append({'kind': 'reuse', 'steps': [step(0, via, a, strict=True if via != 'method' else None),
                                                       step(0, 'method', b, strict=True)]})
            out.append({'kind': 'reuse', 'steps': [step(0, 'method', a, strict=False), step(0, 'method-kw', b, strict=False)]})
            c = models[(n[0]) % 3][1]
            out.append({'kind': 'reuse', 'steps': [step(0, 'ctor-kw', a, strict=None), step(0, 'method-kw', b, strict=None),
                                                   step(0, 'method', c, strict=True)]})
    # dirty first use (non-strict constructor / strict and non-strict method) -> clean second use
    for di, d in enumerate(dirts):
        for nm, m in (('B', B), ('C', C)):
            nxt = models[(di + (nm == 'C')) % 3][1]
            out.append({'kind': 'reuse', 'steps': [step(0, 'ctor-kw', m, d(m), None), step(0, 'method', nxt, strict=True)]})
            out.append({'kind': 'reuse', 'steps': [step(0, 'method', m, d(m), True), step(0, 'method', nxt, strict=None)]})
            out.append({'kind': 'reuse', 'steps': [step(0, 'method', m, d(m), False), step(0, 'method-kw', nxt, strict=True)]})
            # clean, dirty, clean
            out.append({'kind': 'reuse', 'steps': [step(0, 'ctor', nxt, strict=True), step(0, 'method', m, d(m), r_strict(di)),
                                                   step(0, 'method', models[(di + 1) % 3][1], strict=True)]})
    # two objects alive at the same time
    for na, a in models:
        for nb_, b in models:
            out.append({'kind': 'reuse', 'steps': [step(0, 'ctor-kw', a, strict=True), step(1, 'ctor', b, strict=True),
                                                   step(0, 'method', b, strict=True), step(1, 'method', a, strict=True)]})
    return out


def r_strict(i):
    return (True, False, None)[i % 3]


def handout_matrix():
    """Fixed caller-side mutation cases (same for every seed and tier)."""
    H = _mm(1, [('1.0-1', {'kv': [['binary-only', 'yes']], 'body': ['', '  * closes: #123', '  * LP: #456', '']}),
                ('0.9-1', {}), ('1.0-1', {'d': ['stable']}), ('0.8', {})])
    L1 = _mm(0, [('1.0-1', {'p': 'other', 'body': ['', '  * unrelated package, same version', '']})])
    L2 = _mm(0, [('2.0', {}), ('0.9-1', {'p': 'third'}), ('0.8', {'p': 'third'})])
    out = []
    n = 0
    for src in VERSION_SRCS:
        for op in VERSION_OPS:
            for i in ((0,) if src in FIRST_ONLY_SRCS else (0, 2, 1)):
                n += 1
                if i == 1 and n % 3:
                    continue
                out.append({'kind': 'handout', 'm': H, 'form': FORMS[n % len(FORMS)],
                            'muts': [{'src': src, 'blk': i, 'op': list(op)}], 'later': [L1, L2]})
    for src in sorted(CONTAINER_SRCS):
        for op in _ops_for(src):
            for i in ((0,) if src.startswith('cl.') else (0, 1, 3)):
                n += 1
                out.append({'kind': 'handout', 'm': H, 'form': FORMS[n % len(FORMS)],
                            'muts': [{'src': src, 'blk': i, 'op': list(op)}], 'later': [L1, L2]})
    # several values of one changelog mutated in a row
    out.append({'kind': 'handout', 'm': H, 'form': 'str', 'later': [L1, L2],
                'muts': [{'src': 'block.version', 'blk': 0, 'op': ['debian_revision', '5']},
                         {'src': 'cl.versions[i]', 'blk': 1, 'op': ['epoch', '1']},
                         {'src': 'block.other_pairs', 'blk': 1, 'op': ['set', 'X-Injected', 'yes']},
                         {'src': 'block.changes()', 'blk': 3, 'op': ['append', '  * injected']}]})
    return out


# ---------------------------------------------------------------------------
# SIZE THRESHOLDS in what headings, trailers and change blocks carry (case kind 'big')
#
# case = {'kind': 'big', 'base': <small 'cl' model without form>, 'grow': [[block index, field, recipe], ...],
#         'more': n (optional: n further small blocks appended), 'form': optional single input form, 'wl': tag}
# recipe = [segment, ...];  segment = 'literal' | [unit, count] | ['#', prefix, count, suffix]
#          (the last one is prefix + str(i) + suffix for i in range(count): numbered items make loss, duplication and
#          re-ordering of the lines / names / pairs of a big item unambiguous)
# The built text replaces the field: p v c n e as they are; d = text.split(' '); body = text.split('\n');
# kv = [pair.split('=', 1) for pair in text.split(', ')].

BIG_FIELDS = ('p', 'v', 'd', 'c', 'kv', 'body', 'n', 'e')
BIG_MAX_CHARS = 6000000
DIGIT_POINTS = (18, 19, 20, 40, 400, 4299, 4300, 4301, 5000, 10000)
SIZE_POINTS = (64, 255, 256, 1000, 1024, 4096, 8192, 20000, 65536)
SIZE_POINTS_RANDOM = (19, 20, 40, 64, 100, 255, 256, 257, 400, 1000, 1023, 1024, 1025, 2048, 4095, 4096, 4097, 4299, 4300,
                      4301, 5000, 8191, 8192, 8193, 10000, 16384, 20000)
SIZE_POINTS_WIDE = (32767, 32768, 65535, 65536, 65537, 100000)
LINE_POINTS = (100, 255, 256, 1000, 1024, 2000, 4096, 5000)
LINE_POINTS_WIDE = (10000, 20000)


def _seg_size(seg):
    if isinstance(seg, str):
        return len(seg)
    if len(seg) == 2:
        return len(seg[0]) * seg[1]
    return (len(seg[1]) + len(seg[3]) + len(str(max(0, seg[2] - 1)))) * seg[2]


def recipe_problem(recipe):
    if not (isinstance(recipe, list) and 1 <= len(recipe) <= 12):
        return 'recipe'
    for seg in recipe:
        if isinstance(seg, str):
            continue
        if isinstance(seg, list) and len(seg) == 2 and isinstance(seg[0], str) and isinstance(seg[1], int) \
                and not isinstance(seg[1], bool) and seg[1] >= 0:
            continue
        if isinstance(seg, list) and len(seg) == 4 and seg[0] == '#' and isinstance(seg[1], str) and isinstance(seg[3], str) \
                and isinstance(seg[2], int) and not isinstance(seg[2], bool) and seg[2] >= 0:
            continue
        return 'recipe segment'
    if sum(_seg_size(seg) for seg in recipe) > BIG_MAX_CHARS:
        return 'recipe too large for the harness budget'
    return None


def build_recipe(recipe):
    out = []
    for seg in recipe:
        if isinstance(seg, str):
            out.append(seg)
        elif len(seg) == 2:
            out.append(seg[0] * seg[1])
        else:
            pre, n, post = seg[1], seg[2], seg[3]
            out.append(''.join('%s%d%s' % (pre, i, post) for i in range(n)))
    return ''.join(out)


def expand_big(case):
    """The ordinary 'cl' model a compact big case stands for."""
    base = case['base']
    blocks = [dict(b) for b in base['blocks']]
    for blk, field, recipe in case['grow']:
        text = build_recipe(recipe)
        b = blocks[blk]
        if field == 'd':
            b['d'] = text.split(' ')
        elif field == 'body':
            b['body'] = text.split('\n')
        elif field == 'kv':
            b['kv'] = [pair.split('=', 1) for pair in text.split(', ')]
        else:
            b[field] = text
    more = case.get('more', 0)
    if more:
        blocks[-1]['gap'] = blocks[-1].get('gap') or 1
        for i in range(more):
            blocks.append(dict(BASE, p='older', v='0.%d' % (more - i), gap=1, body=['', '  * older entry %d' % (more - i), '']))
        blocks[-1]['gap'] = 0
    m = {'kind': 'cl', 'lead': base.get('lead', 0), 'blocks': blocks}
    if case.get('form'):
        m['form'] = case['form']
    return m


def big_problem(case):
    try:
        if not _is_model(case['base']):
            return 'base model outside the grammar'
        if case.get('form') is not None and case['form'] not in FORMS:
            return 'form'
        more = case.get('more', 0)
        if not (isinstance(more, int) and not isinstance(more, bool) and 0 <= more <= 5000):
            return 'more'
        grow = case['grow']
        if not (isinstance(grow, list) and len(grow) <= 6 and (grow or more)):
            return 'grow'
        nb = len(case['base']['blocks'])
        seen = set()
        total = 0
        for g in grow:
            if not (isinstance(g, list) and len(g) == 3):
                return 'grow entry'
            blk, field, recipe = g
            if not (isinstance(blk, int) and not isinstance(blk, bool) and 0 <= blk < nb) or field not in BIG_FIELDS:
                return 'grow target'
            if (blk, field) in seen:
                return 'grow target twice'
            seen.add((blk, field))
            why = recipe_problem(recipe)
            if why:
                return why
            total += sum(_seg_size(seg) for seg in recipe)
        if total > BIG_MAX_CHARS:
            return 'case too large for the harness budget'
        return grammar_problem(expand_big(case))
    except (KeyError, TypeError, ValueError, IndexError, AttributeError) as e:
        return 'malformed big case (%s)' % type(e).__name__


def _bucket(n):
    for limit, name in ((100, '<100'), (1000, '100-999'), (4301, '1000-4300'), (20001, '4301-20000')):
        if n < limit:
            return name
    return '>20000'


def _digit_bucket(n):
    for limit, name in ((19, '<=18'), (41, '19-40'), (401, '41-400'), (4301, '401-4300')):
        if n < limit:
            return name
    return '>4300'


_DIGITS = re.compile(r'[0-9]+')


def longest_digit_run(s):
    return max([len(x) for x in _DIGITS.findall(s)] or [0])


def note_big(stats, case, m):
    stats['big:case'] += 1
    if case.get('more'):
        stats['big:blocks:' + _bucket(len(m['blocks']))] += 1
    for blk, field, _recipe in case['grow']:
        b = m['blocks'][blk]
        where = 'first-block' if blk == 0 else 'later-block'
        if field == 'v':
            ep, up, rev = dpkgver.split(b['v'])
            n = longest_digit_run(b['v'])
            stats['big:version-digit-run:%s' % _digit_bucket(n)] += 1
            stats['big:version-digit-run:%s:%s' % (_digit_bucket(n), where)] += 1
            if longest_digit_run(up) > 18:
                stats['big:version-digit-run-in:upstream'] += 1
            if rev is not None and longest_digit_run(rev) > 18:
                stats['big:version-digit-run-in:revision'] += 1
            if ep is not None and n > 18:
                stats['big:version-digit-run-with-epoch'] += 1
            if n <= 18:
                stats['big:version-long-without-long-run'] += 1
            stats['big:size:v:' + _bucket(len(b['v']))] += 1
        elif field == 'd':
            stats['big:size:d:chars:' + _bucket(len(' '.join(b['d'])))] += 1
            stats['big:size:d:names:' + _bucket(len(b['d']))] += 1
        elif field == 'kv':
            stats['big:size:kv:chars:' + _bucket(sum(len(k) + len(v) + 3 for k, v in b['kv']))] += 1
            stats['big:size:kv:pairs:' + _bucket(len(b['kv']))] += 1
        elif field == 'body':
            stats['big:size:body:lines:' + _bucket(len(b['body']))] += 1
            stats['big:size:body:longest-line:' + _bucket(max(len(l) for l in b['body']))] += 1
        else:
            stats['big:size:%s:%s' % (field, _bucket(len(b[field])))] += 1
            if field in ('p', 'c', 'n', 'e') and longest_digit_run(b[field]) > 4300:
                stats['big:digit-run>4300-in:' + field] += 1


def run_big(case, stats=None):
    if stats is None:
        stats = collections.Counter()
    m = expand_big(case)
    note_big(stats, case, m)
    return evaluate(m, stats, mon='M.big', deep_forms=2)


def _one(field, recipe, blk=0, base=None, more=0, wl='big-matrix'):
    c = {'kind': 'big', 'base': base or {'kind': 'cl', 'lead': 0, 'blocks': [dict(BASE)]},
         'grow': [[blk, field, recipe]], 'wl': wl}
    if more:
        c['more'] = more
    return c


def version_recipes(n):
    """Valid versions carrying a run of n digits (or n short components) at the places a version can have one."""
    return [['1.', ['7', n]],                              # upstream, after a dot
            [['7', n]],                                    # the whole version is one number
            ['1.0-', ['7', n]],                            # revision
            ['2:', ['7', n], '-1'],                        # upstream after an epoch
            ['1.', ['0', n], '5'],                         # leading zeros (the number itself is 5)
            ['1.', ['0', n]],                              # the number zero, n digits long
            ['1.', ['7', n], '-', ['3', n]],               # upstream and revision
            ['1.', ['7', n], '~rc1+b', ['9', n]],          # two runs in the upstream part
            ['0.', ['12345678.', max(1, n // 9)], '0'],    # long version, no long run
            ['1', ['.1', n]],                              # n short components
            ['3:1.', ['90', (n + 1) // 2], '+dfsg-0ubuntu', ['4', n], '~bpo1']]


HUGE_POINTS = (262144, 1048577)       # thorough only
HUGE_LINES = (65536, 100000)          # thorough only


def big_matrix(wide=False):
    """Fixed size cases (same for every seed; the thorough tier adds the HUGE sizes at the end)."""
    out = []
    two = {'kind': 'cl', 'lead': 1, 'blocks': [dict(BASE, v='2.0-1', gap=1, body=['', '  * newer', '']),
                                               dict(BASE, d=['stable'], u='HIGH', n='Zoë Q. X', body=['', '  * older', ''])]}
    for n in DIGIT_POINTS:
        for t, rec in enumerate(version_recipes(n)):
            out.append(_one('v', rec))
            # the same version in the second of two blocks (cl.versions / iteration reach it, cl.version does not),
            # and in the first of two
            out.append(_one('v', rec, blk=(t + n) % 2, base=two))
    for n in SIZE_POINTS:
        out.append(_one('p', ['a', ['b', n - 1]]))
        out.append(_one('p', ['lib', ['x-y+z.', n // 6], '0']))
        out.append(_one('p', [['7', n]]))
        out.append(_one('d', [['u', n]]))
        out.append(_one('d', [['A.b-c+', n // 6], '9']))
        out.append(_one('c', ['(', ['x', n], ')']))
        out.append(_one('c', ['(', ['word ', n // 5], 'end)']))
        out.append(_one('c', [['7', n]]))
        out.append(_one('c', ['(see #', ['7', n], ': urgent; a=b)']))
        out.append(_one('kv', ['binary-only=', ['y', n]]))
        out.append(_one('kv', ['x-count=', ['7', n], ', team-upload=yes']))
        out.append(_one('kv', [['k', n], '=yes']))
        out.append(_one('kv', ['X-Note=', ['a b ', n // 4], 'c']))
        out.append(_one('n', [['A', n]]))
        out.append(_one('n', ['A ', ['b ', n // 2], 'C']))
        out.append(_one('n', [['é', n]]))
        out.append(_one('n', [['7', n]]))
        out.append(_one('n', ['Dr. ', ['(x) ', n // 4], 'Q.']))
        out.append(_one('e', [['a', n], '@b.c']))
        out.append(_one('e', ['a@', ['b.', n // 2], 'org']))
        out.append(_one('e', [['7', n], '@', ['7', n]]))
        out.append(_one('body', ['\n  * ', ['x ', n // 2], 'y\n']))
        out.append(_one('body', ['\n  * closes: #', ['7', n], '\n    ', ['7', n], '\n']))
        out.append(_one('body', ['  ', ['é漢', n // 2]]))
    for k in (10, 100, 255, 256, 1000, 4000, 20000):
        out.append(_one('d', [['unstable ', k], 'stable']))
        out.append(_one('d', [['#', 'dist', k, ' '], 'END']))
        out.append(_one('d', [['#', '', k, ' '], '0']))                         # all-digit distribution names
        out.append(_one('d', [['#', 'dist', k, ' '], 'END'], blk=1, base=two))
    for k in (3, 4, 5, 8, 16, 100, 255, 256, 1000, 5000):
        out.append(_one('kv', [['#', 'k', k, '=v, '], 'last=1']))
        out.append(_one('kv', [['#', 'X-Key-', k, '=value %s, ' % k], 'binary-only=yes']))
        out.append(_one('kv', [['#', 'XS-F', k, '=yes, '], 'team-upload=yes'], base=dict(two, blocks=[dict(two['blocks'][0], c='(security fix)'), two['blocks'][1]])))
    for k in (100, 255, 256, 1000, 1024, 4096, 5000, 10000):
        out.append(_one('body', ['\n', ['#', '  * line ', k, '\n']]))
        out.append(_one('body', [['#', '  * line ', k, '\n\n'], '    last']))   # a blank line after every change line
        out.append(_one('body', ['\n', ['#', '    continuation ', k, ' é\n'], '  [ X ]\n  * end\n']))
        out.append(_one('body', ['\n', ['#', '  * line ', k, '\n']], blk=1, base=two))
        out.append(_one('body', ['\n  * first\n', ['\n', k], '  * last after %d blank lines\n' % k]))
    for k in (50, 300, 1000):
        out.append({'kind': 'big', 'base': two, 'grow': [], 'more': k, 'wl': 'big-matrix'})
    for k in (50, 300):
        out.append({'kind': 'big', 'base': two, 'grow': [[0, 'v', ['1.', ['7', 4301]]]], 'more': k, 'wl': 'big-matrix'})
        out.append({'kind': 'big', 'base': two, 'grow': [[1, 'v', ['1.0-', ['7', 5000]]]], 'more': k, 'wl': 'big-matrix'})
    # several big items in one heading
    for n in (4301, 20000):
        out.append({'kind': 'big', 'base': two, 'wl': 'big-matrix',
                    'grow': [[0, 'p', ['a', ['b', n]]], [0, 'v', ['1.', ['7', n], '-', ['3', n]]], [0, 'd', [['sid ', n // 4], 'x']],
                             [0, 'c', ['(', ['x', n], ')']], [0, 'kv', ['binary-only=', ['y', n]]], [0, 'n', [['A', n]]]]})
    if wide:
        for n in HUGE_POINTS:
            out.append(_one('v', ['1.', ['7', n], '-', ['3', 19]]))
            out.append(_one('v', ['1', ['.1', n // 2]], blk=1, base=two))
            out.append(_one('p', ['a', ['b-', n // 2]]))
            out.append(_one('d', [['#', 'd', n // 8, ' '], 'END']))
            out.append(_one('c', ['(', ['word ', n // 5], 'end)']))
            out.append(_one('kv', ['binary-only=', ['y', n], ', team-upload=yes']))
            out.append(_one('kv', [['#', 'k', n // 16, '=v, '], 'last=1']))
            out.append(_one('n', ['A ', ['b ', n // 2], 'C']))
            out.append(_one('e', [['a', n], '@b.c']))
            out.append(_one('body', ['\n  * ', ['x ', n // 2], 'y\n']))
        for k in HUGE_LINES:
            out.append(_one('body', ['\n', ['#', '  * line ', k, '\n']]))
            out.append(_one('body', ['\n', ['#', '  * line ', k, '\n']], blk=1, base=two))
        out.append({'kind': 'big', 'base': two, 'grow': [], 'more': 5000, 'wl': 'big-matrix'})
    return out


VUNITS = ('7', '9', '1', '0', '90', '123', '4', '8')
PUNITS = ('b', 'ab', 'x-', 'lib.', '0', '7', 'a+', '-', '.', 'z9')
DUNITS = ('unstable ', 'a.b ', 'X+y ', 'sid ', 'UNRELEASED ', '0 ', 'bookworm-backports ')
CUNITS = ('x', 'ab ', 'é', '7', 'a;b ', 'k=v ', '(y) ', '#1: ')
NUNITS = ('A', 'ab ', 'é', 'x.', '7', '(x) ', '李 ', "O'B-")
LPREFIX = ('  * line ', '    more ', '   - item ', '  ', '  + ', '  * closes: #')


def pick_size(r, points, top):
    if r.random() < 0.7:
        return max(1, r.choice(points) + r.choice([0, 0, -1, 1]))
    return int(10 ** r.uniform(1.3, math.log10(top)))


def gen_big_version(r, n):
    k = r.random()
    if k < 0.55:
        rec = list(r.choice(version_recipes(n)))
    else:
        u = r.choice(VUNITS)
        reps = max(1, n // len(u))
        head = r.choice(['', '1.', '0.', '2:', '1:0.', '1~', '10+'])
        tail = r.choice(['', '-1', '.5', '~rc1', '+dfsg-2', '-0ubuntu1', 'a'])
        rec = [head, ['0', r.choice([0, 0, 1, 3])], [u, reps], tail]
        if r.random() < 0.3:
            rec += ['-', [r.choice(VUNITS), max(1, r.choice([n, n // 2, 19]))]] if '-' not in tail else []
    return rec


def gen_grow(r, field, wide):
    pts = SIZE_POINTS_RANDOM + (SIZE_POINTS_WIDE if wide else ())
    top = pts[-1]
    n = pick_size(r, pts, top)
    if field == 'v':
        return gen_big_version(r, pick_size(r, DIGIT_POINTS + (100, 1000, 4298, 4302, 4400), 12000))
    if field == 'p':
        return [r.choice('abcxyz0129'), [r.choice(PUNITS), max(1, n // 2)], r.choice(['', '0', 'z'])]
    if field == 'd':
        if r.random() < 0.4:
            return [[r.choice(['u', 'A.', 'b-', '9', 'x+']), n]]
        k = max(2, n // 8)
        if r.random() < 0.5:
            return [[r.choice(DUNITS), k], 'stable']
        return [['#', r.choice(['dist', '', 'D-', 'x.']), k, ' '], 'END']
    if field == 'c':
        return [r.choice(['(', '', '(HIGH for ']), [r.choice(CUNITS), max(1, n // 2)], r.choice([')', 'x', 'end)'])]
    if field == 'kv':
        k = r.random()
        if k < 0.3:
            return [r.choice(['binary-only=', 'team-upload=', 'X-Note=', 'k=']), [r.choice(['y', '7', 'a b ', 'é', 'x=']), n], 'z']
        if k < 0.45:
            return [[r.choice(['k', 'K-', 'x9', 'X-']), max(1, n // 2)], 'k=yes']
        cnt = max(1, min(n // 8, 5000)) if r.random() < 0.7 else r.randint(3, 12)
        return [['#', r.choice(['k', 'X-Key-', 'XS-F', 'team', 'a-']), cnt, r.choice(['=v, ', '=yes, ', '=a b, '])],
                r.choice(['last=1', 'binary-only=yes', 'team-upload=yes'])]
    if field == 'body':
        lp = LINE_POINTS + (LINE_POINTS_WIDE if wide else ())
        k = r.random()
        if k < 0.35:
            return ['\n  * ', [r.choice(['x ', '7', '漢', 'a: #b ']), max(1, n // 2)], 'y\n']
        cnt = pick_size(r, lp, lp[-1])
        sep = r.choice(['\n', '\n', '\n', '\n\n', ' x\n'])
        rec = [r.choice(['\n', '', '\n\n']), ['#', r.choice(LPREFIX), cnt, sep]]
        if sep == '\n\n' or r.random() < 0.3:
            rec.append(r.choice(['    last', '  * end\n', '  [ X ]\n  * end']))
        return rec
    if field == 'n':
        return [r.choice(['A', 'Dr. ', 'é', '7']), [r.choice(NUNITS), max(1, n // 2)], r.choice(['Z', 'Q.', '9', '(x)'])]
    if field == 'e':
        if r.random() < 0.5:
            return [[r.choice(['a', '7', 'x.', 'é']), n], '@b.c']
        return ['a@', [r.choice(['b.', '7', 'sub-']), max(1, n // 2)], 'org']
    raise ValueError(field)


def gen_big(r, wide):
    nb = r.choice([1, 1, 2, 3])
    blocks = [gen_block(r, wide) for _ in range(nb)]
    for b in blocks[:-1]:
        b['gap'] = r.choice([1, 1, 2])
    base = {'kind': 'cl', 'lead': r.choice([0, 0, 1]), 'blocks': blocks}
    for _try in range(20):
        grow = []
        used = set()
        for _ in range(r.choice([1, 1, 1, 2])):
            field = r.choice(['v', 'v', 'v', 'p', 'd', 'c', 'kv', 'body', 'n', 'e'])
            blk = r.randrange(nb) if r.random() < 0.5 else 0
            if (blk, field) in used:
                continue
            used.add((blk, field))
            grow.append([blk, field, gen_grow(r, field, wide)])
        case = {'kind': 'big', 'base': base, 'grow': grow, 'wl': 'big-random'}
        if r.random() < 0.04:
            case['more'] = r.choice([50, 100, 300])
        if grow and big_problem(case) is None:
            return case
    return _one('v', ['1.', ['7', 4301]], wl='big-random')


def shrink_big(case, key, budget=90):
    """Smaller big case that still shows `key`: fewer recipes, one form, smallest counts (bisection)."""
    left = [budget]

    def fails(c):
        if left[0] <= 0:
            return False
        left[0] -= 1
        if big_problem(c) is not None:
            return False
        try:
            return key in [k for k, _m in run_big(c)]
        except Exception:
            return False

    case = {k: v for k, v in case.items() if k != 'matrix'}
    if case.get('more'):
        c = {k: v for k, v in case.items() if k != 'more'}
        if c['grow'] and fails(c):
            case = c
    i = 0
    while len(case['grow']) > 1 and i < len(case['grow']):
        c = dict(case, grow=case['grow'][:i] + case['grow'][i + 1:])
        if fails(c):
            case = c
        else:
            i += 1
    if not case.get('form'):
        for f in ('str', 'lines', 'file', 'bytes'):
            c = dict(case, form=f)
            if fails(c):
                case = c
                break
    simple = {'kind': 'cl', 'lead': 0, 'blocks': [dict(BASE)]}
    if all(g[0] == 0 for g in case['grow']) and case['base'] != simple:
        c = dict(case, base=simple)
        if fails(c):
            case = c
    for gi in range(len(case['grow'])):
        recipe = case['grow'][gi][2]
        for si in range(len(recipe)):
            seg = recipe[si]
            if isinstance(seg, str):
                continue
            at = 1 if len(seg) == 2 else 2

            def with_count(n):
                nseg = list(seg)
                nseg[at] = n
                nrec = recipe[:si] + [nseg] + recipe[si + 1:]
                ngrow = [list(g) for g in case['grow']]
                ngrow[gi] = [case['grow'][gi][0], case['grow'][gi][1], nrec]
                return dict(case, grow=ngrow)

            lo, hi = 0, seg[at]       # invariant: hi fails; lo does not (or is untested)
            if hi > 1 and fails(with_count(1)):
                hi = 1
            else:
                lo = 1
                while hi - lo > 1 and left[0] > 0:
                    mid = (lo + hi) // 2
                    if fails(with_count(mid)):
                        hi = mid
                    else:
                        lo = mid
            if hi != seg[at]:
                case = with_count(hi)
                recipe = case['grow'][gi][2]
    return case


# ---------------------------------------------------------------------------
# HEADING key=value PAIRS BEYOND URGENCY (ordinary 'cl' models tagged 'wl': 'kv-matrix' | 'kv-random')

KV_KEYS = ['team-upload', 'Team-Upload', 'TEAM-UPLOAD', 'binary-only', 'Binary-Only', 'source-only', 'qa-upload', 'nmu',
           'lts', 'security', 'backport', 'upload', 'team', 'medium', 'low', 'high', 'X-Foo', 'x-foo', 'X-FOO',
           'XS-Vcs-Git', 'XS-Team-Upload', 'xs-team-upload', 'XB-Tag', 'XC-Package-Type', 'XBS-Field', 'XSBC-Original-Maintainer',
           'XCS-A', 'XBCS-All', 'X-', 'XS-', 'XB-', 'x', 'xs', 'X1', 'X-1', 'XS-1', '1x', 'a--b', '-a', 'a-', '--', '0-0', '00',
           'closes', 'lp', 'urgency2', 'x-urgency', 'XS-Urgency', 'urgent', 'urgenc', 'urgency-', 'distribution', 'maintainer',
           'date', 'version', 'key-with-many-hyphen-separated-words', 'UPPER', 'MiXeD-Case', 'k' * 64, 'a1-b2-c3']
KV_VALUES = ['yes', 'no', 'Yes', 'NO', 'true', 'false', '1', '0', 'medium', 'low', 'high', 'y', 'n', 'maybe', 'yes please',
             'a=b', 'urgency=high', 'x (comment)', '(yes)', 'yes;no', '1.0-1', 'https://example.org/x?y=z&a=b', 'é',
             '#123', '"quoted"', "it's", '-', '=', '==x', 'a; b', 'unstable; urgency=low', 'yes.', 'YES', 'y e s', '✓',
             'team-upload', 'binary-only=yes', '0.5', '~', 'x' * 200]
KV_WORDS = ['team', 'upload', 'binary', 'only', 'source', 'qa', 'vcs', 'git', 'original', 'maintainer', 'tag', 'field',
            'note', 'bug', 'origin', 'build', 'profile', 'a', 'b2', '0']


def _kvm(kv, wl='kv-matrix', **kw):
    b = dict(BASE, kv=[list(x) for x in kv])
    b.update(kw)
    return {'kind': 'cl', 'lead': 0, 'blocks': [b], 'wl': wl}


def kv_matrix():
    """Fixed key=value models (same for every seed and tier)."""
    out = []
    for i, k in enumerate(KV_KEYS):
        v = ('yes', 'no', 'medium', '1')[i % 4]
        out.append(_kvm([[k, v]]))                                                   # the only extra pair
        out.append(_kvm([[k, v]], c='(security fix)', u='medium'))                   # after an urgency comment
        if k.lower() != 'binary-only':
            out.append(_kvm([['binary-only', 'yes'], [k, v]], u='HIGH'))             # second extra pair
            out.append(_kvm([[k, v], ['Binary-Only', 'yes'], ['zz-last', 'x y']]))   # first of three
    for v in KV_VALUES:
        for k in ('team-upload', 'X-Note', 'binary-only'):
            out.append(_kvm([[k, v]]))
        out.append(_kvm([['a', '1'], ['X-Mid', v], ['z', '2']], c='(x)'))
    for u in URGENCIES:
        for f in (str.lower, str.upper, str.capitalize):
            out.append(_kvm([['team-upload', 'yes']], u=f(u)))
            out.append(_kvm([['binary-only', 'yes'], ['team-upload', 'yes']], u=f(u), c='(because)'))
    keys = ['team-upload', 'binary-only', 'X-Foo', 'XS-Vcs-Git', 'source-only', 'k', 'XB-Tag', 'a-1']
    for n in range(1, 9):
        out.append(_kvm([[k, 'v%d' % i] for i, k in enumerate(keys[:n])]))
        out.append(_kvm([[k, 'v%d' % i] for i, k in enumerate(reversed(keys[:n]))], c='(n=%d)' % n))
        out.append(_kvm([[k, 'yes'] for k in sorted(keys[:n])], u='emergency'))
        out.append(_kvm([[k, 'yes'] for k in sorted(keys[:n], key=lambda x: x.lower(), reverse=True)]))
    # pairs in every block of a multi-block changelog (a different set per block)
    b1 = dict(BASE, v='3.0-1', gap=1, kv=[['team-upload', 'yes']], u='medium')
    b2 = dict(BASE, v='2.0-1', gap=2, kv=[['binary-only', 'yes'], ['X-Foo', 'a b']], c='(HIGH for foo)')
    b3 = dict(BASE, v='1.0-1', kv=[], d=['stable'])
    b4 = dict(BASE, v='0.9-1', kv=[['team-upload', 'no'], ['XS-Vcs-Git', 'https://example.org/x.git']])
    for order in ([b1, b2, b3], [b3, b1, b2], [b2, b4, b1], [b4, b3, b2, b1]):
        bl = [dict(b) for b in order]
        for b in bl[:-1]:
            b['gap'] = b.get('gap') or 1
        bl[-1]['gap'] = 0
        out.append({'kind': 'cl', 'lead': 0, 'blocks': bl, 'wl': 'kv-matrix'})
    return out


def gen_kv_key(r):
    k = r.random()
    if k < 0.5:
        return r.choice(KV_KEYS)
    if k < 0.75:
        pre = r.choice(['X-', 'XS-', 'XB-', 'XC-', 'XBS-', 'XSBC-', 'x-', 'xs-', 'Xs-'])
        words = [r.choice(KV_WORDS) for _ in range(r.randint(1, 3))]
        return pre + '-'.join(w.capitalize() if r.random() < 0.6 else w for w in words)
    if k < 0.9:
        words = [r.choice(KV_WORDS) for _ in range(r.randint(1, 3))]
        return gen_case_mix(r, '-'.join(words))
    return ''.join(r.choice('abzABZ019-') for _ in range(r.randint(1, 12)))


def gen_kv_pairs(r, n):
    out, seen = [], set(['urgency'])
    for _ in range(n):
        for _try in range(10):
            k = gen_kv_key(r)
            if k.lower() not in seen:
                break
        else:
            continue
        seen.add(k.lower())
        q = r.random()
        if q < 0.6:
            v = r.choice(KV_VALUES)
        elif q < 0.8:
            v = r.choice(['yes', 'no'])
        else:
            v = gen_words(r, 'abXY01()#:;=.é-~+/', 3)
        out.append([k, v])
    return out


def gen_kv_model(r, wide):
    nb = r.choice([1, 1, 1, 2, 3])
    blocks = [gen_block(r, wide) for _ in range(nb)]
    for b in blocks[:-1]:
        b['gap'] = r.choice([1, 1, 2])
    for i, b in enumerate(blocks):
        if i == 0 or r.random() < 0.6:
            b['kv'] = gen_kv_pairs(r, r.choice([1, 1, 1, 2, 2, 3, 3, 4, 5, 6]))
        if r.random() < 0.35:
            b['c'] = gen_comment(r)
    return {'kind': 'cl', 'lead': r.choice([0, 0, 1]), 'blocks': blocks, 'wl': 'kv-random'}


def kv_style(k):
    kl = k.lower()
    if re.match(r'x[bcs]+-', kl):
        return 'X[BCS]+-extension'
    if kl.startswith('x-'):
        return 'X-extension'
    if kl in ('team-upload', 'binary-only', 'source-only', 'qa-upload'):
        return kl
    if 'urgen' in kl:
        return 'looks-like-urgency'
    if '-' in k:
        return 'hyphenated-word'
    return 'plain-word'


def note_kv(ctx, case):
    c = ctx.count
    c('kv:case')
    c('kv:case:' + case['wl'])
    for b in case['blocks']:
        kv = b.get('kv') or []
        if not kv:
            continue
        c('kv:heading-with-pairs')
        c('kv:pairs-in-heading:%s' % (len(kv) if len(kv) < 6 else '6+'))
        if b.get('c'):
            c('kv:after-urgency-comment')
        for k, v in kv:
            c('kv:key-style:' + kv_style(k))
            if k != k.lower():
                c('kv:key-with-upper-case')
            if v.lower() in ('yes', 'no'):
                c('kv:value-yes-no')
            if '=' in v:
                c('kv:value-contains-equals')
            if ' ' in v:
                c('kv:value-contains-blank')


# ---------------------------------------------------------------------------
# shrinking witnesses of the second-use classes (keeps the mechanism key)

def _simpler_model(m):
    """Same number of blocks, same versions and blank-line layout between blocks, everything else from BASE."""
    blocks = [dict(BASE, v=b['v'], gap=b.get('gap', 0), body=['', '  * entry %d' % i, '']) for i, b in enumerate(m['blocks'])]
    return {'kind': 'cl', 'lead': m.get('lead', 0), 'blocks': blocks}


def _variants_new(case):
    kind = case['kind']
    if kind == 'reuse':
        steps = case['steps']
        if any(st['o'] == 1 for st in steps):
            yield dict(case, steps=[st for st in steps if st['o'] == 0])
        for i in range(len(steps) - 1):
            rest = steps[:i] + steps[i + 1:]
            # a method step may have become the first use of its object: fine (Changelog() is made for it)
            yield dict(case, steps=rest)
        for i, st in enumerate(steps):
            def sub(**kw):
                ns = [dict(x) for x in steps]
                ns[i].update(kw)
                return dict(case, steps=ns)
            if st['form'] != 'str':
                yield sub(form='str')
            m = st['m']
            if len(m['blocks']) > 1 and st.get('dirt') is None:
                yield sub(m=dict(m, blocks=[dict(m['blocks'][0], gap=0)]))
                yield sub(m=dict(m, blocks=[dict(b) for b in m['blocks'][:-2]] + [dict(m['blocks'][-2], gap=0)]))
            if m.get('lead') and st.get('dirt') is None:
                yield sub(m=dict(m, lead=0))
            sm = _simpler_model(m)
            if sm != m:
                yield sub(m=sm)
    elif kind == 'handout':
        muts = case['muts']
        if len(muts) > 1:
            for i in range(len(muts)):
                yield dict(case, muts=muts[:i] + muts[i + 1:])
        later = case.get('later', [])
        for i in range(len(later)):
            yield dict(case, later=later[:i] + later[i + 1:])
        if case['form'] != 'str':
            yield dict(case, form='str')
        m = case['m']
        used = max(mu['blk'] for mu in muts)
        if len(m['blocks']) - 1 > used:
            nb = [dict(b) for b in m['blocks'][:-1]]
            nb[-1]['gap'] = 0
            yield dict(case, m=dict(m, blocks=nb))
        if m.get('lead'):
            yield dict(case, m=dict(m, lead=0))
        sm = _simpler_model(m)
        if sm != m:
            yield dict(case, m=sm)
        for i, lm in enumerate(later):
            sl = _simpler_model(lm)
            if sl != lm:
                yield dict(case, later=later[:i] + [sl] + later[i + 1:])


def key_stem(key):
    """A handed-out-mutation key without the trailing '/mutated:<classes>' (the classes change while shrinking)."""
    return key.split('/mutated:', 1)[0]


def shrink_new(case, key, budget=60):
    stem = key_stem(key)
    progress = True
    while progress and budget > 0:
        progress = False
        for cand in _variants_new(case):
            budget -= 1
            if budget <= 0:
                break
            if case_problem(cand) is not None:
                continue
            try:
                keys = [k for k, _m in evaluate_any(cand)]
            except Exception:
                continue
            if key in keys or (stem != key and stem in [key_stem(k) for k in keys]):
                case = cand
                progress = True
                break
    return case


# ---------------------------------------------------------------------------
# confirmation in a fresh interpreter (only after this process mutated handed-out values)

_STANDALONE = ('import sys, json\n'
               'from vp import core\n'
               'core.bootstrap_repo()\n'
               'from vp.props import c04\n'
               'sys.stdout.write("RESULT " + json.dumps(c04.standalone(json.load(sys.stdin))))\n')


def standalone(case):
    if case_problem(case) is not None:
        return None
    return [[k, m] for k, m in evaluate_any(case)]


def fails_standalone(case):
    """[[key, msg], ...] the case shows when it is all a fresh interpreter executes (what --replay does); 'unknown'."""
    import json
    import subprocess
    import sys
    from .. import core
    try:
        p = subprocess.run([sys.executable, '-B', '-c', _STANDALONE], input=json.dumps(case).encode('ascii'),
                           stdout=subprocess.PIPE, stderr=subprocess.DEVNULL, timeout=300, cwd=core.VERIF)
        out = p.stdout.decode('utf-8', 'replace')
        if p.returncode != 0 or 'RESULT ' not in out:
            return 'unknown'
        got = json.loads(out.split('RESULT ', 1)[1])
        return 'unknown' if got is None else got
    except Exception:
        return 'unknown'


# ---------------------------------------------------------------------------
# NEAR-TWIN HEADINGS: headings whose text after the ';' differs from an earlier heading of the same process by one
# whitespace run, one letter case or one character.
#
# case = {'kind': 'twin', 'how': 'blocks' | 'parses', 'dims': [dim, ...], 'cases': ['cl' model (flag ws), ...]}
#   how = blocks: ONE changelog whose blocks carry the twin headings (in file order; other blocks may sit between them)
#   how = parses: one changelog per twin heading, parsed one after the other in this process
# Every member is an ordinary model judged by the ordinary oracle (evaluate) - what a heading gives must not depend on a
# look-alike heading seen before.  Keys: near-twin-heading/<same-changelog|earlier-parse>/<ordinary key>.

TWIN_DIMS = ('ws-comment', 'ws-value', 'case-comment', 'case-value', 'case-key', 'case-urgency', 'char-comment',
             'char-value', 'ws-kind-comment', 'ws-kind-value')
WS_RUNS = (' ', '  ', '\t', ' \t', '\t ', '   ', '\t\t', '    ')
TWIN_WORDS = ('security', 'fix', 'HIGH', 'for', 'foo', 'see', '#123:', 'a;b', 'x=y', '(z)', 'yes', 'please', 'Team',
              'upload', 'été', 'no', 'rc1', 'Low', 'regression', 'CVE-2024-1', 'only', 'b', 'Q')


def twin_problem(case):
    try:
        if case.get('how') not in ('blocks', 'parses') or not isinstance(case.get('dims'), list):
            return 'twin'
        if not all(d in TWIN_DIMS for d in case['dims']):
            return 'twin dims'
        cs = case['cases']
        if not (isinstance(cs, list) and 1 <= len(cs) <= 4):
            return 'twin members'
        for c in cs:
            if not isinstance(c, dict) or c.get('kind') != 'cl' or c.get('form') is not None:
                return 'twin member'
            why = grammar_problem(c)
            if why:
                return why
            if any(b.get('hb') for b in c['blocks']):
                return 'twin member with heading blanks'
    except (KeyError, TypeError, ValueError, IndexError) as e:
        return 'malformed twin (%s)' % type(e).__name__
    return None


def _twin_phrase(r, tag):
    """free text with >= 2 words; carries a token drawn per case so that two twin cases rarely share a phrase"""
    n = r.randint(2, 4)
    words = [r.choice(TWIN_WORDS) for _ in range(n)]
    words.insert(r.randrange(n + 1), '%s%d' % (tag, r.randrange(100000)))
    return words


def _twin_variants(r, dim, words, n):
    """n spellings of one phrase that differ in ONE place: one whitespace run, the case of one letter, one character"""
    gap = r.randrange(len(words) - 1)
    def join(run):
        return ' '.join(words[:gap + 1]) + run + ' '.join(words[gap + 1:])
    if dim.startswith('ws-kind'):
        runs = r.sample([x for x in WS_RUNS if len(x) == 1] + [' \t', '\t '], n) if n <= 4 else None
        return [join(x) for x in runs]
    if dim.startswith('ws'):
        runs = [' '] + r.sample(WS_RUNS[1:], n - 1)
        if r.random() < 0.5:
            r.shuffle(runs)
        return [join(x) for x in runs]
    base = join(' ')
    letters = [i for i, ch in enumerate(base) if ch.isascii() and ch.isalpha()]
    out = [base]
    if dim.startswith('case'):
        for i in r.sample(letters, min(n - 1, len(letters))):
            out.append(base[:i] + base[i].swapcase() + base[i + 1:])
    else:
        for i in r.sample(letters, min(n - 1, len(letters))):
            ch = r.choice([x for x in 'abzQ07-' if x != base[i]])
            out.append(base[:i] + ch + base[i + 1:])
    if r.random() < 0.5:
        r.shuffle(out)
    return out


def gen_twin(r):
    dim = r.choice(TWIN_DIMS + ('ws-comment', 'ws-value', 'ws-comment', 'ws-kind-comment'))
    n = r.choice([2, 2, 2, 3, 3, 4])
    if dim.startswith('ws-kind'):
        n = min(n, 3)
    how = r.choice(['blocks', 'parses'])
    urg = gen_case_mix(r, r.choice(URGENCIES))
    comment = ''
    if r.random() < 0.7 or dim.endswith('comment'):
        comment = ' '.join(_twin_phrase(r, 'c'))
        if r.random() < 0.5:
            comment = '(' + comment + ')'
    kv = []
    seen = set(['urgency'])
    for _ in range(r.choice([0, 1, 1, 2]) or (1 if dim.endswith(('value', 'key')) else 0)):
        k = gen_kv_key(r) if r.random() < 0.5 else r.choice(KEY_POOL)
        if k.lower() in seen or not G_KEY.match(k):
            k = 'x-twin-%d' % len(kv)
        seen.add(k.lower())
        kv.append([k, ' '.join(_twin_phrase(r, 'v')) if r.random() < 0.6 else r.choice(VALUE_POOL)])
    at = r.randrange(len(kv)) if kv else 0
    heads = []
    if dim.endswith('comment'):
        words = comment.strip('()').split(' ')
        for v in _twin_variants(r, dim, words, n):
            heads.append((urg, '(' + v + ')' if comment.startswith('(') else v, [list(p) for p in kv]))
    elif dim.endswith('value'):
        words = _twin_phrase(r, 'v')
        for v in _twin_variants(r, dim, words, n):
            pairs = [list(p) for p in kv]
            pairs[at][1] = v
            heads.append((urg, comment, pairs))
    elif dim == 'case-key':
        k = kv[at][0]
        letters = [i for i, ch in enumerate(k) if ch.isalpha()]
        if not letters:
            k, letters = 'x-twin', [0, 2, 3, 4, 5]
        ks = [k] + [k[:i] + k[i].swapcase() + k[i + 1:] for i in r.sample(letters, min(n - 1, len(letters)))]
        for k2 in ks:
            pairs = [list(p) for p in kv]
            pairs[at][0] = k2
            heads.append((urg, comment, pairs))
    else:   # case-urgency
        letters = list(range(len(urg)))
        us = [urg] + [urg[:i] + urg[i].swapcase() + urg[i + 1:] for i in r.sample(letters, min(n - 1, len(letters)))]
        for u in us:
            heads.append((u, comment, [list(p) for p in kv]))
    blocks = []
    for (u, c, pairs) in heads:
        b = gen_block(r, False)
        b['u'], b['c'], b['kv'] = u, c, pairs
        blocks.append(b)
    if how == 'blocks':
        if r.random() < 0.3:
            blocks.insert(r.randrange(1, len(blocks)), gen_block(r, False))     # a stranger between the twins
        for b in blocks[:-1]:
            b['gap'] = r.choice([1, 1, 2])
        members = [{'kind': 'cl', 'lead': r.choice([0, 0, 1]), 'ws': 1, 'blocks': blocks}]
    else:
        members = []
        for b in blocks:
            bl = [b]
            if r.random() < 0.25:
                bl.insert(r.randrange(2), gen_block(r, False))
                bl[0]['gap'] = 1
            members.append({'kind': 'cl', 'lead': 0, 'ws': 1, 'blocks': bl})
    return {'kind': 'twin', 'how': how, 'dims': [dim], 'cases': members}


def run_twin(case, stats=None):
    found = []
    where = 'same-changelog' if case['how'] == 'blocks' else 'earlier-parse'
    for c in case['cases']:
        for k, m in evaluate(c, stats, mon='M.twin', deep_forms=0):
            found.append(('near-twin-heading/%s/%s' % (where, k),
                          '%s  [the heading differs from an earlier heading of this %s only in: %s]' % (
                              m, 'changelog' if where == 'same-changelog' else 'process', ', '.join(case['dims']))))
    return _dedupe(found)


def note_twin(ctx, case):
    ctx.count('twin:case')
    ctx.count('twin:how:' + case['how'])
    for d in case['dims']:
        ctx.count('twin:dim:' + d)
        ctx.count('twin:dim:%s:%s' % (d.split('-')[0], case['how']))
    heads = [b for c in case['cases'] for b in c['blocks']]
    ctx.count('twin:headings', len(heads))
    if any('\t' in b.get('c', '') or any('\t' in v for _k, v in b.get('kv', [])) for b in heads):
        ctx.count('twin:tab-inside-heading-text')
    if any('  ' in b.get('c', '') or any('  ' in v for _k, v in b.get('kv', [])) for b in heads):
        ctx.count('twin:blank-run-inside-heading-text')


def shrink_twin(case, key):
    """Smaller twin case that still shows the key IN A FRESH INTERPRETER (what --replay does); else the case itself."""
    if CONFIRM_BUDGET[0] <= 0:
        return case
    CONFIRM_BUDGET[0] -= 1
    small = {'kind': 'twin', 'how': case['how'], 'dims': case['dims'], 'cases': []}
    for c in case['cases']:
        blocks = []
        for b in c['blocks']:
            nb = dict(BASE, v=b['v'], u=b['u'], c=b.get('c', ''), kv=b.get('kv', []), gap=b.get('gap', 0))
            blocks.append(nb)
        small['cases'].append({'kind': 'cl', 'lead': 0, 'ws': 1, 'blocks': blocks})
    if case_problem(small) is None:
        got = fails_standalone(small)
        if got != 'unknown' and key in [k for k, _m in got]:
            return small
    return case


# ---------------------------------------------------------------------------
# shrinking a witness (keeps the mechanism key)

def _variants(case):
    blocks = case['blocks']
    if len(blocks) > 1:
        for i in range(len(blocks)):
            yield dict(case, blocks=[dict(blocks[i], gap=0)])
        yield dict(case, blocks=[dict(b) for b in blocks[:-2]] + [dict(blocks[-2], gap=0)])
        yield dict(case, blocks=[dict(b) for b in blocks[1:]])
    if case.get('lead'):
        yield dict(case, lead=0)
    if not case.get('form'):
        for f in ALL_FORMS:
            yield dict(case, form=f)
    for i, b in enumerate(blocks):
        def sub(**kw):
            nb = [dict(x) for x in blocks]
            nb[i].update(kw)
            return dict(case, blocks=nb)
        for f in ('tb', 'hb'):
            if b.get(f):
                yield sub(**{f: ''})
                if len(b[f]) > 1:
                    yield sub(**{f: b[f][:1]})
        if i == len(blocks) - 1 and b.get('gap'):
            yield sub(gap=0)
        if b.get('kv'):
            yield sub(kv=[])
            if len(b['kv']) > 1:
                yield sub(kv=b['kv'][:1])
                yield sub(kv=b['kv'][1:])
        if b.get('c'):
            yield sub(c='')
        if len(b['d']) > 1:
            yield sub(d=b['d'][:1])
            yield sub(d=b['d'][1:])
        for field in ('p', 'v', 'd', 'u', 'n', 'e', 'dt'):
            if b[field] != BASE[field]:
                yield sub(**{field: BASE[field]})
        if b.get('gap', 0) > 1:
            yield sub(gap=1)
        body = b['body']
        if body != BASE['body']:
            yield sub(body=list(BASE['body']))
            for j in range(len(body)):
                nb = body[:j] + body[j + 1:]
                if any(l != '' for l in nb):
                    yield sub(body=nb)
            for j, l in enumerate(body):
                if len(l) > 8:
                    yield sub(body=body[:j] + [l[:4 + (len(l) - 4) // 2]] + body[j + 1:])
                    yield sub(body=body[:j] + [l[:2] + l[2 + (len(l) - 2) // 2:]] + body[j + 1:])


def shrink(case, key, budget=400):
    case = {k: v for k, v in case.items() if k != 'matrix'}
    progress = True
    while progress and budget > 0:
        progress = False
        for cand in _variants(case):
            budget -= 1
            if budget <= 0:
                break
            if grammar_problem(cand) is not None:
                continue
            try:
                keys = [k for k, _m in evaluate(cand, every_form=True)]
            except Exception:
                continue
            if key in keys:
                case = cand
                progress = True
                break
    return case


# ---------------------------------------------------------------------------

def _versions_of(case):
    kind = case.get('kind')
    if kind == 'cl':
        return [b['v'] for b in case['blocks']]
    if kind == 'reuse':
        return [b['v'] for st in case['steps'] for b in st['m']['blocks']]
    if kind == 'handout':
        return [b['v'] for mm in [case['m']] + list(case.get('later', [])) for b in mm['blocks']]
    if kind == 'big':
        return [b['v'] for b in case['base']['blocks']]
    return []


def report(ctx, case, key, msg):
    """Record one finding of one case: shrunk, replayable witness; a finding of the ordinary kind made after this
    process mutated handed-out values is first re-executed in a fresh interpreter."""
    plain = {k: v for k, v in case.items() if k != 'matrix'}
    kind = case['kind']
    if is_ordinary_key(key) and TAINTED[0] is not None and kind not in ('seq', 'twin') and not ctx.replay:
        culprit = TAINTED[0]
        for v in _versions_of(case):
            if v in TAINT:
                culprit = TAINT[v]
                break
        seq = {'kind': 'seq', 'cases': [{k: v for k, v in culprit.items() if k != 'matrix'}, plain]}
        skey = 'depends-on-earlier-calls-in-this-process/' + key
        if key in STATEFUL_KEYS:
            ctx.violation(skey, msg, seq)
            return
        if ctx.viol_count[key] < 3 and CONFIRM_BUDGET[0] > 0 and culprit is not case:
            CONFIRM_BUDGET[0] -= 1
            alone = fails_standalone(plain)
            if alone != 'unknown' and key not in [k for k, _m in alone]:
                STATEFUL_KEYS.add(key)
                again = fails_standalone(seq)
                if again != 'unknown' and key in [k for k, _m in again]:
                    note = ('  [the case is clean when it is all a fresh interpreter executes; it fails as recorded when '
                            'the earlier case of this process that mutated handed-out values runs first - witness = both]')
                else:
                    note = ('  [the case is clean when it is all a fresh interpreter executes, and also with the suspected '
                            'earlier case as prelude: the result depends on what this process did before]')
                ctx.violation(skey, msg + note, seq)
                return
        elif ctx.viol_count[key] < 3 and culprit is not case:
            msg += ('  [found after this process mutated handed-out values; not re-executed in a fresh interpreter - '
                    'the confirmation budget of this shard is used up]')
    if ctx.viol_count[key] >= 3:
        # already have shrunk witnesses for this mechanism: count only
        ctx.violation(key, msg, plain)
        return
    if kind == 'cl':
        small = shrink(case, key)
        allforms = {k: v for k, v in small.items() if k != 'form'}
        for k2, m2 in evaluate(allforms, every_form=True):      # message for the shrunk witness, listing every form that shows it
            if k2 == key:
                msg = m2
        text = render(small)[0]
        ctx.violation(key, '%s | witness text: %s' % (msg, _r(text, 700)), small)
        return
    if kind == 'big':
        small = shrink_big(plain, key)
        for k2, m2 in run_big(dict(small, form=None) if small.get('form') else small):
            if k2 == key:
                msg = m2              # every form that shows it on the shrunk witness
        sizes = ', '.join('%s of block %d: %s' % (g[1], g[0], '+'.join(
            _r(seg, 40) if isinstance(seg, str) else '%s x %d' % (_r(seg[0], 30), seg[1]) if len(seg) == 2
            else '%s<i>%s for i < %d' % (_r(seg[1], 30), _r(seg[3], 30), seg[2]) for seg in g[2])) for g in small['grow'])
        ctx.violation(key, '%s | smallest sizes still showing it (recipes shrunk by bisection): %s%s' % (
            msg, sizes or '-', ', %d further blocks' % small['more'] if small.get('more') else ''), small)
        return
    if kind == 'twin':
        small = shrink_twin(plain, key) if ctx.viol_count[key] < 2 else plain
    elif kind == 'seq' or SHRINK_BUDGET[0] <= 0:
        small = plain
    else:
        SHRINK_BUDGET[0] -= 1
        small = shrink_new(plain, key)
    if small is not plain:
        for k2, m2 in evaluate_any(small):
            if key_stem(k2) == key_stem(key):
                key, msg = k2, m2         # the shrunk witness names the one mutated value that is enough
                break
    ctx.violation(key, msg, small)


def run_case(ctx, case):
    why = case_problem(case)
    if why is not None:
        # never accuse the library on a text outside the statement's grammar
        ctx.count('skipped:outside-grammar')
        ctx.inconclusive.append('case outside the C04 grammar (%s) - generator/replay-file problem, not a verdict' % why)
        return
    kind = case['kind']
    stats = collections.Counter()
    found = evaluate_any(case, stats)
    for k, n in stats.items():
        if k.startswith('M'):
            ctx.mon(k, n)
        else:
            ctx.count(k, n)
    if kind == 'cl':
        if case.get('matrix'):
            ctx.count('matrix')
        if str(case.get('wl', '')).startswith('kv-'):
            note_kv(ctx, case)
            ctx.mon('M.kv', stats.get('M', 0))
        elif str(case.get('wl', '')).startswith('bl-'):
            note_bl(ctx, case)
            ctx.mon('M.bl', stats.get('M', 0))
        elif str(case.get('wl', '')).startswith('tb-'):
            note_tb(ctx, case)
            ctx.mon('M.tb', stats.get('M', 0))
        note_features(ctx, case)
        if is_nontrivial(case):
            ctx.nontrivial(case)
    elif kind == 'big':
        ctx.count('wl:' + str(case.get('wl', 'big')))
        ctx.nontrivial(case)
    elif kind == 'twin':
        note_twin(ctx, case)
        ctx.nontrivial(case)
    else:
        if case.get('matrix'):
            ctx.count('matrix:' + kind)
        if stats.get('M.reuse') or stats.get('M.handout') or kind == 'seq':
            ctx.nontrivial(case)
    for key, msg in found:
        report(ctx, case, key, msg)


def note_features(ctx, case):
    c = ctx.count
    blocks = case['blocks']
    if len(blocks) > 1:
        c('feat:multi-block')
    if case.get('lead'):
        c('feat:lead-blank')
    if blocks[-1].get('gap'):
        c('feat:blank-after-last-block')
    c('blocks', len(blocks))
    for b in blocks:
        if b.get('c'):
            c('feat:urgency-comment')
        if b.get('kv'):
            c('feat:extra-kv')
            if len(b['kv']) > 1:
                c('feat:extra-kv-2')
        if len(b['d']) > 1:
            c('feat:multi-dist')
        if any('.' in d for d in b['d']):
            c('feat:dist-dot')
        if any(d != d.lower() for d in b['d']):
            c('feat:dist-uppercase')
        if '.' in b['p']:
            c('feat:pkg-dot')
        if '+' in b['p']:
            c('feat:pkg-plus')
        if b['u'] != b['u'].lower():
            c('feat:urgency-uppercase')
        dt = b['dt']
        if ',' not in dt:
            c('feat:no-weekday')
        dom = dt.split(', ')[-1].split(' ')[0]
        if len(dom) == 1:
            c('feat:day-1digit')
        if dt[-5] == '-':
            c('feat:zone-minus')
        if inner_blank(b):
            c('feat:inner-blank')
        if b['body'] and b['body'][0] != '':
            c('feat:no-blank-after-header')
        if b['body'] and b['body'][-1] != '':
            c('feat:no-blank-before-trailer')
        joined = ''.join(b['body'])
        if any(ord(ch) > 127 for ch in joined):
            c('feat:nonascii-change')
        if '#' in joined or ':' in joined:
            c('feat:hash-or-colon')
        if any(ch in joined for ch in NON_LF_BREAKS):
            c('feat:non-LF-line-boundary-in-change')
        if any(ord(ch) > 127 for ch in b['n']) or '(' in b['n'] or '.' in b['n']:
            c('feat:hostile-maintainer-name')
        if b.get('tb'):
            c('feat:trailer-trailing-blanks')
        if b.get('hb'):
            c('feat:heading-trailing-blanks')
        if ':' in b['v']:
            c('feat:version-epoch')
        if '~' in b['v']:
            c('feat:version-tilde')


LEVEL_TEXT = ('Runtime monitoring: 1.5e4 (quick) / 5.7e5 (thorough) seeded structured changelog models plus a fixed '
              'one-feature-at-a-time matrix (353 models) are rendered to text by the grammar of the statement and pushed '
              'through the live debian.changelog.Changelog in nine input forms (str, bytes, line lists with/without '
              'newline, bytes lines, text/binary file objects, iterator, Changelog().parse_changelog) with strict=True '
              'under warnings.catch_warnings(record=True); the boundary oracle requires no exception, no warning, '
              'str(result) == text byte for byte, and block count / package / version / distributions / urgency / '
              'urgency comment / extra key=values in order / change lines / author / date equal to the model, in file '
              'order.  Every model additionally runs in one of three forms of bytes lines without line end (empty item = '
              'blank line); two further classes (blank-line layouts incl. blank lines after the last block; blanks after the '
              'date of a trailer / after a heading) run in all twelve forms.  Held-on-observed, not a proof: reach is the generated models (feature counters and anchor line '
              'coverage are in the evidence).')
LEVEL_NOTE = ('Trusted: CPython, the generator and its 10-line render() (re-validated per case by an independent grammar '
              'check; a case outside the grammar makes the run inconclusive).  Domain: exactly the grammar of the '
              'statement - single spaces in the header, lower-case urgency keyword, comma-free comments/values, empty '
              'blank lines, two spaces before the date, UTF-8, text ends with a newline.')
TECHNIQUE = ('runtime monitoring: boundary oracle M (generator-side structured model vs. str() and block attributes of the '
             'live Changelog, warnings recorded) over seeded grammar-generated texts in every input form; mechanism-keyed, '
             'shrunk, replayable witnesses')
