"""C14 - Version objects accept exactly the valid version strings, decompose
them losslessly (Policy split), and component assignments are atomic.

Deciding monitor M (public boundary):
  M.construct  every generated string is classified by the independent
               three-way classifier vp.models.dpkgver.classify ('accept' /
               'reject' / 'unspecified') and pushed through the live
               constructor; accept/reject must agree (unspecified is not
               judged); for accepted valid strings str(v), full_version and
               the three components must equal the string / the Policy
               decomposition dpkgver.split (epoch before the FIRST colon,
               revision after the LAST hyphen), not merely recompose.
  M.assign     assignment histories on a live object against a 3-tuple model:
               each assignment either succeeds with str(v) == recomposition
               with the new component, that string valid, and the components
               re-derived from it (Policy split), or raises ValueError with all
               observables unchanged (M.rollback counts the latter).
  M.isolation / M.copy / M.fresh   state BETWEEN objects (same histories):
               every history also builds a sibling object from the same initial
               string, may copy-construct (Version(v) / BaseVersion(v)) and then
               assign to the copy or to the original, and constructs new objects
               from the initial string, from str() of the assigned-to object and
               from strings met earlier in the history.  Objects that were not
               assigned to must read exactly as before after every step; a copy
               must read as the Policy decomposition of the original's string;
               the newly constructed objects are judged exactly like constructor
               cases (so a string that was rejected / decomposed correctly
               earlier in the process must still be).  A per-shard pool of 36
               initial strings is drawn from again and again, and one long-lived
               object per pool string is watched across histories.
Round-4 classes (same oracle, no new keys): VERY LARGE EPOCHS (2**31-1, 2**31, 2**32, 2**63, 20- and 40-digit,
zero-padded) in constructor strings, as initial strings of histories and as assigned values of every magic attribute;
and full_version assignments whose value consists of version characters only but is MUST-REJECT (colon without numeric
epoch, colon after the last hyphen, nothing after the epoch), i.e. refused by a check that comes after the
character/shape check.  Whether an epoch > INT_MAX must be accepted is UNSPECIFIED (local classify() adds the verdict
'big-epoch': never judged accept/reject); atomicity and self-consistency are judged in full.
Round-9 class (keys alias/*, debian-version-alias-differs): THE ALIAS SPELLING OF THE REVISION ATTRIBUTE.  debian_version
is the compatibility alias of debian_revision: both names always read the same value (checked wherever the revision is
read, also on unspecified strings), and every assignment through one of the two names (valid, invalid, '', None = remove
the revision) is repeated through the OTHER name on an identical twin object (M.alias): both must raise ValueError
leaving their object unchanged, or both must succeed with identical observables.  A targeted enumeration drives
(name) x (value class) x (object shape: revision / epoch set or not, colon / hyphen inside the upstream version).
Auxiliary monitor K7 (contract on BaseVersion.__setattr__, attached with
vp.contracts.wrap, normal and exceptional exit): after a normal exit
full_version == recompose(epoch, upstream_version, debian_revision); after an
exceptional exit all four observables equal their values at entry; at the exit of the outermost magic assignment
(K7.alias) debian_version reads the same as debian_revision.
"""
import itertools
import shutil
import subprocess

from .. import contracts
from ..models import dpkgver

PROP = 'C14'
LEVEL = 'exploration'
RULE = ('Constructor cases: ALL strings of length <= 4 (quick) / <= 5 (thorough) over the 14 symbols '
        '"1 0 a . + ~ - : SPACE LF _ e-acute ARABIC-INDIC-3 SUPERSCRIPT-2", ALL strings of length 5..7 (quick) / 6..8 '
        '(thorough) over "1 a : -", plus seeded structured random strings of length up to ~24 (valid versions and '
        'single/double hostile mutations of them: foreign characters at start/middle/end, extra colons and hyphens, '
        'non-ASCII digits, colon after the last hyphen).  A constructor case is non-trivial when the string is '
        'non-empty and contains a structural character (":" or "-") or a character outside the version alphabet, '
        'i.e. it is not a plain alphanumeric/.+~ run.  History cases: a valid initial version followed by <= 6 '
        'assignments of valid and invalid values (incl. None, ints, re-splitting values) to epoch / upstream_version / '
        'debian_revision / debian_version / full_version; non-trivial when the history contains at least one '
        'assignment that succeeded and one that raised (rollback exercised on a live object).  '
        'State between objects: 55% of the histories start from a per-shard POOL of 36 valid strings (12 ordinary, 12 with '
        'a colon inside the upstream version, 12 with a hyphen inside it), so every pool string is constructed hundreds of '
        'times in one process before and after objects built from it were assigned to, and one long-lived object per pool '
        'string is compared with its snapshot in every later history on that string; every history builds a never-'
        'assigned-to sibling from the same initial string; 45% contain a copy construction Version(v)/BaseVersion(v) after '
        'which either the copy or the original is assigned to and the other one is watched; every history ends with (20% '
        'also contain in the middle) a "fresh" step that constructs new objects from the initial string, from str() of '
        'the assigned-to object and from up to 3 strings met earlier in the history (accepted results, rejected '
        'recompositions) and judges them like constructor cases (in 70% of the middle steps the new object takes over as '
        'the assigned-to object and the old one is watched).  Component removal: 30% of the histories start from a '
        'version whose upstream version contains a colon (with epoch) and/or a hyphen (with revision), the text before '
        'the first colon being all-digit or not, and are made of epoch=None / debian_revision=None / debian_version=None '
        '/ revision="" assignments interleaved with re-adding assignments.  One eighth of the histories run before the '
        'constructor enumeration, the rest after it.  '
        'Very large epochs: 22 listed epochs (2147483647, 2147483648, 2**32-1, 2**32, 2**63-1, 2**63, 2**64-1, 2**64, '
        '20-digit, 40-digit, zero-padded 11/20/40-digit spellings) in ALL 35 constructor templates (valid, unspecified and '
        'invalid surroundings: "E:1", "E:1-a:b", "E:", "E:1 LF", "1:E", ...) plus 4e3 / 2e5 seeded valid versions with a '
        'random 10..100-digit epoch, half of them hostile-mutated.  Atomicity histories (6e3 / 3e5, in ADDITION to the '
        'histories above, one eighth before the enumeration): the initial version has a very large epoch (40%), or epoch '
        'AND revision set (45%), or is any valid version; <= 6 assignments drawn from: full_version = a string of version '
        'characters only that is MUST-REJECT because of its colons / empty upstream, 20% of them with a very large epoch '
        '(30%); full_version = valid version with a very large epoch or a large-epoch template (15%); epoch = very large '
        'epoch as str or int (17%); upstream_version = value whose head re-splits into a very large epoch, or a huge '
        'number (8%); debian_revision / debian_version / upstream_version = ordinary valid and invalid values, which hit '
        'objects that carry a very large epoch (16%); small / invalid / None epoch (6%); any ordinary assignment (8%); '
        'with copy constructions (30%) and fresh constructions as above.  Counters bigepoch:* and late:* are decided '
        'from the model and the assigned value, never from what the library did.  '
        'The two spellings of the revision attribute: debian_revision and debian_version are drawn equally often in every '
        'generator above, with the same values (None, "", revisions, ints, re-splitting values, values with a colon or a '
        'foreign character); EVERY assignment through one of the two names, in every history, is repeated through the other '
        'name on a twin object built from the string the assigned-to object had just before (differential M.alias); a '
        'targeted enumeration that does not depend on VERIF_SEED adds one-assignment histories = 27 initial versions (3 for '
        'each of the 9 object shapes revision set / not set x epoch set / not set x colon inside the upstream version x '
        'hyphen inside the upstream version) x 27 (quick) / 48 (thorough) values x both names, class Version for all and '
        'BaseVersion for one initial version per shape (quick) / all (thorough), and two-assignment histories = 27 initial '
        'versions x (both names x 3 / 8 first values) x (both names x 8 / 48 second values); one eighth of the enumeration '
        'runs before the constructor enumeration.  Counters alias:cell:<name>:<value class>:<object shape> (value class '
        'none / empty / valid / resplit / invalid) are decided from the model and the assigned value only.')
ASSUMPTIONS = [
    'vp.models.dpkgver.classify/split is the reference for Debian Policy 5.6.12 syntax (cross-checked against the dpkg binary on a sample in the thorough tier); the Policy "should start with a digit" recommendation is not demanded',
    'strings whose last-hyphen split leaves an empty side ("1-", "-1", "0:-1") are UNSPECIFIED: neither acceptance nor rejection nor their decomposition is judged',
    'recomposition = [epoch ":"] upstream ["-" revision] with the epoch present iff it is not None (so epoch="" recomposes to ":..." which is invalid); a revision of "" may recompose either without a hyphen or with a trailing hyphen (both outcomes tolerated)',
    'an assignment whose recomposition is valid is allowed to raise ValueError (the statement is an either/or); a successful assignment need not read back equal (revision="1-2" legitimately re-splits)',
    'upstream_version=None and values that are neither str nor int are API misuse and are not generated',
    'objects that are not assigned to are compared with their OWN earlier observables (str, full_version, epoch, upstream_version, debian_revision, debian_version); equality, ordering and hashing of version objects are C03 and are not looked at here',
    'a copy construction is only performed (and a freshly constructed object only takes over as the assigned-to object) when the current string is a MUST-ACCEPT string; from an UNSPECIFIED current string ("1.0-") nothing is demanded of a copy, and a fresh construction from it is judged like any unspecified constructor case (only a non-ValueError exception counts)',
    'fresh constructions inside a history are reported under history-dependent-construction/<constructor key>: the same string was pushed through the same library earlier in the same history (as the initial string, as an accepted assignment result whose decomposition was verified, or as a recomposition the library rejected), so a different outcome now is dependence on process history, whatever the constructor does in isolation',
    'witnesses under other-object-changed/*, history-dependent-construction/*, copy-differs-from-original, repeated-construction-differs are shrunk greedily (steps are dropped while the mechanism persists) and, for pool histories, carry a "prelude" (the last 4 pool histories of this shard that started from or ended on the same pool string), which --replay plays unjudged first; a violation under an ORDINARY key that is only a consequence of state left behind by earlier cases of the same process may not reproduce from its own replay file (the leak keys of the same run do)',
    'epoch=None is counted as "removal with colon in upstream" only when the model epoch is set and the model upstream contains ":"; debian_revision/debian_version = None or "" as "removal with hyphen in upstream" only when the model revision is set and the model upstream contains "-"; the outcome is judged by the ordinary assignment oracle (valid recomposition with re-derived components, or ValueError + unchanged)',
    'very large epochs: a string that is MUST-ACCEPT by syntax but whose epoch is > 2147483647, or is spelt with more than 10 digits (zero-padded), has the verdict "big-epoch": Policy says "unsigned integer", dpkg refuses > INT_MAX, so neither its acceptance nor its refusal is judged - not by the constructor, not by an assignment (an assignment may raise ValueError although its recomposition is valid anyway), not by a copy construction (ValueError from a copy of a big-epoch object = copy skipped, the original must be unchanged), not in a fresh construction (a big-epoch string accepted earlier in the history may be refused later and vice versa); epoch == 2147483647 exactly is MUST-ACCEPT; a string with a very large epoch that is MUST-REJECT or UNSPECIFIED for another reason keeps that verdict',
    'what IS judged with very large epochs: if the constructor / assignment / copy takes the string, str() and full_version must equal it and the components must be its Policy decomposition (the epoch text unchanged, no normalisation); every assignment that raises ValueError must leave all six public observables unchanged (also when the object already carries a very large epoch, also for full_version); a history whose big-epoch initial string is refused by the constructor is skipped (counted bigepoch:hist-init-refused)',
    'late-refused full_version values are defined independently of the library regex: non-empty, only characters of [A-Za-z0-9.+~:-], and MUST-REJECT by the reference classifier (reasons colon-without-numeric-epoch, colon-after-last-hyphen, empty-upstream); the ordinary assignment oracle judges them (ValueError + unchanged, or a named accepts-* mechanism)',
    'floors on bigepoch:* / late:* counters use only outcome-independent counters, so a correct library that refuses every epoch > INT_MAX atomically is HELD, not INCONCLUSIVE; the outcome-dependent floor bigepoch:assign-on-big-object is applied (in conclusive()) only when the library accepted at least half of the big-epoch constructor strings',
    'debian_version is the compatibility alias of debian_revision (same component): reading the two names on one object must give the same value at every point where the harness reads the revision - also on UNSPECIFIED strings, whose decomposition is otherwise not judged (key debian-version-alias-differs; inside K7 the two names are compared at the exit of the OUTERMOST magic assignment only, never at the exit of the nested full_version assignment)',
    'alias differential: an assignment through one of the two names is repeated through the other name on a twin built by the constructor from str() of the assigned-to object as it was before the assignment; the twin is used only when it reads identically on all six public observables (otherwise counted alias:twin-skipped and left to the construction oracles); demanded: both raise ValueError (each object unchanged) or both succeed with identical observables - acceptance / rejection must not depend on the name (keys alias/acceptance-depends-on-attribute-name, alias/result-depends-on-attribute-name).  What the common outcome has to be is decided by the ordinary assignment oracle on the assigned-to object only, so an implementation that refuses a valid recomposition through BOTH names alike stays tolerated; None means "remove the revision" for both names',
    'the contract monitor K7 is suspended while the twin is built and assigned to (cost); a twin whose failed assignment changed it is reported under failed-assignment-changes-object from the six public observables',
    'floors on alias:cell:* cover the 9 object shapes that valid versions have (a colon inside the upstream version only with an epoch, a hyphen only with a revision) x 5 value classes x 2 names; the further shapes that occur on UNSPECIFIED current strings ("1.0-" reads as upstream "1.0-" without revision) are counted without a floor',
    'Version is NativeVersion (python-apt absent); BaseVersion is exercised as well; the class exercised is recorded in coverage.version_class',
]
ANCHORS = ['debian.debian_support:BaseVersion._set_full_version',
           'debian.debian_support:BaseVersion.__setattr__',
           'debian.debian_support:BaseVersion.__getattr__',
           'debian.debian_support:BaseVersion._update_full_version',
           'debian.debian_support:BaseVersion.__init__',
           'debian.debian_support:BaseVersion.__str__']
MUST_REACH = ['debian.debian_support:BaseVersion._set_full_version',
              'debian.debian_support:BaseVersion.__setattr__',
              'debian.debian_support:BaseVersion._update_full_version']

ALPHABET = ['1', '0', 'a', '.', '+', '~', '-', ':', ' ', '\n', '_', 'é', '٣', '²']
ENUM_LEN = {'quick': 4, 'thorough': 5}
SMALL_ALPHABET = ['1', 'a', ':', '-']
SMALL_LEN = {'quick': (5, 7), 'thorough': (6, 8)}
RANDOM_STRINGS = {'quick': 76000, 'thorough': 4000000}
HISTORIES = {'quick': 19000, 'thorough': 1200000}
ATOMIC_HISTORIES = {'quick': 6000, 'thorough': 300000}      # in addition to HISTORIES
BIG_RANDOM_STRINGS = {'quick': 4000, 'thorough': 200000}    # in addition to RANDOM_STRINGS
DPKG_SAMPLE = 300

# about 50% of what the unchanged tree measures (minimum over VERIF_SEED 0..3; re-measured in round 9 after the quick random
# workloads were trimmed by 5% to pay for the alias enumeration - the older floors are still 46..53% of the measurement); the copy:/isolation:/fresh:/remove:/hist: floors
# make a run that never exercises state between objects or component removals INCONCLUSIVE rather than held; the bigepoch: and
# late: floors do the same for very large epochs and late-refused full_version values (outcome-independent counters only; the
# outcome-dependent ones are in conclusive())
FLOORS = {'quick': {'nontrivial': 86000,
                    'monitors': {'M.construct': 85000, 'M.assign': 42000, 'M.rollback': 16500, 'K7': 215000, 'K7.raise': 28000,
                                 'M.copy': 5200, 'M.fresh': 53000, 'M.isolation': 129000, 'M.alias': 18500, 'K7.alias': 175000},
                    'counters': {'construct:accept/accepted': 18000, 'construct:reject/rejected': 64000,
                                 'assign:ok': 25500, 'assign:raised': 16500,
                                 'hist:init-from-pool': 5400, 'copy:mutate-copy': 2600, 'copy:mutate-original': 2600,
                                 'isolation:copy-of-assigned-object': 3000, 'isolation:original-of-assigned-copy': 3000,
                                 'isolation:sibling-from-same-string': 23000,
                                 'isolation:long-lived-object-from-same-string': 9600,
                                 'fresh:initial-string-after-change': 12900, 'fresh:current-string': 12200,
                                 'fresh:earlier-accepted-string': 7800, 'fresh:earlier-rejected-string': 15600,
                                 'remove:epoch-with-colon-in-upstream:ok': 340,
                                 'remove:epoch-with-colon-in-upstream:raised': 1000,
                                 'remove:revision-with-hyphen-in-upstream:ok': 1000,
                                 'remove:revision-with-hyphen-in-upstream:raised': 170,
                                 'bigepoch:construct': 1700, 'bigepoch:hist-init': 1180,
                                 'bigepoch:assign:epoch': 1600, 'bigepoch:assign:full_version': 1700,
                                 'late:full_version:colon-after-last-hyphen': 1350,
                                 'late:full_version:colon-without-numeric-epoch': 1800,
                                 'late:full_version:empty-upstream': 330,
                                 'late:full_version:on-object-with-epoch-and-revision': 2350}},
          'thorough': {'nontrivial': 2300000,
                       'monitors': {'M.construct': 2400000, 'M.assign': 2400000, 'M.rollback': 950000, 'K7': 11800000, 'K7.raise': 1600000,
                                    'M.copy': 300000, 'M.fresh': 3000000, 'M.isolation': 7500000, 'M.alias': 1000000,
                                    'K7.alias': 9300000},
                       'counters': {'construct:accept/accepted': 780000, 'construct:reject/rejected': 1500000,
                                    'assign:ok': 1490000, 'assign:raised': 950000,
                                    'hist:init-from-pool': 320000, 'copy:mutate-copy': 150000, 'copy:mutate-original': 150000,
                                    'isolation:copy-of-assigned-object': 175000, 'isolation:original-of-assigned-copy': 175000,
                                    'isolation:sibling-from-same-string': 1300000,
                                    'isolation:long-lived-object-from-same-string': 570000,
                                    'fresh:initial-string-after-change': 750000, 'fresh:current-string': 700000,
                                    'fresh:earlier-accepted-string': 470000, 'fresh:earlier-rejected-string': 890000,
                                    'remove:epoch-with-colon-in-upstream:ok': 26000,
                                    'remove:epoch-with-colon-in-upstream:raised': 68000,
                                    'remove:revision-with-hyphen-in-upstream:ok': 63000,
                                    'remove:revision-with-hyphen-in-upstream:raised': 12000,
                                    'bigepoch:construct': 76000, 'bigepoch:hist-init': 59000,
                                    'bigepoch:assign:epoch': 84000, 'bigepoch:assign:full_version': 85000,
                                    'late:full_version:colon-after-last-hyphen': 70000,
                                    'late:full_version:colon-without-numeric-epoch': 95000,
                                    'late:full_version:empty-upstream': 16000,
                                    'late:full_version:on-object-with-epoch-and-revision': 120000}}}

# the two spellings of the revision attribute: one floor for every (name, value class, object shape) cell, about 50% of the
# smallest cell measured on the unchanged tree (minimum over VERIF_SEED 0..3); a run that never assigns None / '' / valid /
# re-splitting / invalid values through BOTH names to every object shape is INCONCLUSIVE
ALIAS_CELL_FLOOR = {'quick': {'none': 75, 'empty': 50, 'valid': 250, 'resplit': 45, 'invalid': 150},
                    'thorough': {'none': 3300, 'empty': 1300, 'valid': 14500, 'resplit': 2900, 'invalid': 9400}}
ALIAS_FLOOR_SHAPES = ('norev/noepoch', 'norev/epoch', 'norev/epoch/colon', 'rev/noepoch', 'rev/noepoch/hyphen', 'rev/epoch',
                      'rev/epoch/colon', 'rev/epoch/hyphen', 'rev/epoch/colon/hyphen')
for _tier, _floors in ALIAS_CELL_FLOOR.items():
    for _name in ('debian_revision', 'debian_version'):
        for _vc, _floor in _floors.items():
            for _shape in ALIAS_FLOOR_SHAPES:
                FLOORS[_tier]['counters']['alias:cell:%s:%s:%s' % (_name, _vc, _shape)] = _floor

# outcome-dependent floors: demanded only when the library under observation accepts very large epochs at all
BIG_OBJECT_FLOORS = {'quick': {'bigepoch:assign-on-big-object': 5900, 'late:full_version:on-big-epoch-object': 1800,
                               'bigepoch:assign:debian_version': 480, 'bigepoch:assign:debian_revision': 480,
                               'bigepoch:assign:upstream_version': 860},
                     'thorough': {'bigepoch:assign-on-big-object': 300000, 'late:full_version:on-big-epoch-object': 94000,
                                  'bigepoch:assign:debian_version': 25000, 'bigepoch:assign:debian_revision': 25000,
                                  'bigepoch:assign:upstream_version': 44000}}


def conclusive(tier, counters, monitor_evals, extra):
    acc = counters.get('construct:big-epoch/accepted', 0)
    rej = counters.get('construct:big-epoch/rejected', 0)
    if acc + rej == 0:
        return 'no constructor string with a very large epoch was judged'
    if acc < rej:
        return None          # the library refuses (most) very large epochs: no object can carry one
    low = ['%s = %d, floor %d' % (k, counters.get(k, 0), f) for k, f in sorted(BIG_OBJECT_FLOORS.get(tier, {}).items())
           if counters.get(k, 0) < f]
    if low:
        return 'assignments to objects that carry a very large epoch under-exercised: ' + '; '.join(low)
    return None


ATTRS = ('full_version', 'epoch', 'upstream_version', 'debian_revision', 'debian_version')
UNSET = '<unset>'


# ---------------------------------------------------------------------------
# reference side (independent of the repository)

def recompose(epoch, upstream, revision):
    s = ''
    if epoch is not None:
        s += epoch + ':'
    s += upstream
    if revision is not None:
        s += '-' + revision
    return s


INT_MAX = 2147483647
BIG_EPOCH_DIGITS = 10     # an epoch spelt with more digits than INT_MAX has is treated as large whatever its value


def has_big_epoch(s):
    """The text before the first colon is an all-ASCII-digit epoch that is larger than INT_MAX (what dpkg takes) or is
    spelt with more than 10 digits (leading zeros)."""
    if not isinstance(s, str) or ':' not in s:
        return False
    ep = s.split(':', 1)[0]
    if ep == '' or any(c not in dpkgver.ASCII_DIGITS for c in ep):
        return False
    return len(ep) > BIG_EPOCH_DIGITS or int(ep) > INT_MAX


def is_big_epoch_value(ep):
    return isinstance(ep, str) and has_big_epoch(ep + ':')


def classify(s):
    """dpkgver.classify with one more class: 'big-epoch' = a MUST-ACCEPT string by syntax whose epoch exceeds INT_MAX.
    Policy says "unsigned integer", dpkg refuses > INT_MAX: whether such a version must be accepted is UNSPECIFIED and
    never judged; a string that is MUST-REJECT / UNSPECIFIED for another reason keeps that verdict."""
    verdict = dpkgver.classify(s)
    if verdict == 'accept' and has_big_epoch(s):
        return 'big-epoch'
    return verdict


VALID = ('accept', 'big-epoch')      # syntactically valid Policy versions


def reject_reason(s):
    """Why the Policy syntax excludes `s` (None when it does not).  Mirrors
    dpkgver.classify step by step; the two are asserted consistent in setup()."""
    if s == '':
        return 'empty-string'
    if any(ch not in dpkgver.UPSTREAM_CHARS for ch in s):
        return 'foreign-character'
    rest = s
    if ':' in s:
        epoch, rest = s.split(':', 1)
        if epoch == '' or any(c not in dpkgver.ASCII_DIGITS for c in epoch):
            return 'colon-without-numeric-epoch'
    if rest == '':
        return 'empty-upstream'
    if '-' in rest:
        up, rev = rest.rsplit('-', 1)
        if up == '' or rev == '':
            return None
        if any(c not in dpkgver.REVISION_CHARS for c in rev):
            return 'colon-after-last-hyphen'
    return None


def accept_mechanisms(s):
    """Mechanism key(s) for a MUST-REJECT string that the library accepted.
    Two known regex slips are factored out first ('$' lets one trailing LF
    through; '\\d' lets non-ASCII decimal digits into the epoch): the string is
    normalised with respect to them and whatever is still wrong names the
    mechanism.  Decided from the shape of the witness only."""
    applied = []
    t = s
    if t.endswith('\n'):
        t = t[:-1]
        applied.append('accepts-trailing-newline')
    if ':' in t:
        ep, rest = t.split(':', 1)
        if any(c.isdecimal() and c not in dpkgver.ASCII_DIGITS for c in ep):
            ep = ''.join('1' if (c.isdecimal() and c not in dpkgver.ASCII_DIGITS) else c for c in ep)
            t = ep + ':' + rest
            applied.append('accepts-non-ascii-digit-epoch')
    why = reject_reason(t)
    if why is None:
        return applied
    return applied + ['accepts-' + why]


def is_nontrivial_string(s):
    return s != '' and any((ch in ':-') or (ch not in dpkgver.UPSTREAM_CHARS) for ch in s)


# ---------------------------------------------------------------------------
# K7: contract on BaseVersion.__setattr__

K7_FAILS = []          # (key, msg) produced by K7 during the current operation
K7_COUNT = {'K7.raise': 0, 'K7.post': 0, 'K7.alias': 0}


def _observe(v, alias=False):
    obs = (getattr(v, 'full_version', UNSET), getattr(v, 'epoch', UNSET),
           getattr(v, 'upstream_version', UNSET), getattr(v, 'debian_revision', UNSET))
    if alias:
        obs += (getattr(v, 'debian_version', UNSET),)
    return obs


# nesting depth of magic-attribute assignments (a component assignment assigns full_version from inside): the alias
# spelling debian_version is read and compared with debian_revision at the OUTERMOST exit only (method boundary of the
# call the client made), never at an inner one; reset by _drain_k7() between operations
K7_DEPTH = [0]


def _k7_snapshot(self, attr, value):
    # K7 is stated for the magic attributes only: the private slots are written
    # through the same __setattr__ in the middle of an assignment (transient state)
    if attr not in ATTRS:
        return None
    K7_DEPTH[0] += 1
    return _observe(self)


def _k7_alias(now, attr, value, how):
    K7_COUNT['K7.alias'] += 1
    if now[4] != now[3]:
        K7_FAILS.append(('K7/debian-version-alias-differs',
                         'after __setattr__(%r, %r) %s: debian_version=%r but debian_revision=%r'
                         % (attr, value, how, now[4], now[3])))


def _k7_post(old, result, self, attr, value):
    if old is None:
        return
    K7_DEPTH[0] = max(0, K7_DEPTH[0] - 1)
    outer = K7_DEPTH[0] == 0
    now = _observe(self, alias=outer)
    if UNSET in now:
        return
    K7_COUNT['K7.post'] += 1
    full, ep, up, rev = now[:4]
    try:
        want = recompose(ep, up, rev)
    except TypeError:
        want = None
    if full != want:
        K7_FAILS.append(('K7/full-version-not-recomposition-of-components',
                         'after __setattr__(%r, %r): full_version=%r but components (%r, %r, %r) recompose to %r'
                         % (attr, value, full, ep, up, rev, want)))
    if outer:
        _k7_alias(now, attr, value, 'returned')


def _k7_on_raise(old, exc, self, attr, value):
    if old is None:
        return
    K7_DEPTH[0] = max(0, K7_DEPTH[0] - 1)
    outer = K7_DEPTH[0] == 0
    now = _observe(self, alias=outer)
    if old != tuple(UNSET for _ in old):
        K7_COUNT['K7.raise'] += 1
    if now[:4] != old:
        K7_FAILS.append(('K7/exceptional-exit-changed-object',
                         '__setattr__(%r, %r) raised %s but (full_version, epoch, upstream_version, debian_revision) '
                         'went %r -> %r' % (attr, value, type(exc).__name__, old, now[:4])))
    elif outer and UNSET not in now:
        # the four observables are as they were: the alias spelling must still read the (unchanged) revision
        _k7_alias(now, attr, value, 'raised %s' % type(exc).__name__)


def setup(ctx):
    from debian import debian_support as ds
    ctx.extra['version_class'] = ds.Version.__mro__[1].__name__
    ctx.extra['exhaustive_subspaces'] = []
    ctx.extra['dpkg_crosscheck'] = {'strings': 0, 'disagreements': 0}
    # self-consistency of the two reference functions (harness bug otherwise)
    for s in ['', '1', 'a:1', '1:', '1:1-a:b', '1-', '-1', '1:2:3', '1 0', '1\n', '1--1', '0:-1', '٣:1']:
        assert (reject_reason(s) is not None) == (dpkgver.classify(s) == 'reject'), s
    for shape, inits in ALIAS_INITS.items():
        for init in inits:
            if dpkgver.classify(init) != 'accept' or alias_shape(dpkgver.split(init)) != shape:
                raise RuntimeError('harness: ALIAS_INITS entry %r is not a valid version of shape %s' % (init, shape))
    contracts.wrap(ds.BaseVersion, '__setattr__', 'K7', snapshot=_k7_snapshot, post=_k7_post, on_raise=_k7_on_raise)


def finish(ctx):
    contracts.flush_evals(ctx)
    # the shim counts every wrapped call; K7 proper is evaluated for magic attributes on initialised objects only
    ctx.monitor_evals['K7.calls'] += ctx.monitor_evals.pop('K7', 0)
    ctx.monitor_evals['K7'] += K7_COUNT['K7.raise'] + K7_COUNT['K7.post']
    ctx.monitor_evals['K7.raise'] += K7_COUNT['K7.raise']
    ctx.monitor_evals['K7.post'] += K7_COUNT['K7.post']
    ctx.monitor_evals['K7.alias'] += K7_COUNT['K7.alias']
    K7_COUNT['K7.raise'] = K7_COUNT['K7.post'] = K7_COUNT['K7.alias'] = 0


# ---------------------------------------------------------------------------
# workload generators

UP_ATOMS = ['0', '1', '2', '9', '10', '00', '1.0', '2.3', 'a', 'z', 'A', 'rc', '~', '~rc1', '+', '+dfsg', '.', '.1', '~~', '1a']
REV_ATOMS = ['0', '1', '2', '10', '1~bpo1', '0.1', '+b2', 'a', '~', '.', '0ubuntu1', '1.', '+']
EPOCHS = [None, None, None, '0', '1', '2', '12', '007']
FOREIGN = [' ', '\n', '_', 'é', '٣', '²', '\t', '\r', '١', '１', '/', '=', '*', '\x00', 'ß', ',']
HOSTILE = FOREIGN + [':', '-', ':', '-', '\n', '٣', '1', 'a', '~', '.', '+']


def _foreign_wide():
    """Non-ASCII characters a sloppy character class is most likely to let through: every code point whose
    lower/upper/casefold/NFKC form contains an ASCII letter or digit (KELVIN SIGN, LONG S, DOTLESS I, fullwidth and
    superscript digits, ...), plus a strided sample of every other non-ASCII letter and number."""
    import unicodedata
    out = []
    for cp in range(0x80, 0x30000):
        ch = chr(cp)
        cat = unicodedata.category(ch)
        if cat[0] not in 'LN':
            continue
        forms = ch.lower() + ch.upper() + ch.casefold() + unicodedata.normalize('NFKC', ch)
        if any(c.isascii() and c.isalnum() for c in forms):
            out.append(ch)
        elif cp % 97 == 0:
            out.append(ch)
    return out


FOREIGN_WIDE = _foreign_wide()
FOREIGN_TEMPLATES = ['1%s', '%s', '%s1', '1%s-1', '1-%s', '1-1%s', '%s:1', '1%s:1', '1:1%s', '1.0~%s+b1']


def gen_valid(r, maxparts=4):
    """A syntactically valid version (classify == 'accept') with structural variety."""
    while True:
        ep = r.choice(EPOCHS)
        rev = None
        if r.random() < 0.5:
            rev = ''.join(r.choice(REV_ATOMS) for _ in range(r.choice([1, 1, 2])))
        parts = [r.choice(UP_ATOMS) for _ in range(r.randint(1, maxparts))]
        if rev is not None and r.random() < 0.4:
            parts.insert(r.randrange(len(parts) + 1), '-')
            if r.random() < 0.3:
                parts.insert(r.randrange(len(parts) + 1), '-')
        if ep is not None and r.random() < 0.35:
            parts.insert(r.randrange(len(parts) + 1), ':')
        s = recompose(ep, ''.join(parts), rev)
        if dpkgver.classify(s) == 'accept':
            return s


def mutate(r, s):
    k = r.random()
    ch = r.choice(HOSTILE)
    if k < 0.30:
        pos = r.choice([0, len(s), len(s), r.randrange(len(s) + 1)])
        return s[:pos] + ch + s[pos:]
    if k < 0.45 and s:
        pos = r.randrange(len(s))
        return s[:pos] + ch + s[pos + 1:]
    if k < 0.55:
        return s + '\n'
    if k < 0.65:
        # foreign / non-ASCII digit inside or instead of the epoch
        d = r.choice(['٣', '١', '１', '²', 'a', ' ', '', '-', '+'])
        if ':' in s:
            ep, rest = s.split(':', 1)
            pos = r.randrange(len(ep) + 1)
            return ep[:pos] + d + ep[pos + (r.random() < 0.5):] + ':' + rest
        return d + ':' + s
    if k < 0.80:
        # something after the last hyphen that is not a revision
        tail = r.choice([':', 'a:b', '1:1', ':1', '1:', '', '_', '\n', ' 1', '1 ', '٣', 'é'])
        if r.random() < 0.5 and ':' not in s:
            s = r.choice(['0', '1', '3']) + ':' + s
        return s + '-' + tail
    if k < 0.90 and s:
        pos = r.randrange(len(s))
        return s[:pos] + s[pos + 1:]
    pos = r.randrange(len(s) + 1)
    return s[:pos] + r.choice([':', '-', '::', '--', ':-', '-:']) + s[pos:]


def gen_string(r):
    s = gen_valid(r)
    k = r.random()
    if k < 0.25:
        return s
    s = mutate(r, s)
    if k > 0.75:
        s = mutate(r, s)
    return s


EPOCH_VALUES = [None, None, None, '0', '1', '2', '10', '007', 0, 3, '', 'a', '1a', '-1', '1:', ':', '1:2', '٣', '1٣',
                '1\n', '\n', ' ', '1 ', ' 1', '_', 'é', '²', '+', '~', '.', '1.0', -1, '1-1']
UPSTREAM_VALUES = ['0', '1', '1.0', '2.3~rc1+dfsg', 'a', '1-2', '1-2-3', '1:2', '1-2:3', '1.0-', '-', '-1', ':', '1:', ':1', 7, 10,
                   '', ' ', '1 0', '1\n', '\n1', '1_0', 'é', '1٣', '²', '1.0 ', ' 1.0', '~', '+', '.', '1:1-a:b', 'a:1',
                   '٣:1', '1-a:b']
REVISION_VALUES = [None, None, None, '1', '0', '2', '1~bpo10+1', '1.2', 'a', '~', '1-2', '-', '-1', '1-', 0, 5, '',
                   'a:b', ':', '1:', ':1', '1\n', '\n', ' ', '1 ', '_', '1_', 'é', '٣', '²']


# -- state between objects (pool, copies, fresh constructions) and component removals ---------------------------------
# text before the FIRST colon of an upstream version that itself contains a colon: only the all-digit heads leave a valid
# string (which re-splits) when the epoch is removed; with every other head the recomposition is not a version
COLON_HEADS = ['a', '1a', '', '1.0', '~', '+', 'rc', '1.', 'a1', '1', '2', '007', '10', '0']
HYPHEN_TAILS = ['1', '2', 'a', '1.0', '~rc1', '', '0', '+b1']
POOL_SIZE = 36                  # per shard: 12 ordinary, 12 colon-in-upstream, 12 hyphen-in-upstream versions
POOL_SHARE = 0.55               # share of histories whose initial string comes from the pool
REMOVAL_SHARE = 0.30            # share of histories built around epoch / revision removal
RECENT_PER_STRING = 4           # earlier pool histories kept per pool string (become the prelude of a witness)
FRESH_STRINGS = 5               # strings re-constructed by one '@fresh' step (initial, current, earlier ones)


def gen_removal_init(r, kind=None):
    """A valid version whose upstream version is valid only WITH its epoch (contains a colon) and/or contains a hyphen
    (valid only because a revision follows)."""
    while True:
        k = kind or r.choice(['colon', 'colon', 'hyphen', 'hyphen', 'both'])
        ep = r.choice(['0', '1', '2', '12', '007']) if (k != 'hyphen' or r.random() < 0.4) else None
        rev = ''.join(r.choice(REV_ATOMS) for _ in range(r.choice([1, 1, 2]))) if (k != 'colon' or r.random() < 0.4) else None
        up = ''.join(r.choice(UP_ATOMS) for _ in range(r.randint(1, 2)))
        if k in ('hyphen', 'both'):
            tail = r.choice(HYPHEN_TAILS)
            if ep is not None and r.random() < 0.25:
                tail = r.choice(['a:b', '1:1', ':', '1:'])          # revision removal leaves a colon after the last hyphen
            up = (up if r.random() < 0.85 else '') + '-' + tail
            if r.random() < 0.2:
                up += '-' + r.choice(HYPHEN_TAILS)
        if k in ('colon', 'both'):
            up = r.choice(COLON_HEADS) + ':' + up
            if r.random() < 0.2:
                up += ':' + r.choice(UP_ATOMS)
        s = recompose(ep, up, rev)
        if dpkgver.classify(s) == 'accept' and dpkgver.split(s) == (ep, up, rev):
            return s


def make_pool(r):
    pool = []
    while len(pool) < POOL_SIZE:
        third = len(pool) * 3 // POOL_SIZE
        s = gen_valid(r, maxparts=3) if third == 0 else gen_removal_init(r, 'colon' if third == 1 else 'hyphen')
        if s not in pool:
            pool.append(s)
    return pool


# -- the two spellings of the revision attribute (debian_revision and its compatibility alias debian_version) ----------
REV_NAMES = ('debian_revision', 'debian_version')
ALIAS_VCLASSES = ('none', 'empty', 'valid', 'resplit', 'invalid')
# object shapes (decided from the model): revision set or not, epoch set or not, colon / hyphen inside the upstream version
ALIAS_INITS = {
    'norev/noepoch': ['1.0', '2.3~rc1+dfsg', 'a'],
    'norev/epoch': ['1:1.0', '0:2.3+b1', '007:a'],
    'norev/epoch/colon': ['1:1:2', '2:a:1.0', '1:2.0:1'],
    'rev/noepoch': ['1.0-1', '2.3-0ubuntu1', 'a-1~bpo1'],
    'rev/noepoch/hyphen': ['1-2-3', '1.0-rc1-1', 'a-b-c-0.1'],
    'rev/epoch': ['1:1.0-1', '2:2.3~rc1-0.1', '0:a-a'],
    'rev/epoch/colon': ['1:2.0:1-3', '2:a:b-1', '1:1:2-0ubuntu1'],
    'rev/epoch/hyphen': ['1:1-2-3', '3:1.0-rc1-1', '12:a--1'],
    'rev/epoch/colon/hyphen': ['1:1:2-3-4', '1:1-a:b-1', '2:a:b-c-1'],
}
ALIAS_SHAPES = tuple(sorted(ALIAS_INITS))
ALIAS_VALUES = [None, '', '1', '0', '2', '10', '1~bpo10+1', '1.2', 'a', '~', '+', '.', '0ubuntu1', '+b2', 'None', 0, 5, 12,
                '1-2', '-', '-1', '1-', 'a-b-c',
                'a:b', ':', '1:', ':1', '1:2', '0:1-1', '1\n', '\n', '\n1', ' ', '1 ', ' 1', '_', '1_', 'é', '1é', '٣', '²',
                '\t', '\r', '\x00', '1/2', '1,2', 'ß', '１']
# the quick tier enumerates a subset of the values (every value class is still there)
ALIAS_VALUES_QUICK = [None, '', '1', '0', '1~bpo10+1', 'a', '~', 'None', 0, 5,
                      '1-2', '-', '-1', '1-',
                      'a:b', ':', '1:', ':1', '1\n', '\n', ' ', '1 ', '_', 'é', '٣', '²', '\t']
ALIAS_FIRST_VALUES = {'quick': ALIAS_VALUES_QUICK, 'thorough': ALIAS_VALUES}
# first assignments of the two-step enumeration (the object has been assigned to through one of the names before)
ALIAS_PRE_VALUES = {'quick': [None, '', '1'], 'thorough': [None, '', '1', '2~b', 3, '1-2', 'a:b', ' ']}
ALIAS_SECOND_VALUES = {'quick': [None, '', '1', 5, '1-2', 'a:b', '1\n', '٣'],
                       'thorough': ALIAS_VALUES}


def other_name(attr):
    return REV_NAMES[1 - REV_NAMES.index(attr)]


def alias_vclass(value):
    """Class of a value assigned to the revision: None, '', a revision, a string of version characters with a hyphen and
    no colon (re-splits), anything else (colon or foreign character: never a revision)."""
    if value is None:
        return 'none'
    sval = str(value)
    if sval == '':
        return 'empty'
    if all(ch in dpkgver.REVISION_CHARS for ch in sval):
        return 'valid'
    if all(ch in dpkgver.UPSTREAM_CHARS for ch in sval) and ':' not in sval:
        return 'resplit'
    return 'invalid'


def alias_shape(model):
    e, u, r = model
    parts = ['rev' if r is not None else 'norev', 'epoch' if e is not None else 'noepoch']
    if isinstance(u, str) and ':' in u:
        parts.append('colon')
    if isinstance(u, str) and '-' in u:
        parts.append('hyphen')
    return '/'.join(parts)


def alias_enumeration(tier):
    """Targeted enumeration (independent of VERIF_SEED; order fixed by a constant shuffle so that every shard gets a
    mixture): every listed object shape x every listed value x both attribute names as one-assignment histories (class
    Version for every initial version, BaseVersion for every one in the thorough tier and for the first of each shape in
    the quick tier), and two-assignment histories in which the object was assigned to through either name before."""
    import random
    out = []
    inits = [s for shape in ALIAS_SHAPES for s in ALIAS_INITS[shape]]
    first = set(ALIAS_INITS[shape][0] for shape in ALIAS_SHAPES)
    for init in inits:
        for value in ALIAS_FIRST_VALUES[tier]:
            for name in REV_NAMES:
                for cls in ('Version', 'BaseVersion'):
                    if cls == 'BaseVersion' and tier == 'quick' and init not in first:
                        continue
                    ops = [[name, value]]
                    if tier != 'quick':
                        ops.append(['@fresh', {'adopt': False}])
                    out.append({'kind': 'hist', 'init': init, 'cls': cls, 'src': 'alias-enum', 'ops': ops})
    for init in inits:
        for name1 in REV_NAMES:
            for value1 in ALIAS_PRE_VALUES[tier]:
                for name2 in REV_NAMES:
                    for value2 in ALIAS_SECOND_VALUES[tier]:
                        for cls in (('Version',) if tier == 'quick' else ('Version', 'BaseVersion')):
                            out.append({'kind': 'hist', 'init': init, 'cls': cls, 'src': 'alias-enum2',
                                        'ops': [[name1, value1], [name2, value2]]})
    random.Random('C14/alias-enumeration').shuffle(out)
    return out


# -- very large epochs, and full_version values that are refused only after the character/shape check -----------------
BIG_EPOCHS = ['2147483647', '2147483648', '2147483649', '4294967295', '4294967296', '4294967297',
              '9223372036854775807', '9223372036854775808', '18446744073709551615', '18446744073709551616',
              '12345678901234567890', '99999999999999999999', '10000000000000000000',
              '1234567890123456789012345678901234567890', '9999999999999999999999999999999999999999',
              '1' + '0' * 39, '00000000000000000001', '0' * 39 + '7', '0' * 20, '02147483648', '2147483650', '3000000000']
BIG_EPOCH_INTS = [2147483647, 2147483648, 4294967295, 4294967296, 2 ** 63 - 1, 2 ** 63, 2 ** 64, 12345678901234567890,
                  10 ** 39, 1234567890123456789012345678901234567890]
# constructor templates around a large epoch E (valid, unspecified and invalid surroundings)
BIG_TEMPLATES = ['E:1', 'E:1.0-1', 'E:a', 'E:1:2', 'E:1-2-3', 'E:1.0~rc1+dfsg-0ubuntu1', 'E:0', 'E:1-a:b', 'E:', 'E',
                 'E-1', 'E:-1', 'E:1-', 'E:1-1:', 'aE:1', 'E:1\n', 'E\n:1', 'E :1', ' E:1', 'E٣:1', '٣E:1', '-E:1', '+E:1',
                 '1:E', '1:1-E', '1:E:1', 'E:E:E-E', ':E', 'E::1', 'E:1_', 'E.0:1', 'Ea:1', 'E:E', '0:E-E', 'E:1.0-1\n']
# text before the first colon that is NOT an epoch (the string has no epoch, so a colon is not allowed anywhere)
LATE_HEADS = ['a', 'rc', '1a', 'a1', '1.0', '1.', '.1', '~', '+', '.', '', '1+', '1~', 'A', 'z9', '1-1', '-1', '1-', '-',
              '2.3~rc1', '0a', '+1', '1.0-2']
# text after the last hyphen that is NOT a revision (it contains a colon)
LATE_TAILS = [':', 'a:b', '1:1', ':1', '1:', '1:2:3', '0:0', 'a:', ':a', '1.0:1', '~:~', '1:1.0~rc1']


def gen_big_epoch(r):
    if r.random() < 0.75:
        return r.choice(BIG_EPOCHS)
    n = r.choice([10, 10, 11, 12, 19, 20, 20, 21, 39, 40, 40, 41, 64, 100])
    ep = r.choice('123456789') + ''.join(r.choice('0123456789') for _ in range(n - 1))
    if n == 10 and int(ep) <= INT_MAX:
        ep = '3' + ep[1:]
    return ep


def gen_big_valid(r):
    """A syntactically valid version whose epoch is very large (classify == 'big-epoch')."""
    while True:
        s = gen_valid(r, maxparts=3) if r.random() < 0.7 else gen_removal_init(r)
        if ':' in s and s.split(':', 1)[0].isdigit():
            s = s.split(':', 1)[1]
        s = gen_big_epoch(r) + ':' + s
        if classify(s) == 'big-epoch':
            return s


def gen_late_refused(r):
    """A string over the version alphabet only (so a character-class / shape check lets it through) that is nevertheless
    MUST-REJECT: a colon without a numeric epoch in front of it, a colon after the last hyphen, nothing after the
    epoch.  Sometimes with a very large epoch."""
    while True:
        k = r.random()
        up = ''.join(r.choice(UP_ATOMS) for _ in range(r.randint(1, 3)))
        rev = ''.join(r.choice(REV_ATOMS) for _ in range(r.choice([1, 1, 2])))
        ep = gen_big_epoch(r) if r.random() < 0.2 else r.choice(['0', '1', '2', '3', '7', '12', '007', '99'])
        if k < 0.40:
            # no numeric epoch, but a colon
            s = r.choice(LATE_HEADS) + ':' + up
            if r.random() < 0.3:
                s += ':' + r.choice(UP_ATOMS)
            if r.random() < 0.6:
                s += '-' + rev
        elif k < 0.80:
            # epoch, and a colon after the last hyphen
            s = ep + ':' + up + ('-' + r.choice(HYPHEN_TAILS) if r.random() < 0.3 else '') + '-' + r.choice(LATE_TAILS)
        elif k < 0.90:
            # no epoch at all and a colon after the last hyphen
            s = up + '-' + rev + '-' + r.choice(LATE_TAILS)
        else:
            s = ep + ':'
        if dpkgver.classify(s) == 'reject' and all(ch in dpkgver.UPSTREAM_CHARS for ch in s):
            return s


def _atomic_op(r):
    """Assignments aimed at atomicity: values refused late, very large epochs in every position."""
    k = r.random()
    if k < 0.30:
        return ['full_version', gen_late_refused(r)]
    if k < 0.45:
        return ['full_version', gen_big_valid(r) if r.random() < 0.8 else
                r.choice(BIG_TEMPLATES).replace('E', gen_big_epoch(r))]
    if k < 0.62:
        return ['epoch', gen_big_epoch(r) if r.random() < 0.7 else r.choice(BIG_EPOCH_INTS)]
    if k < 0.70:
        # re-splitting upstream values: on an object without epoch the head becomes a very large epoch
        return ['upstream_version', r.choice([gen_big_epoch(r) + ':' + r.choice(UP_ATOMS), gen_big_epoch(r),
                                              gen_big_epoch(r) + ':1-2', gen_big_epoch(r) + ':' + r.choice(LATE_HEADS) + ':1',
                                              int(gen_big_epoch(r))])]
    if k < 0.86:
        # other components (valid and invalid values) - matters on an object that carries a very large epoch
        attr = r.choice(['debian_revision', 'debian_revision', 'debian_version', 'debian_version', 'upstream_version'])
        if attr == 'upstream_version':
            return [attr, r.choice(UPSTREAM_VALUES)]
        return [attr, r.choice(REVISION_VALUES + ['2147483648', '99999999999999999999', 2 ** 63, '4294967296:1',
                                                  '1-18446744073709551616'])]
    if k < 0.92:
        return ['epoch', r.choice([None, '0', '1', 5, '', 'a', '1:', '-1', ' '])]
    return _random_op(r)


def gen_atomic_history(r):
    k = r.random()
    if k < 0.40:
        init = gen_big_valid(r)
    elif k < 0.85:
        # epoch and revision both set, so that a partly committed full_version is visible in every component
        while True:
            init = recompose(r.choice(['0', '1', '2', '5', '12', '007', '2147483647']),
                             ''.join(r.choice(UP_ATOMS) for _ in range(r.randint(1, 3))),
                             ''.join(r.choice(REV_ATOMS) for _ in range(r.choice([1, 1, 2]))))
            if classify(init) == 'accept':
                break
    else:
        init = gen_valid(r, maxparts=3)
    ops = [_atomic_op(r) for _ in range(r.randint(1, 6))]
    cls = 'BaseVersion' if r.random() < 0.2 else 'Version'
    if r.random() < 0.3:
        ops.insert(r.randrange(len(ops)), ['@copy', {'cls': r.choice(['Version', 'BaseVersion', cls]),
                                                     'mutate': r.choice(['copy', 'original'])}])
    if len(ops) > 1 and r.random() < 0.2:
        ops.insert(r.randrange(1, len(ops)), ['@fresh', {'adopt': r.random() < 0.7}])
    ops.append(['@fresh', {'adopt': False}])
    return {'kind': 'hist', 'init': init, 'ops': ops, 'cls': cls, 'src': 'atomic'}


def _random_op(r):
    attr = r.choice(['epoch', 'epoch', 'upstream_version', 'upstream_version', 'debian_revision',
                     'debian_revision', 'debian_version', 'debian_version', 'full_version'])
    if attr == 'epoch':
        val = r.choice(EPOCH_VALUES)
    elif attr == 'upstream_version':
        val = r.choice(UPSTREAM_VALUES) if r.random() < 0.7 else ''.join(r.choice(UP_ATOMS) for _ in range(r.randint(1, 3)))
    elif attr in ('debian_revision', 'debian_version'):
        val = r.choice(REVISION_VALUES) if r.random() < 0.75 else ''.join(r.choice(REV_ATOMS) for _ in range(r.randint(1, 2)))
    else:
        val = gen_string(r) if r.random() < 0.8 else r.choice(['', '1', 12, '1.0-1', '1:1.0-1', ' ', '\n'])
    return [attr, val]


def _removal_op(r):
    k = r.random()
    if k < 0.35:
        return ['epoch', None]
    if k < 0.65:
        return [r.choice(REV_NAMES), r.choice([None, None, None, ''])]
    if k < 0.78:
        return ['epoch', r.choice(['0', '1', '5', 3])]               # put an epoch (back)
    if k < 0.88:
        return [r.choice(['debian_revision', 'debian_version']), r.choice(['1', '0.1', '2~b', 4])]
    return _random_op(r)


def gen_history(r, pool=()):
    removal = r.random() < REMOVAL_SHARE
    from_pool = bool(pool) and r.random() < POOL_SHARE
    if from_pool:
        init = r.choice(pool[len(pool) // 3:]) if removal else r.choice(pool)
    else:
        init = gen_removal_init(r) if removal else gen_valid(r, maxparts=3)
    ops = [(_removal_op(r) if removal else _random_op(r)) for _ in range(r.randint(1, 4) if removal else r.randint(1, 6))]
    cls = 'BaseVersion' if r.random() < 0.2 else 'Version'
    # pseudo-operations (see play_history): a copy construction somewhere in the history, a fresh construction in the
    # middle (the fresh object sometimes takes over as the assigned-to object), and always a fresh construction at the end
    if r.random() < 0.45:
        ops.insert(r.randrange(len(ops)), ['@copy', {'cls': r.choice(['Version', 'Version', 'BaseVersion', cls]),
                                                     'mutate': r.choice(['copy', 'original'])}])
    if len(ops) > 1 and r.random() < 0.2:
        ops.insert(r.randrange(1, len(ops)), ['@fresh', {'adopt': r.random() < 0.7}])
    ops.append(['@fresh', {'adopt': False}])
    case = {'kind': 'hist', 'init': init, 'ops': ops, 'cls': cls}
    if from_pool:
        case['pool'] = True
    return case


def cases(ctx):
    n = ENUM_LEN[ctx.tier]
    if ctx.shard == 0:
        ctx.extra['exhaustive_subspaces'].append(
            'constructor: all %d strings of length <= %d over the 14-symbol alphabet' % (sum(14 ** k for k in range(n + 1)), n))
        ctx.extra['exhaustive_subspaces'].append(
            'constructor: all strings of length %d..%d over "1 a : -"' % SMALL_LEN[ctx.tier])
    # a slice of the histories runs BEFORE the constructor enumeration (a bounded cache inside the library may be full,
    # and therefore inert, once several 10^4 distinct strings have been constructed), the rest after it
    pool = make_pool(ctx.rng('pool'))
    POOL_SET.clear()
    POOL_SET.update(pool)
    ctx.extra['pool_strings_all_shards'] = len(pool)
    rh = ctx.rng('histories')
    n_hist = ctx.size(HISTORIES['quick'], HISTORIES['thorough'])
    ra = ctx.rng('atomic')
    n_atomic = ctx.size(ATOMIC_HISTORIES['quick'], ATOMIC_HISTORIES['thorough'])
    # the two spellings of the revision attribute: targeted enumeration, one eighth of it before the constructor enumeration
    alias_all = alias_enumeration(ctx.tier)
    alias_mine = [c for j, c in enumerate(alias_all) if ctx.mine(j)]
    if ctx.shard == 0:
        ctx.extra['exhaustive_subspaces'].append(
            'revision attribute: %d one-assignment histories = %d initial versions (9 object shapes: revision / epoch set or '
            'not, colon / hyphen inside the upstream version) x %d values (None, "", revisions, re-splitting values, invalid '
            'values) x {debian_revision, debian_version} (class Version; BaseVersion too for all / one per shape), plus %d two-assignment histories (first '
            'assignment: %d values x both names), each assignment repeated through the other name on an identical object'
            % (sum(1 for c in alias_all if c['src'] == 'alias-enum'), sum(len(v) for v in ALIAS_INITS.values()),
               len(ALIAS_FIRST_VALUES[ctx.tier]), sum(1 for c in alias_all if c['src'] == 'alias-enum2'), len(ALIAS_PRE_VALUES[ctx.tier])))
    for _ in range(n_hist // 8):
        yield gen_history(rh, pool)
    for _ in range(n_atomic // 8):
        yield gen_atomic_history(ra)
    for c in alias_mine[:len(alias_mine) // 8]:
        yield c
    i = 0
    # the enumeration index is skewed by i // 14 so that a shard does not receive only the strings that end in one
    # particular symbol (14 symbols, 14 thorough shards)
    for k in range(0, n + 1):
        for t in itertools.product(ALPHABET, repeat=k):
            if ctx.mine(i + i // 14):
                yield {'kind': 'str', 's': ''.join(t), 'src': 'enum'}
            i += 1
    lo, hi = SMALL_LEN[ctx.tier]
    for k in range(lo, hi + 1):
        for t in itertools.product(SMALL_ALPHABET, repeat=k):
            if ctx.mine(i + i // 14):
                yield {'kind': 'str', 's': ''.join(t), 'src': 'enum-small'}
            i += 1
    # every case-fold / compatibility partner of an ASCII letter or digit (and a sample of other non-ASCII letters
    # and numbers) in every position class of a version string
    if ctx.shard == 0:
        ctx.extra['exhaustive_subspaces'].append(
            'constructor: %d non-ASCII letters/numbers (all that case-fold or NFKC-normalise to ASCII alphanumerics) x %d '
            'position templates' % (len(FOREIGN_WIDE), len(FOREIGN_TEMPLATES)))
    for ch in FOREIGN_WIDE:
        for t in FOREIGN_TEMPLATES:
            if ctx.mine(i + i // 14):
                yield {'kind': 'str', 's': t % ch, 'src': 'enum-foreign'}
            i += 1
    # very large epochs: every listed epoch in every template (valid, unspecified and invalid surroundings)
    if ctx.shard == 0:
        ctx.extra['exhaustive_subspaces'].append(
            'constructor: %d very large epochs (2**31-1 .. 40 digits, zero-padded) x %d templates'
            % (len(BIG_EPOCHS), len(BIG_TEMPLATES)))
    for ep in BIG_EPOCHS:
        for t in BIG_TEMPLATES:
            if ctx.mine(i + i // 14):
                yield {'kind': 'str', 's': t.replace('E', ep), 'src': 'enum-big-epoch'}
            i += 1
    r = ctx.rng('strings')
    for _ in range(ctx.size(RANDOM_STRINGS['quick'], RANDOM_STRINGS['thorough'])):
        yield {'kind': 'str', 's': gen_string(r), 'src': 'random'}
    r = ctx.rng('big-strings')
    for _ in range(ctx.size(BIG_RANDOM_STRINGS['quick'], BIG_RANDOM_STRINGS['thorough'])):
        s = gen_big_valid(r)
        k = r.random()
        if k > 0.5:
            s = mutate(r, s)
        if k > 0.85:
            s = mutate(r, s)
        yield {'kind': 'str', 's': s, 'src': 'random-big-epoch'}
    for c in alias_mine[len(alias_mine) // 8:]:
        yield c
    for _ in range(n_hist - n_hist // 8):
        yield gen_history(rh, pool)
    for _ in range(n_atomic - n_atomic // 8):
        yield gen_atomic_history(ra)
    if ctx.tier == 'thorough' and ctx.shard == 0 and shutil.which('dpkg'):
        r = ctx.rng('dpkg')
        strings = []
        while len(strings) < DPKG_SAMPLE:
            s = gen_string(r)
            # dpkg reports only the FIRST problem it meets and merely warns "does not start with digit" before it
            # looks at the character sets, so the sample is restricted to upstreams starting with a digit; strtol
            # also takes a signed epoch ("+1:"), which Policy (unsigned integer) does not.
            pos = s.index(':') + 1 if ':' in s else 0
            if s[pos:pos + 1] not in dpkgver.ASCII_DIGITS or s[pos:pos + 1] == '':
                s = s[:pos] + r.choice('0129') + s[pos:]
            if not s.startswith(('-', '+')) and '\x00' not in s and not any(c.isspace() for c in s):
                strings.append(s)
        yield {'kind': 'dpkg', 'strings': strings}


# ---------------------------------------------------------------------------
# boundary monitor

def _drain_k7():
    K7_DEPTH[0] = 0
    fails = list(K7_FAILS)
    K7_FAILS[:] = []
    return fails


def _public(v):
    """All public observables of a version object."""
    return (str(v), v.full_version, v.epoch, v.upstream_version, v.debian_revision, v.debian_version)


def check_construct(ctx, s, clsname='Version', count=True):
    """Push one string through the live constructor; returns [(key, msg)]."""
    from debian import debian_support as ds
    cls = getattr(ds, clsname)
    verdict = classify(s)
    out = []
    _drain_k7()
    try:
        v = cls(s)
        accepted = True
    except ValueError:
        accepted = False
    except Exception as e:   # the statement knows ValueError only
        out.append(('constructor-raises-non-valueerror', '%s(%r) raised %s: %s' % (clsname, s, type(e).__name__, e)))
        accepted = None
    k7 = _drain_k7()
    if count:
        ctx.mon('M.construct')
        ctx.count('construct:%s/%s' % (verdict, {True: 'accepted', False: 'rejected', None: 'error'}[accepted]))
        if has_big_epoch(s):
            ctx.count('bigepoch:construct')          # whatever the verdict and whatever the library did
    if accepted is None or verdict == 'unspecified':
        if accepted:
            # decomposition not judged, but the two spellings of the revision attribute read the same component
            rev, rev2 = v.debian_revision, v.debian_version
            if rev2 != rev:
                out.append(('debian-version-alias-differs', '%s(%r): debian_version=%r debian_revision=%r'
                            % (clsname, s, rev2, rev)))
        return out + k7
    if verdict == 'big-epoch' and not accepted:
        return out + k7      # refusing an epoch > INT_MAX is not judged
    if verdict == 'reject':
        if accepted:
            for key in accept_mechanisms(s):
                out.append((key, '%s(%r) was accepted (str=%r epoch=%r upstream=%r revision=%r) but the string is not a '
                                 'valid Debian version: %s' % (clsname, s, str(v), v.epoch, v.upstream_version,
                                                               v.debian_revision, reject_reason(s))))
            if k7 and count:
                ctx.count('K7:fired-coincident-with-boundary-finding', len(k7))
            return out       # K7 failures here are consequences of the same acceptance slip
        return out + k7
    # verdict == 'accept', or 'big-epoch' and the library took it: lossless + Policy decomposition are demanded
    if not accepted:
        out.append(('rejects-valid-version', '%s(%r) raised ValueError but the string is a valid Debian version '
                                             '(Policy split %r)' % (clsname, s, dpkgver.split(s))))
        return out + k7
    sv, full, ep, up, rev, rev2 = _public(v)
    if sv != s or full != s:
        out.append(('str-differs-from-input', '%s(%r): str()=%r full_version=%r' % (clsname, s, sv, full)))
    want = dpkgver.split(s)
    if (ep, up, rev) != want:
        ok_types = all(x is None or isinstance(x, str) for x in (ep, up, rev)) and up is not None
        if ok_types and recompose(ep, up, rev) == s:
            out.append(('components-differ-from-policy-split',
                        '%s(%r): (epoch, upstream, revision)=%r recompose to the input but the Policy decomposition '
                        '(epoch before first colon, revision after last hyphen) is %r' % (clsname, s, (ep, up, rev), want)))
        else:
            out.append(('components-do-not-recompose', '%s(%r): (epoch, upstream, revision)=%r, Policy decomposition %r'
                        % (clsname, s, (ep, up, rev), want)))
    if rev2 != rev:
        out.append(('debian-version-alias-differs', '%s(%r): debian_version=%r debian_revision=%r' % (clsname, s, rev2, rev)))
    return out + k7


POOL_SET = set()         # this shard's pool of initial strings (filled by cases())
SENTINELS = {}           # (class name, pool string) -> object built at the first use of the string, never assigned to
LAST_FINAL = [None]      # str() of the assigned-to object at the end of the last history played
RECENT = {}              # pool string -> the last few pool histories that started from it or ended on it
LEAK_PREFIXES = ('history-dependent-construction/', 'other-object-changed/', 'copy-differs-from-original',
                 'copy-construction-raises', 'repeated-construction-differs')


def _is_pseudo(op):
    return isinstance(op[0], str) and op[0].startswith('@')


def _is_leak_key(key):
    return key.startswith(LEAK_PREFIXES)


def _expected_public(s):
    """_public() of an object whose string is the valid version `s`."""
    e, u, r = dpkgver.split(s)
    return (s, s, e, u, r, r)


def _check_watched(ctx, watched, what, step, count, changed):
    """Objects that were not assigned to must read exactly as they did before."""
    out = []
    for label, obj, snap in watched:
        now = _public(obj)
        if count:
            ctx.mon('M.isolation')
            if changed:
                ctx.count('isolation:%s' % label)
        if now != snap:
            out.append(('other-object-changed/%s' % label,
                        '%s; the %s (never assigned to since) went (str, full_version, epoch, upstream_version, '
                        'debian_revision, debian_version) %r -> %r' % (what, label.replace('-', ' '), snap, now), step))
    return out


def _alias_differential(ctx, cls, clsname, attr, value, before, raised, after, model, step, count):
    """The same assignment through the OTHER spelling of the revision attribute, on a twin object built from the string
    the assigned-to object had just before: acceptance and result must not depend on the name.  Returns [(key, msg, step)].
    The cell counter (name x value class x object shape) is decided from the model and the value only."""
    other = other_name(attr)
    if count:
        ctx.count('alias:cell:%s:%s:%s' % (attr, alias_vclass(value), alias_shape(model)))
    # the contract monitor K7 is suspended while the twin is built and assigned to (cost); the twin is judged here, at
    # the boundary, on all six public observables
    twin = twin_raised = error = None
    contracts._DEPTH[0] += 1
    try:
        try:
            twin = cls(before[0])
            twin_before = _public(twin)
        except Exception:
            twin = None
        if twin is not None and twin_before == before:
            try:
                setattr(twin, other, value)
            except ValueError as exc:
                twin_raised = exc
            except Exception as exc:
                error = exc
    finally:
        contracts._DEPTH[0] -= 1
    if twin is None or twin_before != before:
        # no identical second object to be had (judged by the construction oracles, not here)
        if count:
            ctx.count('alias:twin-skipped')
        return []
    if error is not None:
        return [('assignment-raises-non-valueerror', '%r on %r: %s=%r raised %s: %s'
                 % (clsname, before[0], other, value, type(error).__name__, error), step)]
    twin_after = _public(twin)
    if count:
        ctx.mon('M.alias')
        ctx.count('alias:%s-then-%s:%s/%s' % (attr, other, 'raised' if raised else 'ok', 'raised' if twin_raised else 'ok'))
    what = ('%s=%r on %s(%r) %s, %s=%r on an identical object %s' %
            (attr, value, clsname, before[0], 'raised ValueError' if raised else 'succeeded -> %r' % (after,),
             other, value, 'raised ValueError' if twin_raised else 'succeeded -> %r' % (twin_after,)))
    if twin_raised is not None and twin_after != twin_before:
        return [('failed-assignment-changes-object',
                 '%s=%r on %r raised ValueError but (str, full_version, epoch, upstream_version, debian_revision, '
                 'debian_version) went %r -> %r' % (other, value, before[0], twin_before, twin_after), step)]
    if (raised is None) != (twin_raised is None):
        return [('alias/acceptance-depends-on-attribute-name', what, step)]
    if raised is None and twin_after != after:
        return [('alias/result-depends-on-attribute-name', what, step)]
    return []


def play_history(ctx, case, count=True):
    """Execute one history; returns [(key, msg, step)] (step = index of the op
    that exposed it, -1 for the initial construction).

    ops are [attribute, value] assignments to the *assigned-to object* plus two
    pseudo-operations:
      ['@copy', {'cls': C, 'mutate': 'copy'|'original'}]  c = C(obj); c must read as the Policy decomposition of
            str(obj); afterwards either c or obj is the assigned-to object and the other one is watched;
      ['@fresh', {'adopt': bool}]  new objects are constructed from the initial string, from str(obj) and from strings
            seen earlier in the history, and judged like any constructor case; with adopt the object built from str(obj)
            becomes the assigned-to object and obj is watched.
    Watched objects (a sibling built from the same initial string, copies / originals, for pool strings a long-lived
    object kept across histories) are compared with their snapshot after every step."""
    from debian import debian_support as ds
    clsname = case.get('cls', 'Version')
    cls = getattr(ds, clsname)
    init, ops = case['init'], case['ops']
    out = []
    init_verdict = classify(init)
    if init_verdict not in VALID:
        # only reachable through a hand-written replay file
        return [('harness/bad-history', 'initial version %r is not a valid version' % (init,), -1)]
    if init_verdict == 'big-epoch':
        if count:
            ctx.count('bigepoch:hist-init')
        try:
            cls(init)
        except ValueError:
            # refusing an epoch > INT_MAX is not judged: there is no object to assign to
            _drain_k7()
            if count:
                ctx.count('bigepoch:hist-init-refused')
            return []
        except Exception:
            pass                 # reported by check_construct below
        _drain_k7()
    pre = check_construct(ctx, init, clsname, count=False)
    if pre:
        if case.get('pool') and (clsname, init) in SENTINELS:
            # this very string was constructed and judged correct earlier in this process
            return [('history-dependent-construction/' + k, 'pool string constructed again: ' + m, -1) for (k, m) in pre]
        return [(k, m, -1) for (k, m) in pre]
    exp = _expected_public(init)
    watched = []
    if case.get('pool'):
        if (clsname, init) not in SENTINELS:
            SENTINELS[(clsname, init)] = cls(init)
        watched.append(('long-lived-object-from-same-string', SENTINELS[(clsname, init)], exp))
        if count:
            ctx.count('hist:init-from-pool')
    w = cls(init)
    v = cls(init)
    _drain_k7()
    if _public(w) != exp or _public(v) != exp:
        return [('repeated-construction-differs', '%s(%r) constructed three times in a row: observables %r and %r, '
                 'Policy decomposition %r' % (clsname, init, _public(w), _public(v), exp), -1)]
    watched.append(('sibling-from-same-string', w, exp))
    leak = _check_watched(ctx, watched, 'constructing %s(%r) again' % (clsname, init), -1, count, False)
    if leak:
        return leak
    model = dpkgver.split(init)
    seen = []                # strings met in this history (accepted results, rejected recompositions / values)
    n_ok = n_raised = 0
    for step, op in enumerate(ops):
        attr = op[0]
        value = op[1] if len(op) > 1 else None
        if attr == '@copy':
            opt = value or {}
            cur = _public(v)
            cur_verdict = classify(cur[0])
            if cur_verdict not in VALID:
                if count:
                    ctx.count('copy:skipped/current-string-unspecified')
                continue
            ccls = opt.get('cls', clsname)
            try:
                c = getattr(ds, ccls)(v)
            except Exception as exc:
                if cur_verdict == 'big-epoch' and isinstance(exc, ValueError):
                    # a constructor may refuse an epoch > INT_MAX (not judged), but nothing may have changed
                    _drain_k7()
                    if count:
                        ctx.count('copy:skipped/big-epoch-refused')
                    if _public(v) != cur:
                        return out + [('other-object-changed/original-by-copy-construction', '%s(<%s %r>) raised '
                                       'ValueError and changed its argument: %r -> %r'
                                       % (ccls, clsname, cur[0], cur, _public(v)), step)]
                    continue
                return out + [('copy-construction-raises', '%s(<%s %r>) raised %s: %s'
                               % (ccls, clsname, cur[0], type(exc).__name__, exc), step)]
            k7 = _drain_k7()
            if count:
                ctx.mon('M.copy')
                ctx.count('copy:mutate-%s' % ('original' if opt.get('mutate') == 'original' else 'copy'))
            expc = _expected_public(cur[0])
            if _public(c) != expc:
                return out + [('copy-differs-from-original', '%s(<%s %r>): the copy reads (str, full_version, epoch, '
                               'upstream_version, debian_revision, debian_version)=%r, Policy decomposition of the '
                               'original\'s string is %r' % (ccls, clsname, cur[0], _public(c), expc), step)]
            if _public(v) != cur:
                return out + [('other-object-changed/original-by-copy-construction', '%s(<%s %r>) changed its argument: '
                               '%r -> %r' % (ccls, clsname, cur[0], cur, _public(v)), step)]
            out.extend((k, m, step) for (k, m) in k7)
            leak = _check_watched(ctx, watched, 'copy-constructing %s(<%s %r>)' % (ccls, clsname, cur[0]), step, count, False)
            if leak or k7:
                return out + leak
            if opt.get('mutate') == 'original':
                watched.append(('copy-of-assigned-object', c, expc))
            else:
                watched.append(('original-of-assigned-copy', v, cur))
                v = c
            continue
        if attr == '@fresh':
            opt = value or {}
            cur = _public(v)
            strings = [init]
            for s in [cur[0]] + seen[::-1]:
                if s not in strings and len(strings) < FRESH_STRINGS:
                    strings.append(s)
            for s in strings:
                verdict = classify(s)
                if count:
                    ctx.mon('M.fresh')
                    ctx.count('fresh:%s' % ('initial-string' + ('-after-change' if n_ok else '') if s == init else
                                            'current-string' if s == cur[0] else 'earlier-%sed-string' % verdict
                                            if verdict in ('accept', 'reject') else 'earlier-%s-string' % verdict))
                    if has_big_epoch(s):
                        ctx.count('bigepoch:fresh')
                for k, m in check_construct(ctx, s, clsname, count=False):
                    out.append(('history-dependent-construction/' + k,
                                'after %d assignment(s) (%d succeeded) on objects built from %r: %s' % (n_ok + n_raised, n_ok, init, m),
                                step))
            if out:
                return out
            if _public(v) != cur:
                return out + [('other-object-changed/assigned-object-by-later-construction',
                               'constructing %s from %r changed an existing object: %r -> %r'
                               % (clsname, strings, cur, _public(v)), step)]
            leak = _check_watched(ctx, watched, 'constructing %s from %r' % (clsname, strings), step, count, False)
            if leak:
                return out + leak
            if opt.get('adopt') and classify(cur[0]) in VALID:
                try:
                    n = cls(cur[0])
                except ValueError:
                    _drain_k7()
                    if classify(cur[0]) == 'big-epoch':
                        continue          # refusing an epoch > INT_MAX is not judged
                    raise
                _drain_k7()
                if _public(n) != _expected_public(cur[0]):
                    return out + [('repeated-construction-differs', '%s(%r) constructed again: observables %r, Policy '
                                   'decomposition %r' % (clsname, cur[0], _public(n), _expected_public(cur[0])), step)]
                watched.append(('object-whose-string-was-constructed-again', v, cur))
                v = n
                if count:
                    ctx.count('fresh:adopted')
            continue
        before = _public(v)
        e, u, r = model
        sval = None if value is None else str(value)
        removal = None
        if attr == 'full_version':
            cands = [str(value)]
        else:
            if attr == 'epoch':
                if sval is None and e is not None and ':' in u:
                    removal = 'epoch-with-colon-in-upstream'
                e = sval
            elif attr == 'upstream_version':
                u = sval
            else:
                if not sval and r is not None and '-' in u:
                    removal = 'revision-with-hyphen-in-upstream'
                r = sval
            if u is None:
                return out + [('harness/bad-history', 'upstream_version=None is API misuse (not generated)', step)]
            if r == '':
                cands = [recompose(e, u, None), recompose(e, u, '')]
            else:
                cands = [recompose(e, u, r)]
        # classes of the gap closed in round 4 (decided from the model and the value only, never from the outcome)
        big_touch = any(has_big_epoch(c) for c in cands)          # the recomposition carries an epoch > INT_MAX
        obj_big = is_big_epoch_value(model[0])                    # the object carries one already
        late = None
        if attr == 'full_version' and isinstance(value, str) and value != '' and \
                all(ch in dpkgver.UPSTREAM_CHARS for ch in value) and dpkgver.classify(value) == 'reject':
            late = reject_reason(value)      # only version characters, refused for its colons / empty upstream
        raised = None
        try:
            setattr(v, attr, value)
        except ValueError as exc:
            raised = exc
        except Exception as exc:
            out.append(('assignment-raises-non-valueerror', '%r on %r: %s=%r raised %s: %s'
                        % (clsname, before[0], attr, value, type(exc).__name__, exc), step))
            return out
        k7 = _drain_k7()
        after = _public(v)
        if count:
            ctx.mon('M.assign')
            ctx.count('assign:%s:%s' % (attr, 'raised' if raised else 'ok'))
            ctx.count('assign:raised' if raised else 'assign:ok')
            if removal:
                ctx.count('remove:%s:%s' % (removal, 'raised' if raised else 'ok'))
            if big_touch:
                ctx.count('bigepoch:assign:%s' % attr)
                ctx.count('bigepoch:assign:%s:%s' % (attr, 'raised' if raised else 'ok'))
            if obj_big:
                ctx.count('bigepoch:assign-on-big-object')
                ctx.count('bigepoch:assign-on-big-object:%s' % ('raised' if raised else 'ok'))
            if late:
                ctx.count('late:full_version:%s' % late)
                ctx.count('late:full_version:%s' % ('raised' if raised else 'ok'))
                if model[0] is not None and model[2] is not None:
                    ctx.count('late:full_version:on-object-with-epoch-and-revision')
                if obj_big:
                    ctx.count('late:full_version:on-big-epoch-object')
        leak = _check_watched(ctx, watched, '%s=%r on another object (%r) %s' % (attr, value, before[0], 'raised ValueError'
                              if raised else 'succeeded'), step, count, after != before)
        if leak:
            return out + leak
        diff = []
        if attr in REV_NAMES:
            diff = _alias_differential(ctx, cls, clsname, attr, value, before, raised, after, model, step, count)
        if raised is not None:
            n_raised += 1
            if count:
                ctx.mon('M.rollback')
                if any(dpkgver.classify(c) == 'accept' for c in cands):
                    ctx.count('assign:raised-although-recomposition-%s'       # tolerated, informational
                              % ('valid' if not big_touch else 'valid-with-big-epoch'))
            seen.extend(c for c in cands if classify(c) == 'reject' and c not in seen)
            if after != before:
                out.append(('failed-assignment-changes-object',
                            '%s=%r on %r raised ValueError but (str, full_version, epoch, upstream_version, '
                            'debian_revision, debian_version) went %r -> %r' % (attr, value, before[0], before, after), step))
                if k7 and count:
                    ctx.count('K7:fired-coincident-with-boundary-finding', len(k7))
                return out          # K7 reports the same event; the boundary key names it
            out.extend((k, m, step) for (k, m) in k7)
            out.extend(diff)
            if k7 or diff:
                return out
            continue
        # ---- the assignment succeeded
        n_ok += 1
        sv, full, ep, up, rev, rev2 = after
        if sv not in cands:
            out.append(('assignment-result-not-recomposition',
                        '%s=%r on %r (components %r) succeeded with str()=%r; recomposition with the new component is %s'
                        % (attr, value, before[0], model, sv, ' or '.join(repr(c) for c in cands)), step))
            return out
        verdict = classify(sv)
        if count:
            ctx.count('assign:ok/%s' % verdict)
        if verdict == 'reject':
            for key in accept_mechanisms(sv):
                out.append((key, '%s=%r on %r succeeded and produced %r (epoch=%r upstream=%r revision=%r), which is not a '
                                 'valid Debian version: %s' % (attr, value, before[0], sv, ep, up, rev, reject_reason(sv)), step))
            if k7 and count:
                ctx.count('K7:fired-coincident-with-boundary-finding', len(k7))
            return out
        if full != sv:
            out.append(('str-differs-from-input', 'after %s=%r on %r: str()=%r full_version=%r'
                        % (attr, value, before[0], sv, full), step))
            return out
        if sv not in seen:
            seen.append(sv)
        if verdict in VALID:
            want = dpkgver.split(sv)
            if (ep, up, rev) != want or rev2 != rev:
                out.append(('assignment-components-not-rederived',
                            'after %s=%r on %r the version is %r but (epoch, upstream, revision, debian_version)=%r; '
                            'Policy decomposition of the new string is %r' % (attr, value, before[0], sv, (ep, up, rev, rev2), want),
                            step))
                return out
            model = want
        else:
            # unspecified string (empty side of the last-hyphen split): decomposition not judged; follow the object
            if rev2 != rev:
                out.append(('debian-version-alias-differs', 'after %s=%r on %r the version is %r and debian_version=%r but '
                            'debian_revision=%r' % (attr, value, before[0], sv, rev2, rev), step))
                return out
            if not (isinstance(up, str) and (ep is None or isinstance(ep, str)) and (rev is None or isinstance(rev, str))):
                return out
            model = (ep, up, rev)
        out.extend((k, m, step) for (k, m) in k7)
        out.extend(diff)
        if k7 or diff:
            return out
    if count:
        LAST_FINAL[0] = str(v)
        if n_ok and n_raised:
            ctx.nontrivial(case)
    return out


def _reproduces(ctx, cand, key):
    try:
        return any(k == key for (k, _m, _s) in play_history(ctx, cand, count=False))
    except Exception:
        return False
    finally:
        _drain_k7()


def _shrink_history(ctx, case, key, step):
    """Smallest re-executable witness.  Ordinary keys: the single failing
    assignment applied to a fresh object built from the version the object had
    just before it, if that reproduces the same mechanism; else the history
    prefix.  State-between-objects keys: the history with every step removed
    whose removal keeps the mechanism (greedy, one step at a time)."""
    prefix = dict(case, ops=case['ops'][:step + 1])
    if _is_leak_key(key) or (0 <= step < len(case['ops']) and _is_pseudo(case['ops'][step])):
        ops = list(prefix['ops'])
        if not _reproduces(ctx, prefix, key):
            return prefix
        i = 0
        while i < len(ops):
            cand = dict(case, ops=ops[:i] + ops[i + 1:])
            if _reproduces(ctx, cand, key):
                ops = cand['ops']
            else:
                i += 1
        return dict(case, ops=ops)
    if step <= 0:
        return prefix
    try:
        from debian import debian_support as ds
        v = getattr(ds, case.get('cls', 'Version'))(case['init'])
        for op in case['ops'][:step]:
            if _is_pseudo(op):
                continue
            try:
                setattr(v, op[0], op[1])
            except ValueError:
                pass
        cur = str(v)
        _drain_k7()
        if classify(cur) in VALID:
            cand = dict(case, init=cur, ops=[case['ops'][step]])
            cand.pop('pool', None)
            if _reproduces(ctx, cand, key):
                return cand
    except Exception:
        pass
    finally:
        _drain_k7()
    return prefix


def _remember(case, final):
    """Pool histories are kept (a few per pool string) so that a witness of state carried over from an earlier history
    of the same process can be replayed: they become its 'prelude'."""
    bare = {k: v for k, v in case.items() if k != 'prelude'}
    for s in {case['init'], final}:
        if s in POOL_SET:
            lst = RECENT.setdefault(s, [])
            lst.append(bare)
            del lst[:-RECENT_PER_STRING]


def run_case(ctx, case):
    kind = case['kind']
    if kind == 'str':
        s = case['s']
        if is_nontrivial_string(s):
            ctx.nontrivial(case={'kind': 'str', 's': s})
        small = {'kind': 'str', 's': s}
        seen = set()
        for clsname in ('Version', 'BaseVersion'):
            for key, msg in check_construct(ctx, s, clsname, count=(clsname == 'Version')):
                if key not in seen:
                    seen.add(key)
                    ctx.violation(key, msg, small)
    elif kind == 'hist':
        for p in case.get('prelude', ()):
            # witness of state carried over between histories: re-create the earlier histories first (not judged)
            try:
                play_history(ctx, p, count=False)
            except Exception:
                pass
            _drain_k7()
        prelude = []
        if case.get('pool') and not ctx.replay:
            for p in RECENT.get(case['init'], ()):
                if p not in prelude:
                    prelude.append(p)
        seen = set()
        for key, msg, step in play_history(ctx, case):
            if key in seen:
                continue
            seen.add(key)
            if step < 0 and not _is_leak_key(key):
                ctx.violation(key, msg, {'kind': 'str', 's': case['init']})
                continue
            small = _shrink_history(ctx, case, key, step)
            if _is_leak_key(key) and prelude and 'prelude' not in small:
                small = dict(small, prelude=prelude)
            ctx.violation(key, msg, small)
        if case.get('pool') and not ctx.replay:
            _remember(case, LAST_FINAL[0])
    elif kind == 'dpkg':
        # cross-check of the REFERENCE CLASSIFIER (not of the library) against the dpkg binary
        for s in case['strings']:
            p = subprocess.run(['dpkg', '--compare-versions', s, 'eq', s], stdout=subprocess.DEVNULL,
                               stderr=subprocess.PIPE)
            err = p.stderr.decode('utf-8', 'replace')
            bad = [l for l in err.splitlines() if 'bad syntax' in l and 'does not start with digit' not in l]
            dpkg_says = 'reject' if bad else 'accept'
            mine = dpkgver.classify(s)
            ctx.extra['dpkg_crosscheck']['strings'] += 1
            # dpkg rejects what the design leaves unspecified (empty revision / empty upstream)
            if mine == 'unspecified':
                mine = 'reject'
            if mine != dpkg_says:
                ctx.extra['dpkg_crosscheck']['disagreements'] += 1
                ctx.inconclusive.append('reference classifier says %s, dpkg says %s for %r (%s)'
                                        % (mine, dpkg_says, s, err.strip()[:200]))
    else:
        raise ValueError('unknown case kind %r' % (kind,))


LEVEL_TEXT = ('Runtime monitoring: every string of length <= 4 (quick) / <= 5 (thorough) over a 14-symbol alphabet (version '
              'characters plus space, LF, "_", non-ASCII letter and digits), every string of length 5..7 / 6..8 over "1 a : -", '
              'and 7.6e4 / 4e6 seeded structured hostile strings are pushed through the live Version/BaseVersion constructor and '
              'judged by an independent three-way Policy-5.6.12 classifier (accept / reject / unspecified) and the Policy '
              'decomposition; 1.9e4 / 1.2e6 assignment histories (<= 6 assignments of valid and invalid values incl. None and '
              'ints to all five magic attributes) run against a 3-tuple model, with a contract on BaseVersion.__setattr__ '
              '(normal and exceptional exit) watching every call.  The same histories exercise state between objects: a per-shard '
              'pool of 36 initial strings constructed over and over, a watched sibling / long-lived object per string, copy '
              'constructions with the copy or the original assigned to, fresh constructions from the initial, current and '
              'earlier strings after the assignments, and targeted epoch / revision removals from versions whose upstream '
              'version contains a colon / hyphen.  Every assignment to debian_revision / debian_version is repeated through '
              'the other name on an identical object (same acceptance, same result), driven also by a targeted enumeration of '
              'name x value class x object shape.  Held-on-observed, not a proof: reach is the enumerated '
              'sub-spaces plus the sampled strings and histories.')
LEVEL_NOTE = ('Trusted: CPython, vp.models.dpkgver.classify/split (cross-checked against the dpkg binary on a sample in the '
              'thorough tier), the generators.  Strings whose last-hyphen split has an empty side are not judged; an assignment '
              'that raises although its recomposition is valid is tolerated (counted, not judged).')
TECHNIQUE = ('runtime monitoring: boundary oracle M (independent Policy syntax classifier + Policy decomposition + 3-tuple '
             'assignment model, snapshot comparison of every object that was not assigned to) deciding on every observed '
             'construction/assignment; auxiliary contract monitor K7 on '
             'BaseVersion.__setattr__ at normal and exceptional exit')
